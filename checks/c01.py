"""C01 — supervisor; see DESIGN.md section 6.  Proof: props/C01.v.  Tie: trace acceptance (check B)."""
from . import supcommon as S

OCAML = S.OCAML
GO = S.GO
FAMILIES = "mixed,big,sdsender,startup,earlyshutdown,errs,slowstop,shutdownfirst".split(",")
PROP = "props/C01.v"
PROOFS = ["proofs/SupInv.v", "proofs/SupStop.v", "proofs/SupTrig.v", "proofs/SupGate.v", "proofs/SupOnce.v"]


def run(run):
    S.run_property(run, "C01", FAMILIES, PROP, PROOFS)


def replay(path):
    return S.replay("C01", path)
