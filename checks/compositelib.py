"""Shared machinery of the composite checks (C09, C10, C11): run scenario families through the Go
harness (each scenario in a child process under a watchdog), feed the event logs to the extracted
acceptor + property predicates (ocaml/composite.ml), classify the outcome per HOWTO.md."""
import hashlib
import json
import os
import subprocess
import tempfile
from . import common as C

MODEL = ["model/Composite.v", "model/CompositeMon.v", "lib/Errs.v", "lib/LTS.v"]
PROOFS_COMMON = ["proofs/CompositeBase.v", "proofs/CompositeC10.v", "proofs/CompositeC11.v", "proofs/CompositeLocks.v",
                 "proofs/CompositeLive.v"] + MODEL
TRUSTED = [
    "hand-written model of runnables/composite (coq/model/Composite.v), tied to the code only by trace acceptance "
    "(check B) and the differential runs on hasMembershipChanged / error classification (check A)",
    "child runnables are environment: contract mocks (both Stop styles) and, in some scenarios, a real nested composite.Runner",
    "trace predicates C09_holdsb/C10_holdsb/C11_holdsb (coq/model/CompositeMon.v) are executable monitors on observables; "
    "they are not proved equivalent to the theorems",
    "extraction via ExtrOcamlBasic only; OCaml driver ocaml/composite.ml + util.ml; Go harness cmd/composite + internal/director "
    "(mutex-ordered event log, runtime.Stack quiescence detector, slog park handler)",
]
PRED = {"C09": "c09", "C10": "c10", "C11": "c11"}


def build(run):
    okb, log = C.go_build(["composite"])
    if not okb:
        run.violation("build-go", {"log": log[-3000:]}, "harness does not build against the repository", True)
        return False
    oko, log = C.ocaml_build(["composite"])
    if not oko:
        run.violation("build-ocaml", {"log": log[-3000:]}, "model driver does not build", True)
        return False
    return True


def _model(path, model_args, env=None):
    with open(path, "rb") as fh:
        p = subprocess.run([os.path.join(C.BIN, "composite_model")] + list(model_args), stdin=fh,
                           stdout=subprocess.PIPE, stderr=subprocess.STDOUT, timeout=3000, env=env)
    return p.returncode, p.stdout.decode("utf-8", "replace")


def parse_model(out):
    results, cover, summary, mism = [], {}, {}, []
    for line in out.splitlines():
        t = line.split()
        if not t:
            continue
        if t[0] == "RESULT":
            d = {"id": t[1], "family": t[2]}
            for kv in t[3:]:
                k, _, v = kv.partition("=")
                d[k] = v
            results.append(d)
        elif t[0] == "COVER":
            k, _, v = t[1].partition("=")
            cover[k] = cover.get(k, 0) + int(v)
        elif t[0] == "SUMMARY":
            for kv in t[1:]:
                k, _, v = kv.partition("=")
                summary[k] = summary.get(k, 0) + int(v)
        elif t[0] == "MISMATCH":
            mism.append(line)
    return results, cover, summary, mism


def harness(args, timeout=3000):
    """Run the harness, return (rc, path of its output file, scripts by case id)."""
    fd, path = tempfile.mkstemp(prefix="composite-", suffix=".log", dir=C.BUILD)
    with os.fdopen(fd, "wb") as fh:
        p = subprocess.run([os.path.join(C.BIN, "composite")] + [str(a) for a in args], stdout=fh,
                           stderr=subprocess.STDOUT, timeout=timeout)
    scripts, traces, cur = {}, {}, None
    for line in open(path, errors="replace"):
        if line.startswith("CASE "):
            cur = line.split()[1]
            traces[cur] = []
        elif line.startswith("SCRIPT ") and cur:
            scripts[cur] = line[7:].strip()
        elif line.startswith("E ") and cur:
            traces[cur].append(line[2:].strip())
        elif line.startswith("CRASH ") and cur:
            traces[cur].append(line.strip())
    return p.returncode, path, scripts, traces


def run_families(run, fams, model_args=()):
    """fams: list of (family, n, seed).  Returns (results, cover, summary, scripts, traces)."""
    results, cover, summary, scripts, traces = [], {}, {}, {}, {}
    for fam, n, seed in fams:
        if fam.startswith("corpus:"):
            cpath = os.path.join(C.VERIF, fam[7:])
            if not os.path.exists(cpath):
                continue
            n = len([l for l in open(cpath) if l.strip()])
            rc, path, sc, tr = harness(["-mode", "script", "-file", cpath])
        else:
            if run.tier == "quick":
                n = run.scaled(n)      # anchor drift (a mirrored function changed): escalated budget, DESIGN 3.3
            rc, path, sc, tr = harness(["-mode", "batch", "-family", fam, "-n", n, "-seed", seed])
        rcm, out = _model(path, model_args)
        os.unlink(path)
        r, cv, sm, mm = parse_model(out)
        if mm:
            # MISMATCH lines of the driver in trace mode = event lines it could not parse: part of the trace was
            # not checked at all (audit-2 L8: these lines used to be dropped)
            run.violation("harness-failed:unparsed-events:" + fam, {"family": fam, "lines": mm[:20]},
                          "the model driver could not parse %d event line(s) of family %s: %s" % (len(mm), fam, mm[0][:160]), True)
        if rc != 0 or rcm != 0 or "SUMMARY" not in out or len(r) != n:
            run.violation("harness-failed:" + fam, {"family": fam, "out": out[-1500:]},
                          "composite harness or model driver failed to run family %s" % fam, True)
        results += r
        for k, v in cv.items():
            cover[k] = cover.get(k, 0) + v
        for k, v in sm.items():
            summary[k] = summary.get(k, 0) + v
        scripts.update(sc)
        traces.update(tr)
    return results, cover, summary, scripts, traces


VM_A = []   # VMCASE lines of the last check_a (extraction re-validation)


def check_a(run, args, model_args=(), vm_stride=0):
    rc, path, _, _ = harness(args)
    rcm, out = _model(path, model_args, env=C.vm_env(run.seed, vm_stride) if vm_stride else None)
    os.unlink(path)
    VM_A[:] = [l for l in out.splitlines() if l.startswith("VMCASE")]
    _, _, summary, mism = parse_model(out)
    if rc != 0 or rcm != 0 or "SUMMARY" not in out:
        run.violation("harness-failed:" + args[1], {"out": out[-1500:]}, "check A driver failed to run", True)
    return summary, mism


def vm_membership(run, fix11=True, fix_ms=True):
    """Extraction re-validation of check A (membership): the sampled pairs re-evaluated by Coq's VM.  The parameters
    record and the entry lists are printed here (independently of ocaml/composite.ml: pool4 = four children named 0..3)."""
    pool = C.coq_list(["mkSpec %d%%N NonBlocking OnSignal RWC" % i for i in range(4)])
    # same parameters as check A's driver (ocaml/composite.ml: pool4, fix_c09 = false, fix_c11, fix_stale = false,
    # fix_lc = true, fix_ms = the membership test of the current code: name multisets, /repo 6a78308)
    P = "(mkParams %s false %s false true %s)" % (pool, C.coq_bool(fix11), C.coq_bool(fix_ms))

    def cf(x):
        return C.coq_list([] if x == "-" else ["(%d%%N, 0%%N)" % int(n) for n in x.split(",")])
    terms, exp, labels = [], [], []
    for l in C.vm_thin(VM_A, 300, run.seed):
        t = l.split("\t")
        terms.append("(membership_changed %s %s %s, same_name_set %s %s %s)" % (P, cf(t[2]), cf(t[3]), P, cf(t[2]), cf(t[3])))
        exp.append(t[4])
        labels.append("membership old=%s new=%s" % (t[2], t[3]))
    return C.vm_crosscheck(run, "composite-membership", ["Composite", "CompositeMon"], terms, exp, labels)


def op_sig(script):
    """canonical, input-specific signature of a scenario"""
    sc = json.loads(script)
    pool = ",".join("%s%s%s%s%s" % (p["name"], p["style"], p["exit"], p["rk"], "n" if p.get("nested") else "") for p in sc["pool"])
    ops = []
    for o in sc["ops"]:
        s = o["op"]
        if o["op"] == "reload":
            s += "(%s%s)" % (o.get("cb", ""), "".join(":%d" % e["c"] for e in o.get("cfg") or []))
        elif o["op"] == "exit":
            s += "(%d,%s)" % (o.get("c", 0), (o.get("err") or "").replace(" ", ""))
        elif o["op"] == "park":
            s += "(%s)" % o.get("sub", "").replace(" ", "_")
        if o["op"] not in ("wait", "waitpark", "end"):
            ops.append(s)
    init = "%s%s" % (sc.get("initcb") or "", "".join(":%d" % e["c"] for e in sc.get("init") or []))
    return "%s|%s|%s" % (pool, init, ";".join(ops))


def has_dup_names(script):
    sc = json.loads(script)
    names = [p["name"] for p in sc["pool"]]
    cfgs = [sc.get("init") or []] + [o.get("cfg") or [] for o in sc["ops"] if o["op"] == "reload"]
    for cf in cfgs:
        ns = [names[e["c"]] for e in cf]
        if len(set(ns)) < len(ns):
            return True
    return False


def same_name_different_object(script):
    """The shape of the recorded finding same-name-different-object:inplace-reload: a Reload() whose new
    configuration has the same runnable NAMES with the same multiplicities as the one in force (so that it
    is reloaded in place) but not the same runnable OBJECTS."""
    sc = json.loads(script)
    names = [p["name"] for p in sc["pool"]]
    cur = sc.get("init") or []
    for o in sc["ops"]:
        if o["op"] != "reload" or o.get("cb") != "some":
            continue
        new = o.get("cfg") or []
        if sorted(names[e["c"]] for e in cur) == sorted(names[e["c"]] for e in new) \
                and sorted(e["c"] for e in cur) != sorted(e["c"] for e in new):
            return True
        cur = new
    return False


def short(sig):
    return hashlib.sha1(sig.encode()).hexdigest()[:8]


def stale_stop_shape(trace):
    """The specific shape of the finding stale-stop-on-restarted-child: Stop() is called on a child
    whose previous Run has finished and whose new Run (its goroutine was launched by the last boot,
    otherwise the child would not be in the configuration being stopped) has not been entered, and
    that Run is entered afterwards:  RunRet c ... StopCall c (no Run of c in progress) ... RunCall c
    with no boot of c in between that a later StopCall c addresses."""
    if not trace:
        return False
    live, ever, pending = {}, {}, {}
    for e in trace:
        t = e.split()
        if len(t) < 2:
            continue
        c = t[1]
        if t[0] == "RunCall":
            if pending.get(c):
                return True
            live[c] = live.get(c, 0) + 1
            ever[c] = True
        elif t[0] == "RunRet":
            live[c] = live.get(c, 0) - 1
        elif t[0] == "StopCall":
            # a Stop on a child that ran before and is not running now: its goroutine of the
            # current generation has not entered Run (or the child exited by itself)
            pending[c] = bool(ever.get(c)) and live.get(c, 0) == 0
        elif t[0] == "Callback":
            # a later boot legitimately restarts children: only a RunCall that precedes the next
            # callback-driven boot of c counts; keep pending (the boot follows the stop directly)
            pass
    return False


def key_for(pid, r, script, trace=None):
    """canonical key of a property violation"""
    v = int(r[PRED[pid]])
    if pid == "C09" and v == 20 and stale_stop_shape(trace):
        return "stale-stop-on-restarted-child"
    if pid == "C09" and v == 21 and r.get("shape") == "stop-between-setconfig-and-boot":
        return "stop-between-setconfig-and-boot"
    if pid == "C09" and v in (20, 21) and script and same_name_different_object(script):
        return "same-name-different-object:inplace-reload"
    if pid == "C11" and script and has_dup_names(script):
        return "duplicate-entry-names"
    sig = op_sig(script) if script else r["id"]
    return "%s-clause%d:%s:%s" % (pid.lower(), v, r["family"], short(sig))


CLAUSES = {
    1: "Run() reports ErrRunnableFailed although every child exit was nil or a cancellation",
    2: "a child failed while the composite was Running but Run() never returned",
    3: "Run()'s error does not wrap ErrRunnableFailed after a child failure",
    4: "Run()'s error does not wrap the failed child's error",
    5: "state is not Error after a child failure",
    6: "a running child was not stopped after another child failed",
    7: "Run() returned an error wrapping ErrRunnableFailed, but a state observed after its return is not Error",
    10: "Reload() did not return", 11: "Reload() on a Running composite did not consult the callback",
    12: "runnable identities unchanged (same names with the same multiplicities), yet a child was stopped or started",
    13: "runnable identities unchanged, but the children did not receive exactly one ReloadWithConfig(new config) each, in order",
    14: "state is not Running after a successful Reload()",
    15: "runnable identities changed (as a multiset of names), but a previously running child was not stopped before the first child of the new configuration started",
    16: "runnable identities changed, but the children started are not exactly the new configuration",
    17: "runnable identities changed, yet ReloadWithConfig/Reload was called on a child",
    18: "failed callback, yet a child was touched", 19: "failed callback, but the state is not Error",
    30: "no Reload() in flight, but the runner does not hold the configuration most recently returned by its callback",
    31: "at final quiescence GetChildStates() does not list the runnables of the stored configuration of any model state compatible with the trace",
    20: "Running and no reload in progress, but the running children are not exactly the configured ones",
    21: "Stop()/Reload()/Run() still blocked at final quiescence (deadlock)",
    22: "a child is still running after Run() returned",
}


def classify(run, pid, results, scripts, traces):
    """Turn RESULT lines into violations (per HOWTO.md); returns counters."""
    cnt = {"accepted": 0, "rejected": 0, "inconclusive": 0, "property_failures": 0, "crashed": 0, "timeouts": 0}
    for r in results:
        script = scripts.get(r["id"])
        payload = {"case": r["id"], "family": r["family"], "script": json.loads(script) if script else None,
                   "observed_trace": traces.get(r["id"]), "model_verdict": r,
                   "how": "./check %s --replay <this file>  (build/bin/composite -mode script -file <script> | build/bin/composite_model)" % pid}
        v = int(r[PRED[pid]])
        if r["accepted"] == "1":
            cnt["accepted"] += 1
        elif r["accepted"] == "inc":
            cnt["inconclusive"] += 1
        else:
            cnt["rejected"] += 1
        if r["outcome"] == "crashed":
            cnt["crashed"] += 1
            tr = " ".join(traces.get(r["id"]) or [])
            lib_panic = "panic:" in tr and "go-supervisor/runnables" in tr
            run.violation("crashed:%s:%s" % (r["family"], short(op_sig(script)) if script else r["id"]), payload,
                          "scenario process crashed (%s)" % ("panic inside the library" if lib_panic else "harness failure"),
                          no_input_found=not lib_panic)
            continue
        if r["outcome"] == "timeout":
            cnt["timeouts"] += 1
            run.violation("timeout:%s:%s" % (r["family"], short(op_sig(script)) if script else r["id"]), payload,
                          "scenario did not reach a quiescent end before the watchdog", True)
            continue
        if v != 0:
            cnt["property_failures"] += 1
            run.violation(key_for(pid, r, script, traces.get(r["id"])), payload,
                          "%s fails on the implementation's observables: %s (case %s)" % (pid, CLAUSES.get(v, "clause %d" % v), r["id"]))
        elif r["accepted"] == "0":
            at = r.get("at", "-").split("_")[0]
            run.violation("corr-rejected:%s:%s" % (r["family"], at),
                          dict(payload, theorem="correspondence B: traces(impl) within traces(model) (accept / accepts_sound)"),
                          "the model cannot produce the observed trace of case %s (rejected at event %s of %s: %s); "
                          "the property predicate holds on it" % (r["id"], r["depth"].split("/")[0], r["depth"].split("/")[1], r.get("at")),
                          True)
        if r.get("oops") == "true":
            run.violation("model-oops:%s" % r["family"], payload,
                          "an accepted trace reaches a model branch that the code is believed unable to take", True)
    return cnt


def samples_of(results, scripts, k=4):
    out = []
    for r in results[:: max(1, len(results) // k)][:k]:
        sc = scripts.get(r["id"])
        out.append({"case": r["id"], "script": op_sig(sc) if sc else None, "events": r.get("depth"),
                    "accepted": r.get("accepted"), "c09": r.get("c09"), "c10": r.get("c10"), "c11": r.get("c11"),
                    "outcome": r.get("outcome")})
    return out


def fill_coverage(run, results, cover, summary, scripts, cnt, extra_eval=0, rule="", extra=None):
    sigs = set(op_sig(scripts[r["id"]]) for r in results if r["accepted"] == "1" and r["id"] in scripts)
    cov = run.coverage
    cov.update({
        "evaluations": len(results) + extra_eval,
        "distinct_nontrivial": len(sigs),
        "rule": rule,
        "samples": samples_of(results, scripts),
        "traces_validated_against_impl": cnt["accepted"],
        "traces_rejected": cnt["rejected"],
        "acceptor_inconclusive": cnt["inconclusive"],
        "property_failures_on_impl_observables": cnt["property_failures"],
        "parks_matched": summary.get("parks", 0),
        "scenarios_ending_blocked": summary.get("blocked", 0),
        "events_total": summary.get("events", 0),
        "distinct_scripts": len(sigs),
        "model_labels_exercised_by_accepted_traces": dict(sorted(cover.items())),
        "exhaustive": False,
    })
    all_labels = ["RunCall", "ReloadCall", "StopApi", "Cancel", "State", "RunBegin", "ToRunning", "SelCtx", "SelStop",
                  "SelErr", "TransIf", "TearLock", "ToStopped", "RunExit", "RunRet", "BootLock.run", "BootLock.reload",
                  "BootLaunch.run", "BootLaunch.reload", "StopBegin.run", "StopBegin.reload", "StopJoin.run",
                  "StopJoin.reload", "StopCancel.run", "StopCancel.reload", "Cb.init.some", "Cb.init.fail", "Cb.reload.some", "Cb.reload.fail", "KRun",
                  "KExit.nil", "KExit.cancel", "KExit.fail", "KSend", "WCall", "WUnblock", "WRet", "RlLock",
                  "RlSetInPlace", "RlCfg", "RlPlain", "RlSkip", "RlSetCfg", "RlFinish", "RlRet", "SSignal", "SRet"]
    cov["model_labels_never_exercised"] = [l for l in all_labels if l not in cover]
    if extra:
        cov.update(extra)


def replay(pid, path, model_args=()):
    rp = json.load(open(path))
    sc = (rp.get("replay") or {}).get("script")
    if not sc:
        print("replay names a broken obligation or check-A mismatch, not a scenario:", rp.get("what"))
        print(json.dumps(rp.get("replay"), indent=1)[:2000])
        return 1
    okb, log = C.go_build(["composite"])
    oko, log2 = C.ocaml_build(["composite"])
    if not (okb and oko):
        print(log, log2)
        return 1
    with tempfile.NamedTemporaryFile("w", suffix=".json", delete=False) as f:
        f.write(json.dumps(sc) + "\n")
    rc, hp, scripts, traces = harness(["-mode", "script", "-file", f.name])
    rcm, out = _model(hp, model_args)
    os.unlink(f.name)
    for cid, tr in traces.items():
        print("case", cid)
        for e in tr:
            print("   ", e)
    os.unlink(hp)
    print(out)
    results, _, _, _ = parse_model(out)
    bad = [r for r in results if int(r[PRED[pid]]) != 0 or r["accepted"] == "0" or r["outcome"] in ("crashed", "timeout")]
    if bad:
        for r in bad:
            v = int(r[PRED[pid]])
            print("# %s: %s" % (r["id"], CLAUSES.get(v, "trace rejected by the model / abnormal outcome")))
        print("VIOLATION property=%s replay=%s" % (pid, path))
        return 1
    return 0
