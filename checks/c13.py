"""C13 — HTTP server: reload restarts iff config changed; never silently stale.
Proof: props/C13.v.  Tie: check A (Config.Equal differential) + check B (reload histories, acceptor)."""
import filecmp
import os
import shutil
import tempfile
from . import common as C
from . import httplib as H

OCAML = H.OCAML
GO = H.GO + ["cfgfields"]
PROP = "props/C13.v"
PROOFS = H.PROTO_PROOFS + ["proofs/HttpProgress.v", "proofs/HttpMeasure.v", "model/HttpCfgFieldsPolicy.v",
                           "gen/HttpCfgFields.v"] + H.MODEL_FILES


def regenerate_fields():
    """Dump the field lists of httpserver.Config / Route from VERIF_REPO (harness/cmd/cfgfields, reflect); install
    coq/gen/HttpCfgFields.v if its content changed."""
    okb, log = C.go_build(["cfgfields"])
    if not okb:
        return False, log
    tmp = os.path.join(C.BUILD, "HttpCfgFields-%d.v" % os.getpid())
    rc, out = C.sh([os.path.join(C.BIN, "cfgfields"), "-out", tmp], env=C.GOENV, timeout=300)
    if rc != 0:
        return False, out
    dst = os.path.join(C.COQ, "gen", "HttpCfgFields.v")
    with C.Lock("coq"):
        if not os.path.exists(dst) or not filecmp.cmp(tmp, dst, shallow=False):
            shutil.copyfile(tmp, dst)
    txt = open(tmp).read()
    os.unlink(tmp)
    return True, txt


def unclassified_fields(gen_txt):
    """Fields of the Go structs that the policy does not classify (computed here from the two texts: the gen file and
    the policy compile even when props/C13.v does not)."""
    import re
    pol = open(os.path.join(C.COQ, "model", "HttpCfgFieldsPolicy.v")).read()
    out = []
    for struct, gdef, pdef in (("Config", "go_config_fields", "config_field_policy"), ("Route", "go_route_fields", "route_field_policy")):
        g = re.search(r"Definition %s .*?:= \[(.*?)\]\." % gdef, gen_txt, re.S)
        p = re.search(r"Definition %s .*?:= \[(.*?)\n\]\." % pdef, pol, re.S)
        have = set(re.findall(r'^\s*\("([^"]+)",', p.group(1), re.M)) if p else set()
        for name, ty in re.findall(r'\("([^"]+)", "([^"]*)"\)', g.group(1) if g else ""):
            if name not in have:
                out.append("%s.%s (%s)" % (struct, name, ty))
    return out


def check_equal(run):
    sets = [["-family", "equal", "-mode", "fields"],
            ["-family", "equal", "-mode", "exhaustive", "-len", "2"]]
    nrand = 150000 if run.tier == "quick" else 600000
    shards = 2 if run.tier == "quick" else 8
    sets += [["-family", "equal", "-mode", "random", "-n", str(nrand), "-seed", str(run.seed * 50 + i)] for i in range(shards)]
    stats, mism, samples = {}, [], []
    rc_all = 0
    import concurrent.futures as cf

    muts = []

    def one(a):
        rc, lines = H.harness(a)
        m, f, acc, st, ok, err = H.model(lines)
        muts.extend(l for l in lines if l.startswith("MUT\t"))
        return rc, m, st, ok, err, lines[:2]
    with cf.ThreadPoolExecutor(max_workers=min(6, C.NPROC)) as ex:
        for rc, m, st, ok, err, head in ex.map(one, sets):
            rc_all = max(rc_all, rc, 0 if ok else 1)
            mism += m
            H.add_stats(stats, st)
            for l in head[:1]:
                t = l.split("\t")
                if len(t) == 4:
                    samples.append({"a": t[1], "b": t[2], "impl_equal": t[3]})
    if rc_all != 0 or stats.get("eq", 0) == 0:
        run.violation("harness-failed", {"rc": rc_all}, "C13: the Config.Equal differential did not run", True)
    stats["equal_calls_that_mutated_an_argument"] = len(muts)
    if muts:
        t = min(muts, key=len).split("\t")
        run.violation("equal-mutates-argument:" + H.h8(t[1] + t[2]),
                      {"a": t[1], "b": t[2], "a_after": t[3], "b_after": t[4], "pairs_affected": len(muts),
                       "theorem": "correspondence A: the model's config_equal is a pure function; Config.Equal changed one of "
                                  "its arguments (an active configuration is an argument of every Reload's Equal while a live mux "
                                  "may point into it)",
                       "how": "build/bin/http -family equal ...: the MUT line"},
                      "Config.Equal modified its arguments on %d pairs, e.g. a=%s b=%s became a=%s b=%s" % (
                          len(muts), t[1], t[2], t[3], t[4]), True)
    for l in mism[:100]:
        t = l.split("\t")
        head = t[0].split()
        a, b = (t[1], t[2]) if len(t) >= 3 else ("", "")
        payload = {"a": a, "b": b, "driver_line": t[0],
                   "how": "build/bin/http -family equal -mode pair -case <file: a and b on two lines> | build/bin/http_model"}
        kv = dict(x.split("=") for x in head[2:] if "=" in x)
        if head[1] == "route-equal":
            run.violation("route-equal-wrong:" + H.h8(a + b), dict(payload, how="Route.Equal on the two routes a, b (name:path, hex)"),
                          "Route.Equal(%s, %s) answers %s, the model and the specification (same name and same path) say %s" % (
                              a, b, kv.get("impl"), kv.get("model")))
        elif head[1] == "equal" and kv.get("nodup") == "true" and kv.get("impl") != kv.get("spec"):
            run.violation("equal-wrong:" + H.h8(a + b), payload,
                          "Config.Equal answers %s on a duplicate-free pair whose specification is %s" % (kv.get("impl"), kv.get("spec")))
        else:
            run.violation("corr-equal:" + H.h8(a + b), dict(payload, theorem="correspondence A (config_equal vs Config.Equal)"),
                          "Config.Equal disagrees with model/HttpCfg.v (%s)" % t[0], True)
    return stats, samples


def run(run):
    okg, gen_txt = regenerate_fields()
    if not okg:
        run.violation("cfgfields-failed", {"log": gen_txt[-3000:]},
                      "harness/cmd/cfgfields could not dump the fields of httpserver.Config (theorem C13_equal_fields_covered is "
                      "not re-checked)", True)
    else:
        new = unclassified_fields(gen_txt)
        if new:
            run.violation("config-field-unclassified:" + ",".join(new)[:200],
                          {"theorem": "C13_equal_fields_covered (coq/props/C13.v)", "fields": new},
                          "the Go struct has field(s) that model/HttpCfgFieldsPolicy.v does not classify as compared by Equal or "
                          "ignored: %s - decide whether Config.Equal (code and model) must compare them" % ", ".join(new), True)
    C.proof_leg(run, PROP, PROOFS, trusted_extra=[
        "the field lists of httpserver.Config / Route are dumped by harness/cmd/cfgfields (reflect) on every run; the "
        "classification compared/ignored in model/HttpCfgFieldsPolicy.v is hand-written",
        "model/HttpServer.v: abstract network (bind iff free, Shutdown unbinds, dial iff bound), ServeMux oracle, "
        "timing assumption T1 (the serve goroutine reaches net.Listen before the first probe tick); modelled, tied by check B",
        "C13_equal_iff is proved for EVERY permutation-invariant name key and for the code's key (sort + %v, modelled in "
        "HttpCfg.go_names_key and proved permutation-invariant); tied by check A",
        "extraction via ExtrOcamlBasic only; OCaml driver ocaml/http.ml + util.ml; Go harness cmd/http"])
    if not H.build(run):
        return
    eq_stats, eq_samples = check_equal(run)
    try:  # extraction re-validation of the Equal differential (checks/vm_http.py, branch misc-3), once it is merged
        from . import vm_http
    except ImportError:
        vm_http = None
    if vm_http is not None:
        vm_http.crosscheck_equal(run)
    res = H.run_hist(run, "C13")
    for p in res["props"]:
        if p["ok"] or not p["prop"].startswith("c13-"):
            continue
        sc = res["scripts"].get(p["script"], {}).get("script", {"name": p["script"]})
        run.violation("%s:%s" % (p["prop"], H.script_shape(sc)),
                      {"script": sc, "verdict": p, "trace": H.trace_of(res, p["script"]), "how": H.REPLAY_HOW},
                      "history %s: %s fails on the implementation's observables: %s" % (p["script"], p["prop"], p["text"]))
    H.report_hist_common(run, res, "C13")
    H.hist_coverage(run, res, "; plus check A: Config.Equal on every single-field difference, all 32 field combinations x 11 "
                              "route variants x 3 bases (both directions), every pair of route lists of length <= 2 over 5 names "
                              "(incl. names with spaces) x 3 paths, and PRNG-generated/mutated pairs (names with spaces, commas, "
                              "brackets, unicode; duplicate names and paths; extreme durations)")
    cov = run.coverage
    cov["evaluations"] += eq_stats.get("eq", 0)
    cov["distinct_nontrivial"] += eq_stats.get("eq_true", 0)
    cov["equal_differential"] = {"pairs": eq_stats.get("eq", 0), "equal_true": eq_stats.get("eq_true", 0),
                                 "duplicate_free_pairs": eq_stats.get("eq_nodup", 0), "mismatches": eq_stats.get("mismatches", 0),
                                 "calls_that_mutated_an_argument": eq_stats.get("equal_calls_that_mutated_an_argument", 0)}
    cov["samples"] += eq_samples[:3]
    cov["traces_validated_against_impl"] += eq_stats.get("eq", 0)
    cov["exhaustive"] = False
    run.assumptions += ["net/http.Server, the socket table and ServeMux are modelled (abstract network, oracle), not verified",
                        "the pure half needs the ACTIVE configuration to be path-duplicate-free; C13_served_config_nodup / "
                        "C13_no_stale_server prove it from the protocol under mux_sound (the ServeMux refuses a repeated pattern); "
                        "a NEW configuration with duplicate paths is C19's business",
                        "termination (C13_terminates) is a bound on the number of implementation steps by a decreasing measure; the "
                        "returns of the two external calls (configuration callback, http.Server.Shutdown) count as implementation "
                        "steps: that they do return is assumed (C14 bounds Shutdown)",
                        "a callback error wrapping the exported ErrOldConfig takes the unchanged path (code and model): that failure "
                        "is not visible (C13_errold_is_unchanged)"]
    # violations that carry a failing input are printed first (stable)
    run.violations.sort(key=lambda v: v[2])


def replay(path):
    import json
    rp = json.load(open(path))
    if rp["replay"].get("a"):
        okb, log = C.go_build(GO)
        oko, log2 = C.ocaml_build(OCAML)
        if not (okb and oko):
            print(log, log2)
            return 1
        with tempfile.NamedTemporaryFile("w", suffix=".txt", delete=False) as f:
            f.write(rp["replay"]["a"] + "\n" + rp["replay"]["b"] + "\n")
        mode = "pair" if ";" in rp["replay"]["a"] else "routepair"
        rc, lines = H.harness(["-family", "equal", "-mode", mode, "-case", f.name])
        os.unlink(f.name)
        mism, find, acc, stats, ok, err = H.model(lines)
        print("\n".join(lines + mism))
        if mism or rc != 0 or not ok:
            print("VIOLATION property=C13 replay=%s" % path)
            return 1
        return 0
    return H.replay_hist(path, "C13", ["c13-"])
