"""C18 — supervisor; see DESIGN.md section 6.  Proof: props/C18.v.  Tie: trace acceptance (check B).
Further legs (each in its own module, reporting with a key prefix): composite (c18_composite), HTTP server
(c18_http), HTTP cluster (c18_cluster), internal/finitestate subscriptions (c18_fsm)."""
import json
from . import supcommon as S
from . import c18_composite as LC
from . import c18_http as LH
from . import c18_cluster, c18_fsm

OCAML = S.OCAML + LC.OCAML + LH.OCAML + c18_cluster.OCAML + c18_fsm.OCAML
GO = S.GO + LC.GO + LH.GO + c18_cluster.GO + c18_fsm.GO
FAMILIES = "mixed,reload,state,sdsender,big,subclose,errs".split(",")
PROP = "props/C18.v"
# the legs' proof files are listed too, so that the obligation counts of the evidence cover props/C18.v as a whole
PROOFS = (["proofs/SupInv.v", "proofs/SupStop.v", "proofs/SupTrig.v", "proofs/SupGate.v", "proofs/SupOnce.v", "proofs/SupReload.v", "proofs/SupCensus.v"]
          + [f for f in LC.PROOFS] + [f for f in LH.PROOFS] + c18_cluster.FILES + ["model/FsmGo.v", "proofs/FsmCensus.v"])


def run(run):
    S.run_property(run, "C18", FAMILIES, PROP, PROOFS)
    # further legs: each compares the real goroutine census of one component with its model's census
    LC.leg(run)
    LH.leg(run)
    c18_cluster.leg(run)
    c18_fsm.leg(run)


def replay(path):
    kind = json.load(open(path)).get("replay", {}).get("kind")
    if kind == "c18-cluster":
        return c18_cluster.replay_payload(json.load(open(path))["replay"], path)
    if kind in ("c18-fsm", "c18-fsm-soak"):
        return c18_fsm.replay_payload(json.load(open(path))["replay"], path)
    return S.replay("C18", path)
