"""C18 — supervisor; see DESIGN.md section 6.  Proof: props/C18.v.  Tie: trace acceptance (check B)."""
from . import supcommon as S

OCAML = S.OCAML
GO = S.GO
FAMILIES = "mixed,reload,state,sdsender,big,subclose,errs".split(",")
PROP = "props/C18.v"
PROOFS = ["proofs/SupInv.v", "proofs/SupStop.v", "proofs/SupTrig.v", "proofs/SupGate.v", "proofs/SupOnce.v", "proofs/SupReload.v", "proofs/SupCensus.v"]


def run(run):
    S.run_property(run, "C18", FAMILIES, PROP, PROOFS)


def replay(path):
    return S.replay("C18", path)
