"""C18 — supervisor; see DESIGN.md section 6.  Proof: props/C18.v.  Tie: trace acceptance (check B)."""
from . import supcommon as S
from . import c18_composite as LC
from . import c18_http as LH

OCAML = S.OCAML + LC.OCAML + LH.OCAML
GO = S.GO + LC.GO + LH.GO
FAMILIES = "mixed,reload,state,sdsender,big,subclose,errs".split(",")
PROP = "props/C18.v"
PROOFS = ["proofs/SupInv.v", "proofs/SupStop.v", "proofs/SupTrig.v", "proofs/SupGate.v", "proofs/SupOnce.v", "proofs/SupReload.v", "proofs/SupCensus.v"] + [f for f in LC.PROOFS] + [f for f in LH.PROOFS]


def run(run):
    S.run_property(run, "C18", FAMILIES, PROP, PROOFS)
    # further legs: each compares the real goroutine census of one component with its model's census
    LC.leg(run)
    LH.leg(run)


def replay(path):
    return S.replay("C18", path)
