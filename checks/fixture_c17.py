"""Extractor self-test for C17: runs srcfacts on the fixture module
harness/cmd/srcfacts/testdata/fixmod and compares the facts with the hand-determined expectations in
harness/cmd/srcfacts/testdata/expect.txt.  Usable stand-alone:  python3 -m checks.fixture_c17 [--print]"""
import json
import os
import sys
from . import common as C

FIX = os.path.join(C.VERIF, "harness", "cmd", "srcfacts", "testdata")


def facts():
    os.makedirs(os.path.join(C.BUILD, "c17"), exist_ok=True)
    js = os.path.join(C.BUILD, "c17", "fixture.json")
    rc, out = C.sh([os.path.join(C.BIN, "srcfacts"), "-repo", os.path.join(FIX, "fixmod"), "-module", "example.com/fixmod",
                    "-pkgs", "fix", "-structs", "fix.T", "-json", js, "-out", os.path.join(C.BUILD, "c17", "fixture.v"),
                    "-go", C.GO], env=C.GOENV, timeout=300)
    if rc != 0:
        return None, out
    d = json.load(open(js))
    ent = {f["Name"]: f["Entry"] or [] for f in d["funcs"]}

    def ls(x):
        return ",".join("%s:%s" % (l["name"].split(".")[-1], l["mode"]) for l in (x or []))
    lines = []
    for s in d["sites"]:
        if s["Field"] == "mu":
            # the Lock/Unlock calls themselves: only an Unlock of a lock NOT lexically held is a fact of its own
            # (the table must fail on it: coq/model/Race.v unlock_failures)
            if (s.get("Note") or "") in ("Unlock", "RUnlock") and not any(l["name"].endswith(".mu") for l in (s["Locks"] or [])):
                lines.append("unbalanced-unlock %s" % s["Func"])
            continue
        eff = ls(s["Locks"])
        e = ls(ent.get(s["Func"])) if s["SameRecv"] else ""
        lines.append("%s %s %s#%d lex=[%s] entry=[%s] %s conds=[%s] note=%s" % (
            s["Field"], s["Func"], s["Kind"], s["Ord"], eff, e, s["Pre"], " && ".join(s.get("Conds") or []),
            s.get("Note") or "-"))
    for o in d["option_applies"] or []:
        lines.append("option-applied-in %s ctor=%s" % (o["Func"], o["InCtor"]))
    for f in d["funcs"]:
        if f["Entry"]:
            lines.append("entry %s [%s]" % (f["Name"], ls(f["Entry"])))
        if f.get("EntryConds"):
            # history facts that hold at every call of the context (propagated across calls, re-checked by Coq)
            lines.append("entryfacts %s [%s]" % (f["Name"], " && ".join(f["EntryConds"])))
    return sorted(lines), out


def compare():
    got, log = facts()
    if got is None:
        return False, ["srcfacts failed on the fixture: " + log[-500:]], 0
    want = sorted(l.strip() for l in open(os.path.join(FIX, "expect.txt")) if l.strip() and not l.startswith("#"))
    diff = ["missing: " + l for l in want if l not in got] + ["unexpected: " + l for l in got if l not in want]
    return not diff, diff, len(want)


if __name__ == "__main__":
    C.go_build(["srcfacts"])
    if "--print" in sys.argv:
        print("\n".join(facts()[0]))
    else:
        ok, diff, n = compare()
        print("fixture: %d expectations, %s" % (n, "ok" if ok else "\n".join(diff)))
        sys.exit(0 if ok else 1)
