"""C16 — HTTP cluster converges; unchanged untouched; none leaked.
Proof: props/C16.v over model/Cluster.v (planner) and model/ClusterLTS.v (Run-loop protocol).
Tie: check A (planner, differential through the verif export shim) and check B (real Runner with
mock servers injected through the shim; observable traces fed to the extracted acceptor).

F9 (repaired in /repo by dec72e6): the planner filed the old instance of a restarted server under the
derived key id+":stop"; with ids x and x+":stop" both in play the key collided and an entry was lost.
The model is of the repaired code (Cluster.repaired = true: the derived key is extended until unused);
the old witnesses stay in corpus/C16 as regressions and must be accepted with the property holding.
The legacy behaviour is refuted in props/C16.v (C16_*_legacy_refuted) and is one of the seeded mutants."""
import hashlib
import json
import os
import subprocess
import tempfile
import threading
import concurrent.futures as cf
from . import common as C

OCAML = ["cluster"]
GO = ["cluster"]
PROP = "props/C16.v"
PROOFS = ["proofs/ClusterPlan.v", "proofs/ClusterFix.v", "proofs/ClusterFixPlan.v", "proofs/ClusterRun.v",
          "proofs/ClusterInv.v", "proofs/ClusterStep.v", "proofs/ClusterMain.v", "proofs/ClusterRound.v",
          "proofs/ClusterRoundB.v", "proofs/ClusterRoundC.v", "proofs/ClusterHist.v", "proofs/ClusterFsm.v",
          "model/Cluster.v", "model/ClusterLTS.v", "lib/LTS.v"]
HOOK = "runnables/httpcluster/verif_export.go"
SFX = ":stop"


NOLOCK = threading.Lock()


def h8(s):
    return hashlib.sha1(s.encode()).hexdigest()[:8]


def unx(x):
    return bytes.fromhex(x[1:]).decode("utf-8", "backslashreplace")


# ----------------------------------------------------------------------------- check A

VM = []     # VMCASE lines (sampled planner operations + the extracted model's result as a Coq term)
VMC = []    # the same for the corpus (every operation)


def coq_id(x):
    return C.coq_hex(x[1:])


def coq_emap(s):
    out = []
    if s != ".":
        for e in s.split(";"):
            k, i, c, rt, a = e.split(",")
            out.append("(%s, mkE %s %d%%N %s %s)" % (coq_id(k), coq_id(i), int(c), "None" if rt == "-" else "(Some %d%%N)" % int(rt),
                                                  {"n": "ANone", "s": "AStart", "x": "AStop"}[a]))
    return "(%s : emap)" % C.coq_list(out)


def coq_cmap(s):
    out = []
    if s != ".":
        for e in s.split(";"):
            k, c = e.split(",")
            out.append("(%s, %s)" % (coq_id(k), "None" if c == "-" else "Some %d%%N" % int(c)))
    return "(%s : cmap)" % C.coq_list(out)


def vm_terms(vmlines):
    """Input side printed HERE from the dump the Go harness emitted (independent of ocaml/cluster.ml's parser)."""
    terms, exp, labels = [], [], []
    for l in vmlines:
        _, op, arg, sin, sdes, sout, term = l.split("\t")
        if op == "new":
            t = "new_entries %s" % coq_cmap(sin)
        elif op == "build":
            t = "let cur := %s in let des := %s in (build_pending repaired (keys cur) cur des, hygienicb (ids_of cur des), %s)" % (
                coq_emap(sin), coq_emap(sdes), "false" if sout == "nil" else "plan_okb cur des %s" % coq_emap(sout))
        elif op == "actions":
            t = "pending_actions %s" % coq_emap(sin)
        elif op == "commit":
            t = "commit %s" % coq_emap(sin)
        elif op == "remove":
            t = "remove_entry %s %s" % (coq_id(arg), coq_emap(sin))
        elif op == "setrt":
            k, i = arg.split(",")
            t = "set_runtime %s %d%%N %s" % (coq_id(k), int(i), coq_emap(sin))
        elif op == "clrrt":
            t = "clear_runtime %s %s" % (coq_id(arg), coq_emap(sin))
        elif op == "count":
            t = "count %s" % coq_emap(sin)
        else:
            continue
        terms.append(t)
        exp.append(term)
        labels.append("planner %s(%s) on %s / %s" % (op, arg, sin, sdes))
    return terms, exp, labels


CSTATE = {"R": "CRunning", "L": "CReloading", "P": "CStopping", "D": "CStopped", "?Error": "CError"}
BEH = {"r": "BReady", "n": "BNever", "e": "BError"}


def coq_event(tok):
    tag, _, rest = tok.partition(":")
    if tag == "O":
        return "(EOffer %s)" % coq_cmap(rest)
    if tag in ("SA", "SR", "CA", "CL", "RR"):
        return {"SA": "EStopApi", "SR": "EStopApiRet", "CA": "ECancel", "CL": "EClose", "RR": "ERunReturn"}[tag]
    if tag == "F":
        k, c, i, b = rest.split(",")
        return "(EFactory %s %d%%N %d%%N %s)" % (coq_id(k), int(c), int(i), BEH[b])
    if tag == "FE":
        k, c = rest.split(",")
        return "(EFactoryErr %s %d%%N)" % (coq_id(k), int(c))
    if tag in ("RC", "SC", "ST", "N"):
        return "(%s %d%%N)" % ({"RC": "ERunCall", "SC": "EStopCall", "ST": "EStopRet", "N": "ECount"}[tag], int(rest))
    if tag == "S":
        return "(EState %s)" % CSTATE.get(rest, "COther")
    raise ValueError("event " + tok)


def vm_trace_terms(vmlines, fuel):
    """Check B: the acceptor's verdict on sampled traces of the real Runner, re-evaluated by Coq's VM."""
    terms, exp, labels = [], [], []
    for l in vmlines:
        _, _, name, delay, toks, term = l.split("\t")
        try:
            t = C.coq_list([coq_event(x) for x in toks.split(" ") if x])
        except (ValueError, KeyError):
            continue      # a token the driver itself reports as BADTRACE
        d = C.coq_bool(delay == "1")
        terms.append("let t := %s in (length (fst (accept %s %d t)), snd (accept %s %d t), accepted_prefix %s %d t)" % (
            t, d, fuel, d, fuel, d, fuel))
        exp.append(term)
        labels.append("runner trace %s: %s" % (name, toks))
    return terms, exp, labels


VMT = []    # VMCASE lines of the runner acceptor (check B)


def planner_stream(args, stats, lock=None, vm=None):
    """harness (planner mode) | model driver; returns (build_lines, mismatch_lines, ok, tail)."""
    g = subprocess.Popen([os.path.join(C.BIN, "cluster")] + args, stdout=subprocess.PIPE)
    m = subprocess.Popen([os.path.join(C.BIN, "cluster_model"), "planner"], stdin=g.stdout, stdout=subprocess.PIPE, env=vm)
    g.stdout.close()
    out = m.communicate()[0].decode()
    g.wait()
    builds, mism = [], []
    for line in out.splitlines():
        if line.startswith("BUILD\t"):
            builds.append(line)
        elif line.startswith("MISMATCH\t"):
            mism.append(line)
        elif line.startswith("VMCASE\t"):
            with (lock or NOLOCK):
                (VMC if args[1] == "planner-corpus" else VM).append(line)
        elif line.startswith("SUMMARY"):
            with (lock or NOLOCK):
                for kv in line.split()[1:]:
                    k, v = kv.split("=")
                    stats[k] = stats.get(k, 0) + int(v)
    ok = g.returncode == 0 and m.returncode == 0 and "SUMMARY" in out
    return builds, mism, ok, out[-1500:]


def dump_to_corpus(cur, des):
    """corpus line for a (current, desired) pair of dumps, if current is a committed collection."""
    def ents(d):
        return [] if d == "." else [e.split(",") for e in d.split(";")]
    cs = []
    for k, i, c, rt, a in ents(cur):
        if k != i or a != "n":
            return None
        cs.append("%s=%s%s" % (k, "i" if rt == "-" else "r", c))
    ds = ["%s=%s" % (k, c) for k, i, c, rt, a in ents(des)]
    return ",".join(cs) + "|" + ",".join(ds)


def describe_build(cur, des, res):
    def ents(d):
        if d in (".", "nil"):
            return d
        return "{" + ", ".join("%s: id=%s cfg=%s inst=%s %s" % (
            unx(e.split(",")[0]), unx(e.split(",")[1]), e.split(",")[2], e.split(",")[3],
            {"n": "none", "s": "start", "x": "stop"}.get(e.split(",")[4], "?")) for e in d.split(";")) + "}"
    return "current=%s desired=%s plan=%s" % (ents(cur), ents(des), ents(res))


def handle_planner(run, builds):
    for line in builds[:400]:
        t = line.split("\t")
        inmodel, planok, coll = t[1].endswith("true"), t[2].endswith("true"), t[3][5:]
        cur, des, res = t[6], t[7], t[8]
        payload = {"kind": "planner", "line": "\t".join(t[4:]), "corpus_line": dump_to_corpus(cur, des),
                   "in_model_result_set": inmodel, "plan_ok": planok, "readable": describe_build(cur, des, res),
                   "how": "build/bin/cluster -mode planner-corpus -file <file with corpus_line> | build/bin/cluster_model planner"}
        if not planok:
            if coll != "-":
                payload["colliding_pair"] = [unx(coll), unx(coll) + SFX]
            run.violation("plan:" + h8(cur + des + res), payload,
                          "buildPendingEntries returned a plan that does not converge: " + payload["readable"])
        elif not inmodel:
            run.violation("corr-planner:" + h8(cur + des + res),
                          dict(payload, theorem="correspondence A (build_pending vs buildPendingEntries)"),
                          "buildPendingEntries result is a correct plan but outside the model's result set", True)


def handle_planner_ops(run, mism):
    """operation-level disagreements (correspondence only; reported after the input-carrying ones)."""
    for line in mism[:100]:
        t = line.split("\t")
        op = t[1]
        run.violation("corr-planner-%s:%s" % (op.split("(")[0], h8(line)),
                      {"kind": "planner-op", "op": op, "line": "\t".join(t[2:]),
                       "theorem": "correspondence A (%s)" % op},
                      "planner operation %s disagrees with the model" % op, True)


# ----------------------------------------------------------------------------- check B

DROP = ("PD", "NB")


def strip_trace(toks):
    return [t for t in toks if t not in DROP and not t.startswith("RX:")]


def parse_cmap(s):
    m = {}
    if s not in (".", ""):
        for e in s.split(";"):
            k, c = e.split(",")
            if c != "-":
                m[k] = c
    return m


def script_ids(script):
    ids = set()
    for a in script.split():
        if a.startswith("push:") and a[5:] not in (".", ""):
            for e in a[5:].split(";"):
                ids.add(unx(e.split(",")[0]))
    return ids


def collides(ids):
    return sorted(i for i in ids if i + SFX in ids)


def eval_trace(toks):
    """The property on the implementation's observables.  Returns [(name, detail)]."""
    bad = []
    created, order = {}, []
    stopcall, stopret = set(), set()
    offers = []           # (index, map)
    fails = []            # (index, id)
    term = None
    for j, t in enumerate(toks):
        tag, _, rest = t.partition(":")
        if tag == "O":
            offers.append((j, parse_cmap(rest)))
        elif tag in ("SA", "CA", "CL"):
            if term is None:
                term = j
        elif tag == "F":
            k, c, i, b = rest.split(",")
            for i2, (k2, c2, b2, j2) in created.items():
                if k2 == k and i2 not in stopret:
                    bad.append(("replacement-started-before-old-stopped",
                                "instance %s of %r created at event %d while instance %s of the same id has not returned from Stop" % (i, unx(k), j, i2)))
            created[i] = (k, c, b, j)
            order.append(i)
            if b in ("n", "e"):
                fails.append((j, k))
        elif tag == "FE":
            fails.append((j, rest.split(",")[0]))
        elif tag == "SC":
            if rest in created and rest not in stopcall:
                k, c, b, jc = created[rest]
                prev = [jo for jo, _ in offers if jo < jc]
                lo = prev[-1] if prev else -1
                justified = (term is not None and term < j) or b in ("n", "e") or \
                    any(lo <= jo < j and m.get(k) != c for jo, m in offers)
                if not justified:
                    bad.append(("unchanged-entry-stopped",
                                "Stop() on instance %s (%r cfg %s) at event %d although no map changed or removed it" % (rest, unx(k), c, j)))
            elif rest in stopcall:
                bad.append(("stopped-twice", "Stop() called twice on instance %s" % rest))
            stopcall.add(rest)
        elif tag == "ST":
            stopret.add(rest)
        elif tag == "N":
            live = [i for i in order if i not in stopcall]
            if int(rest) != len(live):
                bad.append(("count-wrong", "GetServerCount()=%s at event %d but %d server(s) started and not stopped (instances %s)"
                            % (rest, j, len(live), ",".join(live))))
            if term is None:
                lo, m = offers[-1] if offers else (-1, {})
                have = {}
                for i in live:
                    k, c, b, jc = created[i]
                    have.setdefault(k, []).append(c)
                    if m.get(k) != c:
                        bad.append(("not-converged-extra", "instance %s (%r cfg %s) still running at event %d, the last map says %r"
                                    % (i, unx(k), c, j, m.get(k))))
                for k, c in m.items():
                    if c not in have.get(k, []) and not any(jf > lo and kf == k for jf, kf in fails):
                        bad.append(("not-converged-missing", "the last map wants %r cfg %s, nothing of the kind runs at event %d and no start failed"
                                    % (unx(k), c, j)))
                if j + 1 < len(toks) and toks[j + 1].startswith("S:") and toks[j + 1] != "S:R":
                    bad.append(("state-not-running", "GetState()=%s at an idle point" % toks[j + 1][2:]))
        elif tag == "S":
            if rest.startswith("?"):
                bad.append(("state-error", "GetState()=%s" % rest[1:]))
        elif tag == "RR":
            leaked = [i for i in order if i not in stopret]
            if leaked:
                bad.append(("leaked", "Run() returned while instance(s) %s were never stopped (%s)" % (
                    ",".join(leaked), ", ".join("%r" % unx(created[i][0]) for i in leaked))))
    return bad


def run_batch(args, timeout):
    rc, out = C.sh([os.path.join(C.BIN, "cluster"), "-mode", "runner-batch"] + args, timeout=timeout)
    scripts, traces, problems = {}, {}, {}
    for l in out.splitlines():
        if l.startswith("SCRIPT "):
            _, name, sc = l.split(" ", 2)
            scripts[name] = sc
        elif l.startswith("T "):
            t = l.split(" ")
            traces[t[1]] = (t[2], t[3:])
        elif l.startswith(("HANG ", "CRASH ", "SETUPFAIL ")):
            kind, name, rest = (l.split(" ", 2) + [""])[:3]
            problems[name] = (kind, rest[:1500])
    return scripts, traces, problems


FUEL = 20000


def accept_traces(traces, fuel=FUEL, vm=None):
    inp = "".join("T %s %s %s\n" % (n, d, " ".join(strip_trace(toks))) for n, (d, toks) in traces.items())
    p = subprocess.run([os.path.join(C.BIN, "cluster_model"), "runner", str(fuel)], input=inp.encode(),
                       stdout=subprocess.PIPE, timeout=3000, env=vm)
    verdict, summ = {}, {}
    for l in p.stdout.decode().splitlines():
        if l.startswith("VMCASE\t"):
            VMT.append(l)
            continue
        t = l.split(" ")
        if t[0] in ("ACCEPT", "REJECT", "INCONCLUSIVE", "BADTRACE"):
            verdict[t[1]] = (t[0], " ".join(t[2:]))
        elif t[0] == "SUMMARY":
            summ = dict(kv.split("=") for kv in t[1:])
    return verdict, summ, p.returncode == 0


def runner_leg(run, args, stats, samples, timeout=1500, vm_stride=40):
    scripts, traces, problems = run_batch(args, timeout)
    # runs in which the process stalled longer than the readiness deadline prove nothing: discarded
    stalled = [n for n, (d, toks) in traces.items() if "TIMING" in toks]
    for n in stalled:
        del traces[n]
        scripts.pop(n, None)
        problems.pop(n, None)
    stats["timing_stalls_discarded"] = stats.get("timing_stalls_discarded", 0) + len(stalled)
    verdict, summ, ok = accept_traces(traces, vm=C.vm_env(run.seed, vm_stride))
    if not ok or (scripts and not summ):
        run.violation("harness-failed", {"args": args}, "C16 acceptor driver failed to run", True)
        return
    # a rejected trace is re-run alone (no parallel load) before it counts: the model assumes a ready
    # server answers within the readiness deadline
    rejected = [n for n, (v, _) in verdict.items() if v in ("REJECT", "BADTRACE")]
    confirmed = {}
    for n in rejected[:40]:
        again = 0
        for _ in range(2):
            with tempfile.NamedTemporaryFile("w", suffix=".txt", delete=False) as f:
                f.write(scripts[n] + "\n")
            s2, t2, p2 = run_batch(["-file", f.name, "-jobs", "1"], 120)
            os.unlink(f.name)
            t2 = {k: v for k, v in t2.items() if "TIMING" not in v[1]}
            v2, _, _ = accept_traces(t2)
            if any(v[0] in ("REJECT", "BADTRACE") for v in v2.values()) or p2:
                again += 1
        confirmed[n] = again
    stats["scenarios"] = stats.get("scenarios", 0) + len(scripts)
    stats["traces"] = stats.get("traces", 0) + len(traces)
    stats["events"] = stats.get("events", 0) + int(summ.get("events", 0))
    stats["accepted"] = stats.get("accepted", 0) + int(summ.get("accepted", 0))
    stats["inconclusive"] = stats.get("inconclusive", 0) + int(summ.get("inconclusive", 0))
    stats["maxset"] = max(stats.get("maxset", 0), int(summ.get("maxset", 0)))
    stats.setdefault("distinct_traces", set())
    stats.setdefault("features", {})
    for name, sc in scripts.items():
        ids = script_ids(sc)
        col = collides(ids)
        if name in problems:
            kind, rest = problems[name]
            run.violation("runner-%s:%s" % (kind.lower(), h8(sc)), {"kind": "runner", "script": sc, "detail": rest},
                          "scenario %s: %s" % (kind, "Run() did not return within 6 s after a shutdown trigger and release of every server"
                                                if kind == "HANG" else "child process failed"))
            if name not in traces:
                continue
        if name not in traces:
            continue
        d, toks = traces[name]
        st = strip_trace(toks)
        stats["distinct_traces"].add(" ".join(st))
        feats = stats["features"]
        for f, cond in (("factory_error", any(t.startswith("FE:") for t in st)),
                        ("never_ready_or_error", any(t.startswith("F:") and t[-1] in "ne" for t in st)),
                        ("restart", any(t.startswith("SC:") for t in st) and any(t.startswith("F:") for t in st)),
                        ("stop_api", "SA" in st), ("cancel", "CA" in st), ("siphon_closed", "CL" in st),
                        ("restart_delay", d == "1"), ("colliding_ids", bool(col)),
                        ("count_snapshots", any(t.startswith("N:") for t in st)),
                        ("mid_round_state", "S:L" in st or "S:P" in st)):
            if cond:
                feats[f] = feats.get(f, 0) + 1
        v, info = verdict.get(name, ("MISSING", ""))
        bad = eval_trace(st)
        payload = {"kind": "runner", "script": sc, "trace": " ".join(st), "acceptor": v + " " + info,
                   "property_failures": ["%s: %s" % b for b in bad],
                   "how": "build/bin/cluster -mode runner -script '<script>'"}
        if bad:
            if col:
                payload["colliding_pair"] = [col[0], col[0] + SFX]
            run.violation("runner:%s:%s" % (bad[0][0], h8(sc)), payload, "cluster runner: " + bad[0][1])
        elif v in ("REJECT", "BADTRACE", "MISSING"):
            if confirmed.get(name, 2) >= 1:
                run.violation("corr-runner:" + h8(sc), dict(payload, theorem="correspondence B (ClusterLTS acceptor)",
                                                            reruns_rejected=confirmed.get(name)),
                              "the runner produced a trace the protocol model cannot produce (%s)" % info, True)
            else:
                stats["flaky_rejects"] = stats.get("flaky_rejects", 0) + 1
                stats.setdefault("flaky_samples", []).append(
                    {"script": sc, "trace": " ".join(st), "acceptor": info})
        if len(samples) < 5 and v == "ACCEPT":
            samples.append({"script": sc, "trace": " ".join(st)})


# ----------------------------------------------------------------------------- entry points

def builds_ok(run):
    okb, log = C.go_build(["cluster"])
    if not okb:
        if not os.path.exists(os.path.join(C.REPO, HOOK)):
            run.violation("hook-missing:" + HOOK, {"log": log[-2000:], "hook": HOOK, "patch": "hooks/c16-export.patch"},
                          "the verif export hook %s is not in the repository: the C16 correspondence cannot be checked "
                          "(apply hooks/c16-export.patch)" % HOOK, True)
        else:
            run.violation("build-go", {"log": log[-3000:]}, "harness does not build against the repository", True)
        return False
    oko, log = C.ocaml_build(["cluster"])
    if not oko:
        run.violation("build-ocaml", {"log": log[-3000:]}, "model driver does not build", True)
        return False
    return True


def run(run):
    C.proof_leg(run, PROP, PROOFS, trusted_extra=[
        "hand-written models of entries.go (complete) and of runner.go's Run loop / processConfigUpdate / "
        "executeActions / stopServers / startServers / shutdown (tied by checks A and B)",
        "child servers are contract mocks (factory result, readiness, Stop duration are environment oracles)",
        "extraction via ExtrOcamlBasic only; OCaml driver ocaml/cluster.ml + util.ml; Go harness cmd/cluster; "
        "trace predicates of checks/c16.py (classification only)"])
    if not builds_ok(run):
        return
    quick = run.tier == "quick"
    pstats, samples = {}, []
    del VM[:], VMC[:], VMT[:]
    builds, mism = [], []
    jobs = []
    corpus = os.path.join(C.VERIF, "corpus", "C16", "planner.txt")
    if os.path.exists(corpus):
        jobs.append(["-mode", "planner-corpus", "-file", corpus])
    if quick:
        jobs += [["-mode", "planner-exh", "-pool", "4", "-shard", str(i), "-shards", "2"] for i in range(2)]
        jobs += [["-mode", "planner-exh", "-pool", "5", "-shard", str(i), "-shards", "64"] for i in range(4)]
        jobs += [["-mode", "planner-rand", "-n", str(run.scaled(2500)), "-seed", str(run.seed * 1000 + i)] for i in range(4)]
    else:
        jobs += [["-mode", "planner-exh", "-pool", "5", "-shard", str(i), "-shards", "32"] for i in range(32)]
        jobs += [["-mode", "planner-rand", "-n", "20000", "-seed", str(run.seed * 1000 + i)] for i in range(16)]
    with cf.ThreadPoolExecutor(max_workers=min(C.NPROC, 12)) as ex:
        lk = threading.Lock()
        vme = {True: C.vm_env(run.seed, 1), False: C.vm_env(run.seed, 700 if quick else 20000)}
        for b, m, ok, tail in ex.map(lambda a: planner_stream(a, pstats, lk, vme[a[1] == "planner-corpus"]), jobs):
            builds += b
            mism += m
            if not ok:
                run.violation("harness-failed", {"out": tail}, "C16 planner harness or model driver failed to run", True)
    handle_planner(run, builds)
    # extraction re-validation: corpus operations + a deterministic sample of the others, re-evaluated by Coq's VM
    VM.sort()
    vb = [l for l in VM if l.split("\t")[1] == "build"]
    vo = [l for l in VM if l.split("\t")[1] != "build"]
    C.vm_crosscheck(run, "cluster-planner", ["Cluster"],
                    *vm_terms(VMC[:60] + C.vm_thin(vb, 110, run.seed) + C.vm_thin(vo, 70, run.seed)))
    # the F9 witnesses (corpus) are regressions: they must be accepted with the property holding
    wstats = {}
    if os.path.exists(corpus):
        wb, wm, wok, _ = planner_stream(["-mode", "planner-corpus", "-file", corpus], wstats)
    f9 = {k: wstats.get(k, 0) for k in ("builds", "colliding", "notinmodel", "planfail", "opmismatch")}

    rstats = {}
    rcorpus = os.path.join(C.VERIF, "corpus", "C16", "runner.txt")
    if os.path.exists(rcorpus):
        runner_leg(run, ["-file", rcorpus, "-jobs", "4"], rstats, samples, vm_stride=1)
    n = run.scaled(1600) if quick else 24000       # anchor drift: escalated budget
    chunk = 800 if quick else 3000
    done = 0
    while done < n:
        runner_leg(run, ["-family", "all", "-n", str(min(chunk, n - done)), "-seed", str(run.seed * 100 + done // chunk),
                         "-jobs", str(min(C.NPROC, 12))], rstats, samples)
        done += chunk
    handle_planner_ops(run, mism)
    C.vm_crosscheck(run, "cluster-acceptor", ["Cluster", "ClusterLTS"], *vm_trace_terms(C.vm_thin(VMT, 40, run.seed), FUEL))
    distinct = len(rstats.pop("distinct_traces", set()))
    cov = run.coverage
    cov.update({
        "evaluations": pstats.get("n", 0) + rstats.get("traces", 0),
        "distinct_nontrivial": pstats.get("distinct_builds", 0) + distinct,
        "rule": "check A: distinct (current entries, desired entries) inputs of buildPendingEntries (measured by the model "
                "driver; exhaustive over a pool of ids {a, a:stop, a:stop:stop, :stop, b} x {absent, running cfg0, running "
                "cfg1, idle cfg0} x desired {nil, cfg0, cfg1} -- the whole pool of 5 in the thorough tier, the first 4 ids "
                "plus 1/16 of the pool of 5 in the quick tier -- plus random sequences of maps over a 16-id pool) + check B: "
                "distinct observable traces of the real Runner (after removing bookkeeping tokens); trivial cases "
                "(empty maps, no server ever started) are included in the counts",
        "samples": samples[:5],
        "traces_validated_against_impl": rstats.get("accepted", 0),
        "planner": {k: pstats.get(k, 0) for k in (
            "n", "builds", "distinct_builds", "colliding", "multi", "notinmodel", "planfail", "planfail_known",
            "opmismatch", "parse", "hyg_multi", "fullset", "capped", "new", "actions", "commit", "setrt", "clrrt", "remove", "count")},
        "runner": rstats,
        "f9_regression_witness": f9,
    })
    if rstats.get("inconclusive", 0) * 100 > max(1, rstats.get("traces", 0)):
        run.notes.append("more than 1% of the traces were inconclusive (acceptor fuel)")
    run.assumptions += [
        "child servers behave like the mocks: Run returns when its context is cancelled or Stop was called; Stop returns",
        "a ready server answers IsRunning()=true within the readiness deadline (40 ms in the harness, polled every 5 ms)",
        "the theorems are about the repaired planner (fx = true, /repo dec72e6) and hold for arbitrary ids; the legacy "
        "planner is refuted (C16_*_legacy_refuted)",
    ]


def replay(path):
    rp = json.load(open(path))
    pl = rp.get("replay", {})
    run = C.Run("C16", "replay", 1)
    if not builds_ok(run):
        print("cannot build the harness:", [v[3] for v in run.violations])
        return 1
    if pl.get("kind") == "planner" and pl.get("corpus_line"):
        with tempfile.NamedTemporaryFile("w", suffix=".txt", delete=False) as f:
            f.write(pl["corpus_line"] + "\n")
        stats = {}
        builds, mism, ok, tail = planner_stream(["-mode", "planner-corpus", "-file", f.name], stats)
        os.unlink(f.name)
        for b in builds:
            t = b.split("\t")
            print(t[1], t[2], t[3], describe_build(t[6], t[7], t[8]))
        for m in mism:
            print(m)
        print("planner:", {k: stats.get(k) for k in ("builds", "notinmodel", "planfail", "planfail_known", "opmismatch")})
        if builds or mism or not ok:
            print("VIOLATION property=C16 replay=%s" % path)
            return 1
        print("the recorded input no longer fails")
        return 0
    if pl.get("kind") == "runner" and pl.get("script"):
        with tempfile.NamedTemporaryFile("w", suffix=".txt", delete=False) as f:
            f.write((pl["script"] + "\n") * 8)
        scripts, traces, problems = run_batch(["-file", f.name, "-jobs", "2"], 300)
        os.unlink(f.name)
        traces = {k: v for k, v in traces.items() if "TIMING" not in v[1]}
        verdict, summ, ok = accept_traces(traces)
        failed = 0
        for n, (d, toks) in sorted(traces.items()):
            st = strip_trace(toks)
            bad = eval_trace(st)
            v = verdict.get(n, ("MISSING", ""))
            print(n, v[0], v[1], "|", "; ".join(b[1] for b in bad) or "property holds on this trace")
            if bad or v[0] != "ACCEPT":
                failed += 1
                print("   trace:", " ".join(st))
        for n, p in problems.items():
            print(n, p)
            failed += 1
        if failed:
            print("VIOLATION property=C16 replay=%s (%d of %d runs)" % (path, failed, len(scripts)))
            return 1
        print("the recorded scenario no longer fails (8 runs)")
        return 0
    print("replay names a broken obligation or a non-replayable case:", rp.get("what"))
    print(json.dumps(pl, indent=1)[:3000])
    return 1
