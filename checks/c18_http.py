"""C18, HTTP-server leg: no goroutine created by the HTTP runner on its own behalf outlives Run(); reloads,
restarts and failed boots do not accumulate goroutines.

Proof side: coq/props/C18.v, section "HTTP-server leg" (C18_http_clean, C18_http_no_blocked_leftover,
C18_http_bounded, C18_http_observable; proofs/HttpCensus.v over model/HttpServer.v) - checked by c18.py's proof_leg
since they live in props/C18.v.
Tie: in the reload histories of the HTTP harness (harness/cmd/http, family hist) the real census - goroutines whose
creator is (*Runner).boot, i.e. the serve goroutines, plus anything else created by runnables/httpserver,
internal/finitestate or supervisor/lifecycle (expected: none), read with runtime.Stack through
director.CreatedByLibrary - is recorded at every quiescent point and after Run() returned as an event `CN<k>` of the
trace; the extracted acceptor must find a model state compatible with the whole trace whose [census] is k
(label LObsCensus).  The predicates "0 after Run() returned" and "<= 1 while running" are also evaluated directly on
the observables, and where the census says the server is gone the port is probed (c12-released: net.Listen on every
address the runner used).  Script families: context cancelled before Run / inside Run's boot window / inside a
reload's boot window, Stop in the same windows, boot on a busy address, many restarts, restarts then a failed boot.

Called from checks/c18.py as  c18_http.leg(run)."""
from . import httplib as H

OCAML = H.OCAML
GO = H.GO
PROOFS = ["proofs/HttpCensus.v"] + H.PROTO_PROOFS + H.MODEL_FILES
THEOREMS = ["C18_http_clean", "C18_http_no_blocked_leftover", "C18_http_bounded", "C18_http_observable"]


def leg(run):
    cov = {"theorems": THEOREMS, "proof_files": PROOFS}
    run.coverage["http_leg"] = cov
    if not H.build(run):
        return
    res = H.run_hist(run, "C18")
    if res["rc"] != 0 or not res["model_ok"] or not res["hist_lines"]:
        run.violation("http:harness-failed", {"rc": res["rc"], "model_err": res["model_err"], "tail": res["lines"][-20:]},
                      "C18 http leg: history harness or model driver failed to run", True)
        return
    n_all = len(res["hist_lines"]) + len(res["env_noise"])
    if len(res["env_noise"]) > max(3, n_all // 25):
        run.violation("http:harness-noisy", {"env_noise": res["env_noise"][:10]},
                      "C18 http leg: %d of %d histories were disturbed by foreign port use" % (len(res["env_noise"]), n_all), True)
    failing = set()
    for p in res["props"]:
        if p["ok"]:
            continue
        sc = res["scripts"].get(p["script"], {}).get("script", {"name": p["script"]})
        payload = {"script": sc, "verdict": p, "trace": H.trace_of(res, p["script"]), "how": H.REPLAY_HOW}
        if p["prop"] == "c18-clean":
            failing.add(p["script"])
            run.violation("http:leak-after-run:" + H.script_shape(sc), payload,
                          "history %s: goroutines created by the HTTP runner are still alive at quiescence after Run() returned: %s"
                          % (p["script"], p["text"]))
        elif p["prop"] == "c18-bounded":
            failing.add(p["script"])
            run.violation("http:excess-goroutines:" + H.script_shape(sc), payload,
                          "history %s: more than one serve goroutine at a quiescent point - they accumulate: %s" % (p["script"], p["text"]))
        elif p["prop"] == "c12-released" and "transient=false" in p["text"]:
            failing.add(p["script"])
            run.violation("http:port-held-after-run:" + H.script_shape(sc), payload,
                          "history %s: the listen address is still bound after Run() returned (a server of this runner is "
                          "still inside ListenAndServe): %s" % (p["script"], p["text"]))
    for l in res["hung"]:
        t = l.split("\t")
        sc = res["scripts"].get(t[1], {}).get("script", {"name": t[1]})
        run.violation("http:hang:" + H.script_shape(sc), {"script": sc, "census": t[2:], "how": H.REPLAY_HOW},
                      "history %s: Run/Stop/Reload did not all return (goroutines: %s)" % (t[1], " ".join(t[2:])))
    for l in res["mismatches"]:
        t = l.split()
        name = t[2]
        if name in failing:
            continue
        sc = res["scripts"].get(name, {}).get("script", {"name": name})
        at_census = any(x.startswith("next=CN") for x in t)
        run.violation(("http:corr-census:" if at_census else "http:corr-rejected:") + H.script_shape(sc),
                      {"script": sc, "driver_line": l, "trace": H.trace_of(res, name), "how": H.REPLAY_HOW,
                       "theorem": "correspondence: real census = census of a model state compatible with the trace"
                                  if at_census else "correspondence B (trace acceptance) for the HTTP runner"},
                      "history %s: %s at %s" % (name, "the real goroutine census differs from every compatible model state"
                                               if at_census else "the HTTP runner model cannot produce the observed trace",
                                               " ".join(t[3:])), True)
    n_obs = sum(int(v["stats"].split("census_obs=")[1].split()[0]) for v in res["scripts"].values() if "census_obs=" in v["stats"])
    c18 = [p for p in res["props"] if p["prop"].startswith("c18-")]
    cov.update({
        "scenarios": len(res["scripts"]), "census_observations": n_obs,
        "census_verdicts": {"after_run_returned": sum(1 for p in c18 if p["prop"] == "c18-clean"),
                            "while_running": sum(1 for p in c18 if p["prop"] == "c18-bounded"),
                            "failed": sum(1 for p in c18 if not p["ok"])},
        "ports_probed_after_run": sum(1 for p in res["props"] if p["prop"] == "c12-released"),
        "traces_accepted": res["stats"].get("hist_acc", 0), "traces_rejected": len(res["mismatches"]),
        "acceptor_inconclusive": res["stats"].get("hist_inconclusive", 0),
        "distinct_script_shapes": len(set(H.script_shape(v["script"]) for v in res["scripts"].values())),
        "histories_discarded_port_taken_by_another_process": len(res["env_noise"]),
        "rule": "real census = goroutines created by (*Runner).boot (serve goroutines) / by anything else in runnables/httpserver, "
                "internal/finitestate, supervisor/lifecycle, read from runtime.Stack at every quiescent snapshot and after Run() "
                "returned; it is an event of the trace (CN<k>) that the extracted acceptor must match with the census of a compatible "
                "model state; directly: 0 after Run() returned, <= 1 while running, port released after Run() returned",
        "samples": [{"script": v["script"], "stats": v["stats"]} for v in list(res["scripts"].values())[:3]],
    })
    run.assumptions.append("http leg: net/http's own goroutines (connection handlers, created by net/http.(*Server).Serve) are not the "
                           "library's; the finitestate broadcast forwarders (GetStateChan subscribers) are outside the model and the "
                           "scenarios do not subscribe; the theorems assume no foreign binder (a boot on a busy address is covered by "
                           "the census comparison only)")


def replay(path):
    return H.replay_hist(path, "C18", ["c18-", "c12-released"])
