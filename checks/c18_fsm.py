"""C18, internal/finitestate leg - after a state subscription's context is cancelled no goroutine
started on its behalf remains (forwarder of finitestate.GetStateChan, go-fsm's cleanup goroutine,
broadcast senders), whatever the consumer does; subscribe / cancel cycles do not accumulate goroutines.

Proof: props/C18.v (C18_fsm_*) over model/Fsm.v (the machine, the broadcast manager and the forwarder;
Fsm.step = the repaired forwarder, stepx false = the unchanged one, refuted) and model/FsmGo.v (census,
quiescence, wrapper LTS), proofs/FsmCensus.v.
Tie: harness cmd/c18fsm.
 * scripted scenarios: a sequential director drives one finitestate.Machine (subscribe, machine calls in
   bursts, director-controlled consumers: absent / read k then stop / slow / draining, cancel); after every
   action it waits for quiescence and logs the goroutine dump (runtime.Stack classified by the functions on
   each stack) as a G: token; the extracted acceptor (ocaml/c18fsm.ml, LTS.accept_from over FsmGo.gstep)
   accepts a G: token only in a stable model state whose census has exactly those numbers;
 * independently of the model the property's predicates are evaluated on the implementation's observables
   (forwarders / cleanups beyond the open subscriptions at a quiescent instant = leak);
 * soak: real concurrency (12 subscriber workers with the four consumer behaviours, one goroutine walking the
   lifecycle); at every checkpoint everything is cancelled and the dump must be empty."""
import concurrent.futures as cf
import hashlib
import os
import subprocess
import tempfile
import time
from . import common as C

OCAML = ["c18fsm"]
GO = ["c18fsm"]
FILES = ["model/Fsm.v", "model/FsmGo.v", "proofs/FsmBase.v", "proofs/FsmStream.v", "proofs/FsmCensus.v"]
CORPUS = os.path.join(C.VERIF, "corpus", "C18", "fsm.txt")
LEAK_KEY = "fsm:forwarder-leak:cancel-with-value-in-flight"


def h8(s):
    return hashlib.sha1(s.encode()).hexdigest()[:8]


def run_batch(args, timeout):
    rc, out = C.sh([os.path.join(C.BIN, "c18fsm"), "-mode", "batch"] + args, timeout=timeout)
    scripts, traces, problems, unknown = {}, {}, {}, {}
    for l in out.splitlines():
        if l.startswith("SCRIPT "):
            _, name, sc = (l.split(" ", 2) + [""])[:3]
            scripts[name] = sc
        elif l.startswith("T "):
            t = l.split(" ")
            traces[t[1]] = t[2:]
        elif l.startswith("UNKNOWN "):
            _, name, rest = (l.split(" ", 2) + [""])[:3]
            unknown[name] = rest[:1500]
        elif l.startswith("CRASH "):
            _, name, rest = (l.split(" ", 2) + [""])[:3]
            problems[name] = rest[:1500]
    return scripts, traces, problems, unknown


def model_once(traces, fuel, shards):
    names = list(traces)
    shards = max(1, min(shards, len(names)))
    chunks = [names[i::shards] for i in range(shards)]

    def one(chunk):
        inp = "".join("T %s %s\n" % (n, " ".join(traces[n])) for n in chunk)
        p = subprocess.run([os.path.join(C.BIN, "c18fsm_model"), str(fuel)], input=inp.encode(),
                           stdout=subprocess.PIPE, timeout=3000)
        return p.returncode, p.stdout.decode()
    verdict, propfail, modelprop, summ, ok = {}, {}, {}, {}, True
    with cf.ThreadPoolExecutor(shards) as ex:
        for rc, out in ex.map(one, chunks):
            got = False
            for l in out.splitlines():
                t = l.split(" ")
                if t[0] in ("ACCEPT", "REJECT", "INCONCLUSIVE", "BADTRACE"):
                    verdict[t[1]] = (t[0], " ".join(t[2:]))
                elif t[0] == "PROPFAIL":
                    propfail.setdefault(t[1], []).append((t[2], " ".join(t[3:])))
                elif t[0] == "MODELPROP":
                    modelprop.setdefault(t[1], []).append(t[2])
                elif t[0] == "SUMMARY":
                    got = True
                    for kv in t[1:]:
                        k, v = kv.split("=")
                        summ[k] = (max if k == "maxset" else int.__add__)(summ.get(k, 0), int(v))
            ok = ok and rc == 0 and got
    return verdict, propfail, modelprop, summ, ok


def model(traces, shards=None):
    """The extracted acceptor + the predicates on the observables.  Two passes: little fuel first (an accepted
    trace needs few expansions per event; on a leaking tree the state sets explode and the verdict comes from
    the predicates anyway), then much more fuel for the traces that were inconclusive and show no predicate failure."""
    if not traces:
        return {}, {}, {}, {"n": 0}, True
    shards = shards or C.NPROC
    verdict, propfail, modelprop, summ, ok = model_once(traces, 2500, shards)
    again = {n: traces[n] for n, (v, _) in verdict.items() if v == "INCONCLUSIVE" and n not in propfail}
    if again and ok:
        v2, pf2, mp2, s2, ok2 = model_once(again, 150000, shards)
        verdict.update(v2)
        modelprop.update(mp2)
        for k in ("accepted", "rejected", "quiet_final_states", "modelprop"):
            summ[k] = summ.get(k, 0) + s2.get(k, 0)
        summ["inconclusive"] = summ.get("inconclusive", 0) - len(again) + s2.get("inconclusive", 0)
        summ["second_pass"] = summ.get("second_pass", 0) + len(again)
        ok = ok and ok2
    return verdict, propfail, modelprop, summ, ok


PRED_TEXT = {
    "forwarder-leak": "forwarder goroutine(s) of cancelled subscriptions are still alive at a quiescent instant "
                      "(finitestate getStateChanInternal.func1 blocked in `wrappedCh <- state`): ",
    "cleanup-leak": "cleanup goroutine(s) of cancelled subscriptions are still alive at a quiescent instant: ",
    "sender-leak": "broadcast sender goroutine(s) alive while no machine call is in flight: ",
    "forwarder-missing": "fewer forwarders than open subscriptions (a forwarder ended before its context did): ",
    "cleanup-missing": "fewer cleanup goroutines than open subscriptions: ",
    "unknown-goroutine": "a goroutine of the library / go-fsm that the model does not account for is alive: ",
}


def key_of(pred):
    return LEAK_KEY if pred == "forwarder-leak" else "fsm:" + pred


def report(run, stats, key, payload, text, nif=False):
    seen = stats.setdefault("reported", {})
    seen[key] = seen.get(key, 0) + 1
    if seen[key] <= 3:  # the same shape is recorded at most three times per run
        run.violation(key, payload, text, nif)


def one_leg(run, args, stats, samples, timeout=1500, pre=None):
    """one batch of scenarios: harness (unless its output [pre] is given), model driver, classification."""
    scripts, traces, problems, unknown = pre if pre is not None else run_batch(args, timeout)
    verdict, propfail, modelprop, summ, ok = model(traces)
    if not ok:
        report(run, stats, "fsm:harness-failed", {"args": args}, "C18 finitestate census driver failed to run", True)
        return
    rejected = [n for n, (v, _) in verdict.items() if v in ("REJECT", "BADTRACE") and n not in propfail]
    confirmed = {}
    for n in rejected[:12]:
        again = 0
        for _ in range(2):
            with tempfile.NamedTemporaryFile("w", suffix=".txt", delete=False) as f:
                f.write(scripts[n] + "\n")
            s2, t2, p2, _ = run_batch(["-file", f.name, "-jobs", "1"], 120)
            os.unlink(f.name)
            v2, pf2, _, _, _ = model(t2)
            if any(v[0] in ("REJECT", "BADTRACE") for v in v2.values()) or p2 or pf2:
                again += 1
        confirmed[n] = again
    for k in ("accepted", "rejected", "inconclusive", "events", "snaps", "quiet_snaps", "subscriptions",
              "quiet_final_states", "modelprop", "second_pass"):
        stats[k] = stats.get(k, 0) + int(summ.get(k, 0))
    stats["scenarios"] = stats.get("scenarios", 0) + len(scripts)
    ops = stats.setdefault("op_distribution", {})
    for k, v in summ.items():
        if k.startswith("ev_"):
            ops[k[3:]] = ops.get(k[3:], 0) + int(v)
    stats.setdefault("distinct", set())
    for name, sc in scripts.items():
        if name in problems:
            report(run, stats, "fsm:scenario-crashed:" + h8(sc), {"kind": "c18-fsm", "script": sc, "detail": problems[name]},
                   "scenario crashed or hung (60 s): " + problems[name][:200])
        if name not in traces:
            continue
        toks = traces[name]
        stats["distinct"].add(" ".join(toks))
        if "STUCK" in toks:
            report(run, stats, "fsm:machine-call-stuck", {"kind": "c18-fsm", "script": sc, "trace": " ".join(toks)},
                   "a machine call did not return within 7 s (the broadcast timeout is 5 s)")
        v, info = verdict.get(name, ("MISSING", ""))
        payload = {"kind": "c18-fsm", "script": sc, "trace": " ".join(toks), "acceptor": v + " " + info,
                   "how": "build/bin/c18fsm -mode script -script '<script>' | sed 's/^T @/T x/' | build/bin/c18fsm_model"}
        if name in unknown:
            payload["unknown_goroutines"] = unknown[name]
        pf = propfail.get(name)
        if pf:
            pred, detail = pf[0]
            payload["property_failures"] = ["%s %s" % x for x in pf[:20]]
            report(run, stats, key_of(pred), payload,
                   "finitestate: " + PRED_TEXT.get(pred, pred + ": ") + detail + (" [" + unknown[name] + "]" if name in unknown else ""))
        elif name in modelprop:
            report(run, stats, "fsm:theorem-instance:" + modelprop[name][0], dict(payload, theorem="C18_fsm_okb"),
                   "an accepted quiescent model state contradicts the proved C18_fsm_okb (extraction / driver fault)", True)
        elif v in ("REJECT", "BADTRACE", "MISSING"):
            if confirmed.get(name, 2) >= 1:
                report(run, stats, "fsm:corr:" + h8(sc),
                       dict(payload, theorem="correspondence B (FsmGo census acceptor)", reruns_rejected=confirmed.get(name)),
                       "finitestate produced a trace / goroutine census the model cannot produce (%s)" % info, True)
            else:
                stats["flaky_rejects"] = stats.get("flaky_rejects", 0) + 1
        if len(samples) < 3 and v == "ACCEPT":
            samples.append({"script": sc, "trace": " ".join(toks)[:1500]})


def soak(run, stats, ms, seed):
    rc, out = C.sh([os.path.join(C.BIN, "c18fsm"), "-mode", "soak", "-ms", str(ms), "-seed", str(seed)], timeout=600)
    how = "build/bin/c18fsm -mode soak -ms %d -seed %d" % (ms, seed)
    summ = {}
    for l in out.splitlines():
        if l.startswith("SOAK "):
            summ = dict(kv.split("=") for kv in l.split()[1:])
        elif l.startswith("LEAK "):
            tok = [t for t in l.split() if t.startswith("G:")][0]
            f, c, s, u = [int(x) for x in tok[2:].split(",")]
            payload = {"kind": "c18-fsm-soak", "how": how, "line": l[:1200], "ms": ms, "seed": seed}
            if f and not (c or s or u):
                report(run, stats, LEAK_KEY, payload,
                       "finitestate (soak): with every subscription cancelled and the process quiescent, %d forwarder "
                       "goroutine(s) remain (%s)" % (f, l.split(" G:")[0]))
            else:
                report(run, stats, "fsm:soak-leak:%s" % "+".join(n for n, v in (("fwd", f), ("cln", c), ("snd", s), ("unk", u)) if v),
                       payload, "finitestate (soak): goroutines remain with every subscription cancelled: " + l[:300])
        elif l.startswith("NOTCLOSED"):
            report(run, stats, "fsm:not-closed-after-cancel", {"kind": "c18-fsm-soak", "how": how, "line": l},
                   "finitestate (soak): a draining consumer did not see its channel closed within 8 s of the cancel")
    if not summ:
        report(run, stats, "fsm:harness-failed", {"how": how, "out": out[-1500:]}, "the soak run failed", True)
    so = stats.setdefault("soak", {})
    for k, v in summ.items():
        so[k] = so.get(k, 0) + int(v)


def proofs_ok(run):
    ok, log, failed = C.coq_build()
    missing = [f for f in FILES + ["props/C18.v"] if not os.path.exists(os.path.join(C.COQ, f + "o"))]
    bad = sorted(set([f for f in failed if f in FILES or f == "props/C18.v"] + missing))
    if bad:
        run.violation("fsm:proof-broken:" + ",".join(bad), {"failed_files": bad, "log_tail": log[-2000:]},
                      "Coq build failed: the C18 finitestate theorems are no longer checked (%s)" % ", ".join(bad), True)
        return False
    return True


def builds_ok(run):
    okb, log = C.go_build(GO)
    if not okb:
        run.violation("fsm:build-go", {"log": log[-3000:]}, "harness does not build against the repository", True)
        return False
    oko, log = C.ocaml_build(OCAML)
    if not oko:
        run.violation("fsm:build-ocaml", {"log": log[-3000:]}, "census model driver does not build", True)
        return False
    return True


def leg(run):
    t0 = time.time()
    cov = run.coverage.setdefault("fsm_leg", {})
    if not proofs_ok(run) or not builds_ok(run):
        return
    st, qed = C.count_obligations(["model/FsmGo.v", "proofs/FsmCensus.v"])
    cov["proof_files"] = FILES
    cov["lemmas"] = st
    quick = run.tier == "quick"
    stats, samples = {}, []
    if os.path.exists(CORPUS):
        one_leg(run, ["-file", CORPUS, "-jobs", "4"], stats, samples)
    plan = ([("cycles", 64, 8), ("burst", 24, 4), ("timeout", 6, 3), ("cycleslong", 2, 2)] if quick else
            [("cycles", 1200, 6), ("burst", 600, 4), ("timeout", 48, 3), ("cycleslong", 48, 3)])
    jobs = []
    for k, (fam, n, j) in enumerate(plan):
        n = run.scaled(n) if quick else n       # anchor drift: escalated budget
        done = 0
        while done < n:
            m = min(300, n - done)
            jobs.append(["-family", fam, "-n", str(m), "-seed", str(run.seed * 1000 + 17 * k + done // 300), "-jobs", str(j)])
            done += m
    if quick:
        with cf.ThreadPoolExecutor(max_workers=len(jobs) + 1) as ex:
            fs = [ex.submit(run_batch, a, 3000) for a in jobs]
            for a, f in zip(jobs, fs):
                one_leg(run, a, stats, samples, pre=f.result())
        soak(run, stats, 2000, run.seed)  # alone: under CPU load its timing assumptions cost 5 s stalls
    else:
        with cf.ThreadPoolExecutor(max_workers=2) as ex:   # two batches at a time (16 child processes)
            fs = [ex.submit(run_batch, a, 3000) for a in jobs]
            for a, f in zip(jobs, fs):
                one_leg(run, a, stats, samples, pre=f.result())
        for i in range(4):
            soak(run, stats, 6000, run.seed * 10 + i)
    distinct = len(stats.pop("distinct", set()))
    if stats.get("reported"):
        cov["violations_by_shape"] = stats["reported"]
    cov.update({
        "scenarios": stats.get("scenarios", 0),
        "distinct_traces": distinct,
        "traces_accepted": stats.get("accepted", 0),
        "snapshots_compared": stats.get("snaps", 0),
        "snapshots_after_settle": stats.get("quiet_snaps", 0),
        "subscriptions_made": stats.get("subscriptions", 0),
        "events": stats.get("events", 0),
        "op_distribution": stats.get("op_distribution", {}),
        "inconclusive": stats.get("inconclusive", 0),
        "acceptor_second_pass": stats.get("second_pass", 0),
        "flaky_rejects": stats.get("flaky_rejects", 0),
        "soak": stats.get("soak", {}),
        "families": {f: n for f, n, _ in plan},
        "samples": samples,
        "rule": "scenario = PRNG script for a sequential director on one finitestate.Machine (subscribe / cancel cycles, "
                "1-4 subscriptions open at a time, consumers absent / reading k values then stopping / slow / draining, "
                "bursts of legal, refused and SetState calls; family timeout lets one broadcast run into its 5 s timer and "
                "cancels the blocking subscribers meanwhile; cycleslong = 40-80 cycles), one child process each; snapshot = "
                "G: token after every action; soak = 12 concurrent subscriber workers, checkpoints with everything cancelled",
        "wall_s": round(time.time() - t0, 1),
    })
    run.assumptions += [
        "fsm leg: goroutines are classified by function names on their stacks (finitestate getStateChanInternal.func1, "
        "go-fsm broadcast (*Manager).GetStateChan.func1 and Broadcast.func*); any other goroutine with a frame of the "
        "module or of go-fsm that was not started by the harness is reported as unknown",
        "fsm leg: a state with a broadcast sender waiting for its 5 s timer counts as quiescent for the goroutine dump "
        "(stableb); the theorems are about states in which that timer has fired too (quietb)",
    ]


def replay_payload(pl, path):
    run = C.Run("C18", "replay", 1)
    if not builds_ok(run):
        print("cannot build the harness:", [v[3] for v in run.violations])
        return 1
    if pl.get("kind") == "c18-fsm-soak":
        stats = {}
        for i in range(2):
            soak(run, stats, int(pl.get("ms", 2500)), int(pl.get("seed", 1)))
        for v in run.violations:
            print(v[0], v[3])
        print("soak:", stats.get("soak"))
        if run.violations:
            print("VIOLATION property=C18 replay=%s" % path)
            return 1
        print("the soak run no longer leaks (2 runs)")
        return 0
    with tempfile.NamedTemporaryFile("w", suffix=".txt", delete=False) as f:
        f.write((pl["script"] + "\n") * 5)
    scripts, traces, problems, unknown = run_batch(["-file", f.name, "-jobs", "2"], 300)
    os.unlink(f.name)
    verdict, propfail, modelprop, summ, ok = model(traces)
    failed = 0
    for n, toks in sorted(traces.items()):
        v = verdict.get(n, ("MISSING", ""))
        pf = propfail.get(n, [])
        print(n, v[0], v[1], "|", "; ".join("%s %s" % x for x in pf[:3]) or "property holds on this trace")
        if pf or v[0] != "ACCEPT":
            failed += 1
            print("   trace:", " ".join(toks))
    for n, p in problems.items():
        print(n, p)
        failed += 1
    if failed:
        print("VIOLATION property=C18 replay=%s (%d of %d runs)" % (path, failed, len(scripts)))
        return 1
    print("the recorded scenario no longer fails (5 runs)")
    return 0
