"""C18, finitestate leg (stub, being written)."""
OCAML = []
GO = []


def leg(run):
    pass


def replay_payload(pl, path):
    return 1
