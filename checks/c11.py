"""C11 — composite: Reload applies the newest config, in place or by full restart.  Proof: props/C11.v.
Tie: check A (hasMembershipChanged observed through Reload, all pairs of entry lists over 4 names up to
length 4 incl. duplicates) + check B (reload histories, callback failures, concurrent callers)."""
from . import common as C
from . import compositelib as L

OCAML = ["composite"]
GO = ["composite"]
PROP = "props/C11.v"
PROOFS = ["proofs/CompositeProto.v", "proofs/CompositeC09.v", "proofs/CompositeProgress.v", "proofs/CompositeMeasure.v",
          "proofs/CompositeTrace.v", "proofs/CompositeLink2.v"] + L.PROOFS_COMMON


def run(run):
    C.proof_leg(run, PROP, PROOFS, trusted_extra=L.TRUSTED)
    if not L.build(run):
        return
    quick = run.tier == "quick"
    fams = [("corpus:corpus/C11/duplicate-entry-names.jsonl", 0, 0), ("corpus:corpus/C11/membership-multiset.jsonl", 0, 0), ("c11", 1500 if quick else 20000, run.seed),
            ("c11dup", 12 if quick else 60, run.seed + 1),
            ("c10", 200 if quick else 2000, run.seed + 2)]
    results, cover, summary, scripts, traces = L.run_families(run, fams)
    cnt = L.classify(run, "C11", results, scripts, traces)
    sa, mism = L.check_a(run, ["-mode", "membership", "-len", 4], vm_stride=400)
    L.vm_membership(run)
    for line in mism[:50]:
        run.violation("corr-membership:" + "/".join(t.split("=")[1] for t in line.split()[2:4]),
                      {"driver_line": line,
                       "theorem": "correspondence A (membership_changed vs hasMembershipChanged observed through Reload)"},
                      "hasMembershipChanged as observed through Reload disagrees with the model: " + line, True)
    L.fill_coverage(run, results, cover, summary, scripts, cnt, extra_eval=sa.get("membership", 0),
                    rule="distinct = distinct (pool, initial config, director script) among accepted traces; families: c11 (1-4 reload "
                         "steps: same set permuted / identical / grow / shrink / empty / arbitrary subset, random per-entry config values, "
                         "callback nil/error at any position, 2-3 concurrent Reload callers), c11dup (duplicate entry names), c10; check A: "
                         "every ordered pair of entry lists over 4 names up to length 4 (341 x 341 minus the empty pair), restart vs "
                         "in-place observed through Reload",
                    extra={"membership_pairs_checked": sa.get("membership", 0),
                           "membership_pairs_changed": sa.get("membership_changed", 0),
                           "membership_pairs_where_code_differs_from_set_equality": sa.get("membership_setdiff", 0),
                           "check_a_mismatches": len(mism)})
    run.assumptions += ["names of distinct runnables are distinct (String() is the code's identity) and entry lists are "
                        "duplicate-free, for the theorems that say so",
                        "children are environment constrained by the contract of coq/model/Composite.v"]


def replay(path):
    return L.replay("C11", path)
