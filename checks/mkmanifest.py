#!/usr/bin/env python3
"""Regenerates MANIFEST.json from checks/claims.json (kept by hand) so that it is always valid."""
import json
import os

V = os.path.dirname(os.path.dirname(os.path.abspath(__file__)))
claims = {}
for f in sorted(os.listdir(os.path.join(V, "checks", "claims"))):
    if f.endswith(".json"):
        d = json.load(open(os.path.join(V, "checks", "claims", f)))
        if f.startswith("_"):
            claims.update(d)
        else:
            claims[f[:-5]] = d
props = [json.loads(l) for l in open(os.path.join(V, "properties.jsonl"))]
base = json.load(open("/root/.vp/BASELINE.json")) if os.path.exists("/root/.vp/BASELINE.json") else {"cmd": "go test ./..."}
checks, na = [], []
for p in props:
    pid = p["id"]
    c = claims.get(pid)
    if not c or c.get("not_applicable"):
        na.append({"property_id": pid, "reason": (c or {}).get("not_applicable", "check not built yet (work in progress)")})
        continue
    checks.append({
        "property_id": pid,
        "quick_cmd": "./check %s quick" % pid,
        "thorough_cmd": "./check %s thorough" % pid,
        "evidence_file": "/verif/evidence/%s.json" % pid,
        "replay_cmd_template": "./check %s --replay {path}" % pid,
        "engine": "coq-proof+correspondence",
        "level_claimed": {"category": "proof", "text": c["text"], "design_ref": c.get("design_ref", "DESIGN.md section 6")},
        "level_note": c["note"],
        "technique": c["technique"],
    })
m = {
    "version": 1,
    "setup_cmd": "./check setup",
    "hooks": {
        "guard": "verif",
        "enable": "go build -tags verif (the harness in /verif/harness is built with -tags verif against /repo)",
        "baseline_off_cmd": base["cmd"],
        "source_commits": claims.get("_hook_commits", []),
        "add_only": True,
    },
    "engines": [{
        "name": "coq-proof+correspondence",
        "path": "/verif/check",
        "serves_properties": [c["property_id"] for c in checks],
        "kind_free_text": "Coq 8.16.1 theorems over hand-written executable models (coq/), tied to /repo on every run by "
                          "differential / trace-acceptance correspondence checks (Go harness + extracted OCaml model drivers)",
    }],
    "checks": checks,
    "not_applicable": na,
    "notes": "See DESIGN.md. Fix commits in /repo: " + ", ".join(claims.get("_fix_commits", [])),
}
json.dump(m, open(os.path.join(V, "MANIFEST.json"), "w"), indent=1)
print("MANIFEST.json: %d checks, %d not_applicable" % (len(checks), len(na)))
