"""C08 — bundled runnables: valid ordered state stream agreeing with Run()'s result.
Proof: props/C08.v over model/Fsm.v + model/FsmRunners.v + gen/FsmTable.v (regenerated on every run
from the go-fsm linked into the repository).  Tie: check B — the real finitestate.Machine and the
three real runners are driven through PRNG histories; the extracted model accepts/rejects each trace
and evaluates the property's predicates on the implementation's observables."""
import concurrent.futures as cf
import json
import os
import re
import subprocess
import tempfile
from . import common as C

OCAML = ["fsm"]
GO = ["fsm", "fsmtable"]
PROP = "props/C08.v"
PROOFS = ["proofs/FsmBase.v", "proofs/FsmGraph.v", "proofs/FsmStream.v", "proofs/FsmResult.v", "proofs/FsmWalk.v",
          "proofs/FsmMain.v", "proofs/FsmExtra.v", "proofs/FsmCandidate.v", "model/Fsm.v", "model/FsmRunners.v", "gen/FsmTable.v", "lib/LTS.v"]
GEN = os.path.join(C.COQ, "gen", "FsmTable.v")
ST = ["New", "Booting", "Running", "Reloading", "Stopping", "Stopped", "Error", "Unknown"]
# harness mode (first component of a case id) -> the runner it drives (used in violation keys)
RUNNER = {"compfail": "composite", "slowsub": "raw"}


def runner_of(cid):
    m = cid.split(":")[0]
    return RUNNER.get(m, m)


def regen_table(run):
    """The translator step: dump the transition table the linked go-fsm really has."""
    tmp = C.gen_tmp("FsmTable.v")
    rc, out = C.sh([os.path.join(C.BIN, "fsmtable"), "-o", tmp], timeout=120)
    if rc != 0 or not os.path.exists(tmp):
        if run is not None:
            run.violation("fsmtable-failed", {"out": out[-2000:]}, "the FSM table dumper failed", True)
        return False
    C.install_gen("FsmTable.v", tmp)         # atomically, only if changed; put back after a run on a scratch tree
    return True


def failing_lemmas(log):
    """Map 'File "./proofs/X.v", line N' in a failed build to the enclosing lemma names."""
    names = []
    for m in re.finditer(r'File "\./([\w/]+\.v)", line (\d+), characters [\d-]+:\nError', log):
        f, line = m.group(1), int(m.group(2))
        p = os.path.join(C.COQ, f)
        if not os.path.exists(p):
            continue
        src = open(p).read().splitlines()[:line]
        for l in reversed(src):
            mm = re.match(r"\s*(?:Lemma|Theorem|Example|Corollary|Definition|Fact)\s+(\w+)", l)
            if mm:
                names.append("%s:%s" % (f, mm.group(1)))
                break
    return sorted(set(names))


BATCH_TIMEOUT = [100]


def run_batch(mode, n, seed, shard, extra=()):
    """Run the harness for one shard, feed its output to the model driver.
    Returns (harness_lines_by_id, mismatches, summary_dict, ok)."""
    args = [os.path.join(C.BIN, "fsm"), "-mode", mode, "-n", str(n), "-seed", str(seed), "-shard", str(shard)] + list(extra)
    try:
        g = subprocess.run(args, stdout=subprocess.PIPE, stderr=subprocess.PIPE, timeout=BATCH_TIMEOUT[0])
    except subprocess.TimeoutExpired:
        return {}, [], {}, "harness timeout after %d s (a call into the library never returned?): %s" % (BATCH_TIMEOUT[0], " ".join(args))
    if g.returncode != 0:
        return {}, [], {}, "harness failed (%d): %s\n%s" % (g.returncode, " ".join(args), g.stderr.decode()[-1500:])
    m = subprocess.run([os.path.join(C.BIN, "fsm_model")], input=g.stdout, stdout=subprocess.PIPE, stderr=subprocess.PIPE)
    out = m.stdout.decode()
    if m.returncode != 0 or "SUMMARY" not in out:
        return {}, [], {}, "model driver failed: %s" % (out[-1000:] + m.stderr.decode()[-500:])
    lines = {}
    for l in g.stdout.decode().splitlines():
        t = l.split("\t")
        if t[0] == "RAW":
            lines[t[1]] = l
        elif t[0] == "RUN":
            lines[t[2]] = l
        elif t[0] == "STORM":
            lines["storm"] = l
    mism, summ = [], {}
    for l in out.splitlines():
        if l.startswith("MISMATCH"):
            mism.append(l)
        elif l.startswith("SUMMARY"):
            for kv in l.split()[1:]:
                k, v = kv.split("=")
                summ[k] = int(v)
        elif l.startswith("STORM"):
            for kv in l.split()[1:]:
                if "=" in kv:
                    k, v = kv.split("=")
                    summ["storm_" + k] = int(v)
    return lines, mism, summ, None


def reload_racing_return(events):
    """Shape of the recorded finding: Run performed its Stopped transition, and a Reload() called before
    Run returned then forced Error (the reference history ends ... Stopped, Error[, Error...])."""
    calls_before_ret = False
    for e in events:
        if e == "1,7":
            calls_before_ret = True
        elif e.startswith("1,2,"):
            break
    hist = [e for e in events if e.startswith("0,4,0,")]
    if "0,4,0,5" not in hist:
        return False
    k = len(hist) - 1 - hist[::-1].index("0,4,0,5")
    tail = hist[k + 1:]
    return calls_before_ret and len(tail) >= 1 and all(t == "0,4,0,6" for t in tail)


def case_args(cid):
    mode, seed, shard, k = cid.split(":")
    return ["-mode", mode, "-seed", seed, "-shard", shard, "-n", str(int(k) + 1), "-only", k]


def rerun_case(cid, times=2):
    """Re-run one case; returns the mismatch lines of every re-run (scheduling may differ)."""
    res = []
    mode, seed, shard, k = cid.split(":")
    for _ in range(times):
        lines, mism, summ, err = run_batch(mode, int(k) + 1, int(seed), int(shard), ["-only", k])
        res.append((lines.get(cid, ""), [m for m in mism if m.split()[2] == cid], err))
    return res


def known_witness(run, key, payload, text):
    """A known finding prints KNOWN-FINDING instead of VIOLATION; keep its latest witness replayable:
    replays/C08-known-<key>.json  (./check C08 --replay <that file>)."""
    if key not in [f["key"] for f in run.findings]:
        return
    d = os.path.join(C.VERIF, "replays")
    os.makedirs(d, exist_ok=True)
    path = os.path.join(d, "C08-known-%s.json" % re.sub(r"[^\w.-]+", "_", key))
    with open(path, "w") as fh:
        json.dump({"property": "C08", "key": key, "what": text, "no_failing_input_found": False, "known_finding": True,
                   "seed": run.seed, "tier": run.tier, "replay": payload}, fh, indent=1)


def classify(run, line_of, mism, stats):
    """Turn driver MISMATCH lines into violations (DESIGN.md section 5)."""
    # every line is looked at; per (kind, shape) only the first few are turned into violations / re-runs,
    # so that thousands of instances of a known finding cannot crowd out a different disagreement
    seen_shape = {}
    todo = []
    for l in mism:
        t = l.split(" ", 3)
        shape = (t[1], runner_of(t[2]), (t[3].split()[0] if len(t) > 3 and t[1] in ("result", "accept", "walk") else ""))
        if t[1] == "result" and len(t) > 3:
            case = line_of.get(t[2], "")
            evs = case.split("\t")[3].split(" ") if case else []
            shape = shape + (reload_racing_return(evs),)
        if t[1] == "accept":
            m_at = re.search(r"at=(\S+)", l)
            shape = (t[1], runner_of(t[2]), m_at.group(1) if m_at else "")
        seen_shape[shape] = seen_shape.get(shape, 0) + 1
        if seen_shape[shape] <= 3:
            todo.append(l)
    stats["mismatch_shapes"] = len(seen_shape)
    for l in todo:
        t = l.split(" ", 3)
        kind, cid, detail = t[1], t[2], (t[3] if len(t) > 3 else "")
        case = line_of.get(cid, "")
        payload = {"case_id": cid, "case_line": case, "driver_line": l,
                   "how": "build/bin/fsm %s | build/bin/fsm_model" % (" ".join(case_args(cid)) if cid.count(":") == 3 else "-mode storm")}
        if kind == "result":
            shape = detail.split()[0]                      # runner:nil-with-6
            rn, rest = shape.split(":")
            res, stn = rest.split("-with-")
            key = "result:%s:%s-with-%s" % (rn, res, ST[int(stn)])
            evs = case.split("\t")[3].split(" ") if case else []
            if reload_racing_return(evs):
                key += ":reload-racing-return"
            text = "%s Run() returned %s but the state read at its return was %s" % (rn, res, ST[int(stn)])
            known_witness(run, key, payload, text)
            run.violation(key, payload, text)
        elif kind == "stream-stale":
            known_witness(run, "stream:stale-replay", payload, "stale replay: " + detail[:300])
            run.violation("stream:stale-replay", payload,
                          "a subscriber received the current state and then the older changes again (got/hist in the payload)")
        elif kind in ("stream-unexplained", "closed-without-cancel", "not-closed"):
            run.violation("stream:%s:%s" % (kind, runner_of(cid)), payload,
                          "a subscriber's stream is not s0 :: changes (kind %s): %s" % (kind, detail[:200]))
        elif kind == "walk":
            a, b = detail.split()[0].split("=")[1].split(">")
            run.violation("walk:%s:%s->%s" % (runner_of(cid), ST[int(a)], ST[int(b)]), payload,
                          "the observed state history is not a walk in the lifecycle graph: %s" % detail)
        elif kind == "isrunning":
            run.violation("isrunning:%s" % runner_of(cid), payload, "IsRunning() disagrees with GetState() == Running: %s" % detail)
        elif kind in ("raw-op", "raw-get"):
            run.violation("corr-machine:%s" % detail.split()[0], dict(payload, theorem="correspondence (Fsm.op_result vs finitestate.Machine)"),
                          "finitestate.Machine disagrees with the machine model on %s" % detail, True)
        elif kind == "hang":
            run.violation("hang:%s" % runner_of(cid), payload, "Run() did not return within the scenario's bound", True)
        elif kind == "accept":
            # the trace is outside the runner model: reproduce before alarming (a descheduled logger can reorder a log)
            again = rerun_case(cid, 2)
            rej = [a for a in again if any(" accept " in m for m in a[1])]
            other = [m for a in again for m in a[1] if " accept " not in m]
            if other:
                classify(run, {cid: again[0][0]}, other, stats)
            at = re.search(r"at=(\S+)", detail)
            if rej and at and at.group(1).startswith("0,7,"):
                run.violation("isrunning:%s" % runner_of(cid), dict(payload, reruns=[a[0] for a in again]),
                              "IsRunning() returned %s where no schedule of the model explaining the trace is in a state with that "
                              "answer (IsRunning <> (state = Running)): %s" % (at.group(1)[-1], detail))
            elif rej:
                run.violation("corr-accept:%s:%s" % (runner_of(cid), at.group(1) if at else "?"),
                              dict(payload, theorem="correspondence B: runner model (FsmRunners.v) does not accept the implementation's trace",
                                   reruns=[a[0] for a in again]),
                              "the %s runner produced a trace its model cannot produce (%s); no input found on which the property itself fails"
                              % (runner_of(cid), detail), True)
            else:
                stats["accept_unreproduced"] = stats.get("accept_unreproduced", 0) + 1
        else:
            run.violation("corr-" + kind, payload, "unclassified driver line: " + l[:200], True)


def run(run):
    okb, log = C.go_build(GO)
    if not okb:
        run.violation("build-go", {"log": log[-3000:]}, "harness does not build against /repo", True)
        return
    regen_table(run)                      # BEFORE the Coq build: the graph lemmas are re-checked against it
    okc, clog, failed = C.coq_build()
    if not okc:
        # only the files THIS property declares: another property's broken obligation (e.g. props/C07.v against a
        # RunnerShape.v regenerated from another tree) is that property's business, reported by its own check
        mine = set([PROP] + PROOFS)
        lem = [x for x in failing_lemmas(clog) if x.split(":")[0] in mine]
        if lem:
            run.violation("obligation:" + ",".join(lem), {"lemmas": lem, "log_tail": clog[-3000:], "table": open(GEN).read()},
                          "no longer checks against the regenerated FSM table: " + ", ".join(lem), True)
    C.proof_leg(run, PROP, PROOFS, trusted_extra=[
        "hand-written models of go-fsm's mutex/broadcast semantics, the finitestate forwarder and the three runners' "
        "sequences of machine calls (tied by the correspondence runs)",
        "FSM table dumper harness/cmd/fsmtable (translator); extraction via ExtrOcamlBasic; ocaml/fsm.ml + util.ml; Go harness cmd/fsm",
        "recorder order = a linearisation (director); polls are atomic w.r.t. the reference consumer's logging"])
    oko, log = C.ocaml_build(OCAML)
    if not oko:
        run.violation("build-ocaml", {"log": log[-3000:]}, "model driver does not build (model broken by the regenerated table?)", True)
        return
    quick = run.tier == "quick"
    BATCH_TIMEOUT[0] = 100 if quick else 1500
    shards = 4 if quick else max(4, C.NPROC // 2)
    plan = [("compfail", run.scaled(48) if quick else 1500), ("slowsub", 2 if quick else 12), ("slowlive", 2 if quick else 30),
            ("raw", run.scaled(500) if quick else 5000), ("composite", run.scaled(230) if quick else 3000),
            ("http", run.scaled(28) if quick else 450), ("cluster", run.scaled(14) if quick else 260)]   # scaled: anchor drift
    if quick and run.escalate > 1:
        BATCH_TIMEOUT[0] = 100 * run.escalate
    stats, line_of, mism, samples = {}, {}, [], []
    # corpus first: recorded interesting cases (re-generated from their ids; scheduling may differ)
    corpus = os.path.join(C.VERIF, "corpus", "C08", "cases.txt")
    if os.path.exists(corpus):
        ids = [l.strip() for l in open(corpus) if l.strip() and not l.startswith("#")]
        with cf.ThreadPoolExecutor(max_workers=shards) as ex:
            for cid, res in zip(ids, ex.map(lambda c: rerun_case(c, 1), ids)):
                line, mm, err = res[0]
                if err:
                    run.violation("harness-failed:corpus", {"err": err, "case_id": cid}, "corpus case failed to run", True)
                    continue
                line_of[cid] = line
                mism += mm
                stats["corpus"] = stats.get("corpus", 0) + 1
    for mode, n in plan:
        with cf.ThreadPoolExecutor(max_workers=shards) as ex:
            futs = [ex.submit(run_batch, mode, n, run.seed, s) for s in range(shards)]
            for f in futs:
                lines, mm, summ, err = f.result()
                if err:
                    run.violation("harness-failed:" + mode, {"err": err}, "C08 harness or model driver failed to run", True)
                    continue
                line_of.update(lines)
                mism += mm
                for k, v in summ.items():
                    stats[k] = stats.get(k, 0) + v
                if mode == "slowsub":
                    # the deliberate witness of what lies outside the hypothesis (consumer silent for longer than
                    # the forwarder's grace after the cancel): must be explained by Fsm.classify_slow, nothing else
                    stats["slow_witness"] = stats.get("slow_witness", 0) + summ.get("stream_slow_after_cancel", 0)
                    stats["slow_witness_cases"] = stats.get("slow_witness_cases", 0) + summ.get("raw", 0)
                if lines and len(samples) < 8:
                    samples.append(next(iter(lines.values()))[:600])
    # the recorded stream finding's witness shape, replayed on the implementation
    lines, mm, summ, err = run_batch("storm", 1, run.seed, 0, ["-ms", "2500" if quick else "10000"])
    if err:
        run.violation("harness-failed:storm", {"err": err}, "storm leg failed", True)
    else:
        line_of.update(lines)
        mism += mm
        for k, v in summ.items():
            stats[k] = stats.get(k, 0) + v
        if stats.get("storm_stale", 0) > 0:
            known_witness(run, "stream:stale-replay", {"case_id": "storm", "case_line": lines.get("storm", ""),
                                                       "how": "build/bin/fsm -mode storm | build/bin/fsm_model"}, "stale replay (storm leg)")
            run.violation("stream:stale-replay", {"case_id": "storm", "case_line": lines.get("storm", ""),
                                                  "how": "build/bin/fsm -mode storm | build/bin/fsm_model"},
                          "a subscriber received the current state and then the older changes again (storm leg)")
        else:
            run.notes.append("the stale-replay witness was not exhibited by this run's storm leg (timing dependent)")
    classify(run, line_of, mism, stats)
    slow_elsewhere = stats.get("stream_slow_after_cancel", 0) - stats.get("slow_witness", 0)
    if slow_elsewhere > 0:
        run.notes.append("%d subscriber stream(s) outside the deliberate slowsub witness were shortened after their cancel with the close seen "
                         ">= 100 ms (finitestate's forwardGrace) after it: the harness' consumer did not keep reading (machine load); "
                         "outside the property's hypothesis, classified by Fsm.classify_slow, counted, not a disagreement" % slow_elsewhere)
    cov = run.coverage
    cov.update({
        "evaluations": stats.get("raw", 0) + stats.get("run", 0) + stats.get("storm_subs", 0),
        "distinct_nontrivial": stats.get("distinct_traces", 0),
        "rule": "distinct = distinct observable event logs of runner cases (composite/httpserver/httpcluster) accepted or rejected by "
                "the runner model; every case is a PRNG history of Run/Stop/Reload/cancel/injected failures with subscribers created "
                "at random times; plus raw finitestate.Machine programs (random Transition/TransitionIfCurrentState/SetState) and a "
                "storm of concurrent subscriptions",
        "samples": samples,
        "traces_validated_against_impl": stats.get("accepted", 0) + stats.get("raw", 0),
        "counters": stats,
        "parks_matched": stats.get("note_park", 0) + stats.get("note_stop-during-reload", 0) + stats.get("note_late-reload", 0),
        "inconclusive": stats.get("inconclusive", 0),
        "mismatch_lines": len(mism),
    })
    run.assumptions += [
        "consumer speed below the 5 s broadcast timeout (LDrop is outside the hypothesis; C08_slow_may_drop shows what happens otherwise)",
        "the runner models over-approximate blocking (mutexes other than httpserver's r.mutex are not modelled)",
        "SetState(Unknown), the last resort of httpserver/httpcluster setStateError, is unreachable because Error is a defined state (graph lemma)"]


def replay(path):
    rp = json.load(open(path))
    payload = rp.get("replay", {})
    cid = payload.get("case_id")
    okb, log = C.go_build(GO)
    oko, log2 = C.ocaml_build(OCAML)
    if not (okb and oko):
        print(log, log2)
        return 1
    if not cid:
        print("replay names a broken obligation or correspondence, not an input:", rp.get("what"))
        regen_table(None)
        okc, clog, failed = C.coq_build()
        mine = set([PROP] + PROOFS)
        failed = [f for f in failed if f in mine]
        okc = okc or not failed
        print("coq build:", "ok" if okc else "FAILED %s %s" % (failed, [x for x in failing_lemmas(clog) if x.split(":")[0] in mine]))
        if not okc:
            print("VIOLATION property=C08 replay=%s no-failing-input-found" % path)
            return 1
        return 0
    want = rp.get("key", "")
    hit = False
    if cid == "storm" or want == "stream:stale-replay":
        # a stale replay needs two state changes inside one GetStateChan call: re-running a single recorded case
        # rarely reproduces the timing, the storm leg (the witness shape) does
        if cid != "storm":
            print("recorded case:", payload.get("case_line", "")[:400])
        lines, mm, summ, err = run_batch("storm", 1, 1, 0, ["-ms", "4000"])
        print(lines.get("storm", ""), summ)
        hit = summ.get("storm_stale", 0) > 0 or bool(mm)
    else:
        for line, mm, err in rerun_case(cid, 3):
            print(line)
            print("\n".join(mm) if mm else "(accepted, property predicates hold)")
            hit = hit or bool(mm)
    if hit:
        print("VIOLATION property=C08 replay=%s%s" % (path, " no-failing-input-found" if rp.get("no_failing_input_found") else ""))
        return 1
    print("not reproduced (key %s)" % want)
    return 0
