"""C03 — supervisor; see DESIGN.md section 6.  Proof: props/C03.v.  Tie: trace acceptance (check B)."""
from . import supcommon as S

OCAML = S.OCAML
GO = S.GO
FAMILIES = "startup,big,state,gatefail,gatecancel,gatetimed".split(",")
PROP = "props/C03.v"
PROOFS = ["proofs/SupInv.v", "proofs/SupTrig.v", "proofs/SupGate.v", "proofs/SupResult.v", "proofs/SupPending.v"]


def run(run):
    S.run_property(run, "C03", FAMILIES, PROP, PROOFS)


def replay(path):
    return S.replay("C03", path)
