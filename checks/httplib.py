"""Shared pieces of the HTTP-server-runner checks (C12, C13, C14, C19): builds, running one family of
harness/cmd/http, piping its lines through the extracted model driver ocaml/http.ml."""
import concurrent.futures as cf
import hashlib
import json
import os
import subprocess
import tempfile
from . import common as C

OCAML = ["http"]
GO = ["http"]
PROTO_PROOFS = ["proofs/HttpCfgProofs.v", "proofs/HttpInv.v", "proofs/HttpInvStep.v", "proofs/HttpInvStep2.v", "proofs/HttpProps.v"]
MODEL_FILES = ["model/HttpCfg.v", "model/HttpServer.v", "model/HttpDrain.v", "lib/LTS.v"]
HTTP = os.path.join(C.BIN, "http")
MODEL = os.path.join(C.BIN, "http_model")


def h8(s):
    return hashlib.sha1(s.encode()).hexdigest()[:8]


def unhex(h):
    try:
        return bytes.fromhex(h).decode("utf-8", "backslashreplace")
    except ValueError:
        return h


def build(run):
    okb, log = C.go_build(GO)
    if not okb:
        run.violation("build-go", {"log": log[-3000:]}, "harness does not build against the repository", True)
        return False
    oko, log = C.ocaml_build(OCAML)
    if not oko:
        run.violation("build-ocaml", {"log": log[-3000:]}, "model driver does not build", True)
        return False
    return True


def harness(args, timeout=1500):
    """Run one harness invocation; returns (rc, stdout lines)."""
    try:
        p = subprocess.run([HTTP] + args, stdout=subprocess.PIPE, stderr=subprocess.PIPE, timeout=timeout)
    except subprocess.TimeoutExpired as e:
        return 124, (e.stdout or b"").decode("utf-8", "replace").splitlines()
    return p.returncode, p.stdout.decode("utf-8", "replace").splitlines()


def model(lines):
    """Pipe harness lines through the extracted model; returns (mismatch lines, finding lines, acc lines, stats)."""
    p = subprocess.run([MODEL], input=("\n".join(lines) + "\n").encode(), stdout=subprocess.PIPE,
                       stderr=subprocess.PIPE)
    out = p.stdout.decode("utf-8", "replace").splitlines()
    mism = [l for l in out if l.startswith("MISMATCH")]
    find = [l for l in out if l.startswith("FINDING")]
    acc = [l for l in out if l.startswith("ACC")]
    stats = {}
    for l in out:
        if l.startswith("SUMMARY"):
            for kv in l.split()[1:]:
                k, v = kv.split("=")
                stats[k] = int(v)
    ok = p.returncode == 0 and "n" in stats
    return mism, find, acc, stats, ok, (p.stderr.decode("utf-8", "replace")[-1500:] if not ok else "")


def parallel(argsets, workers):
    """Run several harness invocations concurrently; returns the concatenated lines and the worst rc."""
    lines, rc = [], 0
    with cf.ThreadPoolExecutor(max_workers=workers) as ex:
        for r, ls in ex.map(harness, argsets):
            rc = max(rc, r)
            lines += ls
    return rc, lines


def add_stats(a, b):
    for k, v in b.items():
        a[k] = a.get(k, 0) + v


# ----------------------------------------------------------------------------- reload histories (C12, C13)

def hist_argsets(run):
    if run.tier == "quick":
        sets = [["-family", "hist", "-mode", "fixed", "-only", "/real"],
                ["-family", "hist", "-mode", "fixed", "-only", "/fake"]]
        sets += [["-family", "hist", "-mode", "random", "-n", "9", "-seed", str(run.seed * 100 + i)] for i in range(4)]
        return sets, 6
    sets = [["-family", "hist", "-mode", "fixed", "-only", "/real"], ["-family", "hist", "-mode", "fixed", "-only", "/fake"]]
    sets += [["-family", "hist", "-mode", "random", "-n", "100", "-seed", str(run.seed * 1000 + i)] for i in range(24)]
    return sets, min(10, C.NPROC)


def corpus_hist(pid):
    """Corpus scripts (JSON files) are run first."""
    d = os.path.join(C.VERIF, "corpus", pid)
    sets = []
    if os.path.isdir(d):
        for f in sorted(os.listdir(d)):
            if f.endswith(".json") and f.startswith("hist"):
                sets.append(["-family", "hist", "-case", os.path.join(d, f)])
    return sets


def corpus_traces(pid):
    """Recorded event logs of real runs that the model once rejected WRONGLY (model gaps, corrected): H lines in
    corpus/<pid>/trace-*.h.  They are fed to the acceptor with the live histories and must stay accepted; they are
    counted apart (a recorded log is not a trace validated against the implementation in this run)."""
    d = os.path.join(C.VERIF, "corpus", pid)
    out = []
    if os.path.isdir(d):
        for f in sorted(os.listdir(d)):
            if f.startswith("trace-") and f.endswith(".h"):
                out += [l.rstrip("\n") for l in open(os.path.join(d, f)) if l.startswith("H\t")]
    return out


def run_hist(run, pid):
    """Runs the history family and the acceptor.  Returns dict with everything the two checks need."""
    sets, workers = hist_argsets(run)
    sets = corpus_hist(pid) + sets
    rc, lines = parallel(sets, workers)
    res = {"lines": lines, "rc": rc}
    hl = [l for l in lines if l.startswith("H\t")]
    recorded = corpus_traces(pid)
    hl += recorded
    scripts = {}
    for l in lines:
        if l.startswith("HS\t"):
            t = l.split("\t")
            scripts[t[1]] = {"stats": t[2], "script": json.loads(t[3])}
    props = []
    for l in lines:
        if l.startswith("PROP\t"):
            t = l.split("\t")
            name, verdict, rest = (t[2].split(" ", 2) + [""])[:3]
            props.append({"script": t[1], "prop": name, "ok": verdict == "ok", "text": rest})
    mism, find, acc, stats, ok, err = model(hl)
    res.update({"hist_lines": hl, "scripts": scripts, "props": props, "mismatches": mism, "acc": acc,
                "stats": stats, "model_ok": ok, "model_err": err, "recorded_traces": len(recorded),
                "hung": [l for l in lines if l.startswith("HUNG\t") or l.startswith("HERR\t")],
                "env_noise": [l for l in lines if l.startswith("HENV\t")]})
    return res


def trace_of(res, name):
    for l in res["hist_lines"]:
        t = l.split("\t")
        if t[1] == name:
            return {"cfgs": t[2], "events": t[4]}
    return {}


def script_shape(sc):
    """A canonical, seed-independent description of a script (used in violation keys)."""
    out = []
    for s in sc.get("steps", []):
        x = s["op"]
        if s.get("cfg"):
            x += ":" + s["cfg"]
        if s.get("park"):
            x += "@" + s["park"].split()[0].lower().strip(".,")
        if s.get("during"):
            x += "+" + s["during"]
        out.append(x)
    init = ""
    if sc.get("init"):
        init = "[init " + " ".join("%s=%s" % (r["path"], r["name"]) for r in sc["init"]) + "]"
    return sc.get("kind", "?") + init + ":" + ",".join(out)


def report_hist_common(run, res, pid):
    """Violations every history-based check reports: harness failure, hangs, rejected traces."""
    if res["rc"] != 0 or not res["model_ok"] or not res["hist_lines"]:
        run.violation("harness-failed", {"rc": res["rc"], "model_err": res["model_err"], "tail": res["lines"][-20:]},
                      "%s: history harness or model driver failed to run" % pid, True)
    n_all = len(res["hist_lines"]) + len(res["env_noise"])
    if len(res["env_noise"]) > max(3, n_all // 25):
        # an environment condition, not a property verdict: the disturbed histories are simply not counted as
        # explored (they are listed in the evidence); nothing is alarmed
        run.coverage["environment_noise"] = {"histories_discarded": len(res["env_noise"]), "of": n_all,
                                             "examples": res["env_noise"][:5]}
        run.assumptions.append("%d of %d histories were discarded because another process used their ports" % (
            len(res["env_noise"]), n_all))
    for l in res["hung"]:
        t = l.split("\t")
        sc = res["scripts"].get(t[1], {}).get("script", {"name": t[1]})
        run.violation("hang:" + script_shape(sc), {"script": sc, "census": t[2:], "how": REPLAY_HOW},
                      "history %s: Run/Stop/Reload did not all return (goroutines: %s)" % (t[1], " ".join(t[2:])))
    failing_scripts = set(p["script"] for p in res["props"] if not p["ok"])
    for l in res["mismatches"]:
        t = l.split()
        name = t[2]
        sc = res["scripts"].get(name, {}).get("script", {"name": name})
        if name in failing_scripts:
            continue  # reported with the failing property itself
        run.violation("corr-hist:" + script_shape(sc),
                      {"script": sc, "driver_line": l, "trace": trace_of(res, name), "how": REPLAY_HOW,
                       "theorem": "correspondence B: the observed trace is not a trace of model/HttpServer.v"},
                      "history %s: the model rejects the implementation's trace at %s" % (name, " ".join(t[3:])), True)


REPLAY_HOW = "build/bin/http -family hist -case <file with the script JSON> | build/bin/http_model"


def replay_hist(path, pid, prefixes):
    rp = json.load(open(path))
    sc = rp["replay"].get("script")
    if not sc:
        print("replay names a broken obligation, not an input:", rp.get("what"))
        return 1
    okb, log = C.go_build(GO)
    oko, log2 = C.ocaml_build(OCAML)
    if not (okb and oko):
        print(log, log2)
        return 1
    with tempfile.NamedTemporaryFile("w", suffix=".json", delete=False) as f:
        json.dump(sc, f)
    rc, lines = harness(["-family", "hist", "-case", f.name])
    os.unlink(f.name)
    mism, find, acc, stats, ok, err = model([l for l in lines if l.startswith("H\t")])
    bad = False
    for l in lines:
        if l.startswith("PROP\t") or l.startswith("HUNG") or l.startswith("HS\t"):
            print(l[:400])
        if l.startswith("HUNG"):
            bad = True
        if l.startswith("PROP\t") and " FAIL " in l and any(l.split("\t")[2].startswith(p) for p in prefixes):
            bad = True
    for l in mism + acc:
        print(l)
    if mism or bad or rc != 0:
        print("VIOLATION property=%s replay=%s" % (pid, path))
        return 1
    return 0


def hist_coverage(run, res, extra_rule=""):
    st = res["stats"]
    shapes = set(script_shape(v["script"]) for v in res["scripts"].values())
    parks_hit = sum(int(v["stats"].split("parks_hit=")[1].split()[0]) for v in res["scripts"].values())
    parks_missed = sum(int(v["stats"].split("parks_missed=")[1].split()[0]) for v in res["scripts"].values())
    samples = []
    for name in list(res["scripts"])[:3]:
        samples.append({"script": res["scripts"][name]["script"], "events": trace_of(res, name).get("events", "")[:600]})
    run.coverage.update({
        "evaluations": st.get("hist", 0),
        "distinct_nontrivial": len(shapes),
        "rule": "fixed scripts (one per shape the theorems distinguish, real http.Server and binding fake) + PRNG-generated "
                "reload histories; distinct = distinct script shapes (kind, ops, callback results, park points, "
                "interference), measured; each history is run against the real runner in real time and its whole "
                "event log must be accepted by the extracted acceptor" + extra_rule,
        "samples": samples,
        "traces_validated_against_impl": max(0, st.get("hist_acc", 0) - res.get("recorded_traces", 0)),
        "recorded_traces_replayed_through_the_acceptor": res.get("recorded_traces", 0),
        "trace_events": st.get("hist_events", 0),
        "inconclusive_traces": st.get("hist_inconclusive", 0),
        "parks_matched": parks_hit, "parks_missed": parks_missed,
        "histories_discarded_port_taken_by_another_process": len(res["env_noise"]),
        "released_checks_skipped_port_held_by_another_process":
            sum(int(v["stats"].split("port_noise=")[1].split()[0]) for v in res["scripts"].values() if "port_noise=" in v["stats"]),
        "property_verdicts": {"ok": sum(1 for p in res["props"] if p["ok"]), "fail": sum(1 for p in res["props"] if not p["ok"])},
    })
