"""C17 - public API free of data races (PARTIAL: proof over an access table extracted from source).

Proof: props/C17.v.  C17_discipline_sound is generic; C17_table_ok is re-proved by vm_compute against
coq/gen/AccessTable.v, which harness/cmd/srcfacts regenerates from VERIF_REPO on every run.
Dynamic leg (search / validation, never the claim): harness/cmd/c17race built with -race."""
import concurrent.futures as cf
import filecmp
import json
import os
import re
import shutil
import subprocess
import time
from . import common as C

OCAML = []
GO = ["srcfacts", "c17race"]
PROP = "props/C17.v"
PROOFS = ["proofs/RaceSound.v", "proofs/RaceEntries.v", "proofs/RaceInfer.v", "proofs/RaceExamples.v",
          "model/Race.v", "model/RacePolicy.v", "gen/AccessTable.v"]
WORK = os.path.join(C.BUILD, "c17")
SIDECAR = os.path.join(WORK, "sites.json")
MOD = "github.com/robbyt/go-supervisor/"
TARGET_OF = {"supervisor.PIDZero": "supervisor", "composite.Runner": "composite",
             "httpserver.Runner": "httpserver", "httpcluster.Runner": "httpcluster",
             "httpcluster.entries": "httpcluster", "httpcluster.serverEntry": "httpcluster"}
TRUSTED = [
    "the 'two different threads simultaneously about to perform conflicting accesses' notion of race is taken to "
    "coincide with Go-memory-model data races for sequentially consistent executions (standard; not proved)",
    "harness/cmd/srcfacts (go/ast+go/types): reports every syntactic access to the tracked structs' fields and the "
    "lexical lock state; propagation to helpers is re-checked in Coq from the listed call sites",
    "pre-publication of constructor / fresh-literal / local-copy sites; each HBVia pair of model/RacePolicy.v",
    "not modelled: races inside dependencies (go-fsm, net/http), aliasing of a field's address, unsafe, reflection",
]


# --------------------------------------------------------------------------- static side

def regenerate():
    """Run srcfacts on VERIF_REPO; install coq/gen/AccessTable.v if its content changed."""
    okb, log = C.go_build(["srcfacts"])
    if not okb:
        return False, log
    os.makedirs(WORK, exist_ok=True)
    tmp = os.path.join(WORK, "AccessTable.v")
    rc, out = C.sh([os.path.join(C.BIN, "srcfacts"), "-repo", C.REPO, "-out", tmp, "-json", SIDECAR, "-go", C.GO],
                   env=C.GOENV, timeout=600)
    if rc != 0:
        return False, out
    tmp2 = C.gen_tmp("AccessTable.v")
    shutil.copyfile(tmp, tmp2)
    C.install_gen("AccessTable.v", tmp2)     # atomically, only if changed; put back after a run on a scratch tree
    return True, out.strip()


def hook_sites(run):
    """The claim table is extracted from the PRODUCTION file set (no build tag).  The harness is built with
    -tags verif, which adds the add-only hook files; extract once more with the tag and report what they add.
    Informative only: a write through a shared reference in a hook file is noted, never a verdict."""
    js = os.path.join(WORK, "sites_verif.json")
    rc, out = C.sh([os.path.join(C.BIN, "srcfacts"), "-repo", C.REPO, "-tags", "verif", "-json", js, "-go", C.GO],
                   env=C.GOENV, timeout=600)
    if rc != 0:
        return {"error": out[-300:]}
    try:
        base = json.load(open(SIDECAR))
        ext = json.load(open(js))
    except Exception as e:
        return {"error": str(e)}

    def key(s):
        return (s["Struct"], s["Field"], s["Func"], s["Kind"], s["Ord"])
    have = {key(s) for s in base["sites"]}
    extra = [s for s in ext["sites"] if key(s) not in have]
    shared_writes = ["%s.%s in %s (%s)" % (s["Struct"], s["Field"], s["Func"], s["Dbg"])
                     for s in extra if s["Kind"] == "Wr" and s["Pre"] == "PreNone"]
    if shared_writes:
        run.notes.append("verif-tagged hook files write tracked fields through a shared reference (not part of the "
                         "production API, not judged): " + "; ".join(shared_writes[:10]))
    return {"extra_sites": len(extra), "files": sorted({s["File"] for s in extra}),
            "shared_writes": shared_writes[:10]}


def coq_report():
    """vm_compute the policy failures on the current table (report/C17Report.v, outside the make build)."""
    with C.Lock("coq"):
        rc, out = C.sh(["timeout", "600", "coqc"] + C.coq_flags() + ["report/C17Report.v"], cwd=C.COQ)
    if rc != 0:
        return None, out
    res = {}
    parts = re.split(r"^(c17_\w+) =", out, flags=re.M)
    for i in range(1, len(parts) - 1, 2):
        body = parts[i + 1].split("\n     :")[0]
        strs = re.findall(r'"((?:[^"]|"")*)"', body, flags=re.S)
        res[parts[i]] = [re.sub(r"\s*\n\s*", " ", s.replace('""', '"')) for s in strs]
    return res, out


def parse_failure(line):
    f = (line.split("|") + [""] * 7)[:7]
    return dict(zip(("cls", "struct", "field", "func", "kind", "why", "dbg"), f))


# --------------------------------------------------------------------------- dynamic side

def load_sites():
    try:
        d = json.load(open(SIDECAR))
    except Exception:
        return {}
    idx = {}
    for s in d.get("sites", []):
        idx.setdefault((s["File"], s["Line"]), []).append(s)
    idx["__ranges__"] = [(f["File"], f["Start"], f["End"], f["Name"]) for f in d.get("funcs", []) if f.get("File")]
    return idx


def context_of(sites, rel, line, fallback):
    """srcfacts' name of the innermost function context containing file:line (stable under inlining)."""
    best = None
    for (f, a, b, name) in sites.get("__ranges__", []):
        if f == rel and a <= line <= b and (best is None or b - a < best[0]):
            best = (b - a, name)
    return best[1] if best else short_func(fallback)


def parse_stack(par):
    """One access paragraph of a race report -> (is_write, frames[(func, file, line)])."""
    lines = par.splitlines()
    while lines and not re.search(r"\bat 0x[0-9a-f]+ by ", lines[0]):
        lines = lines[1:]
    if not lines:
        return None
    head = lines[0]
    is_write = "rite at" in head
    frames = []
    i = 1
    while i + 1 < len(lines):
        fn = lines[i].strip()
        loc = lines[i + 1].strip()
        m = re.match(r"^(.*?):(\d+)(?: \+0x[0-9a-f]+)?$", loc)
        if m:
            frames.append((re.sub(r"\([^()]*\)$", "", fn) if fn.endswith(")") else fn, m.group(1), int(m.group(2))))
            i += 2
        else:
            i += 1
    return is_write, frames, head


def parse_created(par):
    """A 'Goroutine N (...) created at:' paragraph -> frames (None for any other paragraph)."""
    lines = par.strip().splitlines()
    if not lines or not re.match(r"^Goroutine \d+ \(.*\) created at:", lines[0]):
        return None
    frames, i = [], 1
    while i + 1 < len(lines):
        fn, loc = lines[i].strip(), lines[i + 1].strip()
        m = re.match(r"^(.*?):(\d+)(?: \+0x[0-9a-f]+)?$", loc)
        if m:
            frames.append((re.sub(r"\([^()]*\)$", "", fn) if fn.endswith(")") else fn, m.group(1), int(m.group(2))))
            i += 2
        else:
            i += 1
    return frames


def module_frame(frames, repo_root):
    for fn, file, line in frames:
        if fn.startswith(MOD) and "/verif_harness" not in fn:
            rel = file[len(repo_root) + 1:] if file.startswith(repo_root + "/") else file
            return fn, rel, line
    return None


def short_func(fn):
    s = fn[len(MOD):] if fn.startswith(MOD) else fn
    s = s.split("/")[-1]
    s = re.sub(r"\[[^\]]*\]", "", s)
    s = s.replace("(*", "").replace(")", "")
    return s


def races_of(stderr, sites, repo_root):
    """Parse race-detector output into canonical findings."""
    out = []
    for blk in stderr.split("=================="):
        if "WARNING: DATA RACE" not in blk:
            continue
        pars = blk.strip().split("\n\n")
        acc = [a for a in (parse_stack(p) for p in pars) if a][:2]
        if len(acc) < 2:
            continue
        mf = [module_frame(a[1], repo_root) for a in acc]
        if not any(mf):
            # sync's own race annotations (WaitGroup Add-from-zero vs Wait, ...) carry no caller frames:
            # attribute such a report through the goroutine-creation stacks
            cmf = [module_frame(fr, repo_root) for fr in (parse_created(p) for p in pars) if fr]
            cmf = [x for x in cmf if x]
            if not cmf:
                out.append({"outside": True, "report": blk.strip()[:4000]})
                continue
            synthetic = all(a[1] and a[1][0][0].startswith("runtime.race") for a in acc)
            out.append({"field": None, "kind": "sync-contract" if synthetic else "via-goroutine",
                        "funcs": sorted({context_of(sites, x[1], x[2], x[0]) for x in cmf}), "frames": [list(x) for x in cmf],
                        "report": blk.strip()[:6000]})
            continue
        cands, funcs = [], []
        for a, f in zip(acc, mf):
            if not f:
                cands.append(set())
                # accesses made inside sync / sync/atomic carry no caller frames
                funcs.append("(sync)" if a[1] and a[1][0][0].startswith(("sync.", "sync/", "runtime.race")) else "?")
                continue
            here = sites.get((f[1], f[2]), [])
            kinds = ("Wr",) if a[0] else ("Rd", "Use", "Wr")
            sel = [s for s in here if s["Kind"] in kinds] or here
            cands.append({(s["Struct"], s["Field"]) for s in sel})
            funcs.append(sel[0]["Func"] if sel else context_of(sites, f[1], f[2], f[0]))
        both = cands[0] & cands[1] if cands[0] and cands[1] else (cands[0] or cands[1])
        field = sorted(both)[0] if both else None
        out.append({"field": field, "funcs": sorted(funcs), "frames": [list(f) if f else None for f in mf],
                    "report": blk.strip()[:6000]})
    return out


def race_key(r, exceptions):
    if r.get("kind"):
        return "race:%s:%s" % (r["kind"], "/".join(r["funcs"]))
    if r.get("field"):
        fq = "%s.%s" % tuple(r["field"])
        if fq in exceptions:
            return "race:" + fq
        return "race:%s:%s" % (fq, "/".join(r["funcs"]))
    fr = [f for f in r.get("frames", []) if f]
    return "race:%s:%s" % (os.path.basename(fr[0][1]) if fr else "?", "/".join(r.get("funcs", [])))


def crash_of(stderr, sites, repo_root):
    """panic / fatal error of a scenario process -> canonical key crash:<top library frame> + plan + stack."""
    at = max(stderr.find("panic:"), stderr.find("fatal error:"), 0)
    tail = stderr[at:]
    msg = tail.split("\n", 1)[0]
    lines = tail.splitlines()
    top = None
    for i in range(len(lines) - 1):
        fn = lines[i].strip()
        if fn.startswith(MOD) and "/verif_harness" not in fn:
            m = re.match(r"^\s*(\S+?):(\d+)(?: \+0x[0-9a-f]+)?$", lines[i + 1])
            if m:
                file = m.group(1)
                rel = file[len(repo_root) + 1:] if file.startswith(repo_root + "/") else file
                top = context_of(sites, rel, int(m.group(2)), re.sub(r"\([^()]*\)$", "", fn))
                break
    plan = re.search(r"^PLAN (.*)$", stderr, re.M)
    target = None
    if plan:
        try:
            target = json.loads(plan.group(1)).get("target")
        except Exception:
            pass
    return {"key": "crash:" + (top or "outside-the-library"), "msg": msg, "plan": plan.group(1) if plan else None,
            "stack": tail[:3000], "target": target}


def run_scenario(seed, idx, target, verbose=False):
    env = dict(os.environ)
    env["GORACE"] = "halt_on_error=0 atexit_sleep_ms=0 exitcode=0"
    args = [os.path.join(C.BIN, "c17race_race"), "-seed", str(seed), "-idx", str(idx), "-target", target]
    if verbose:
        args.append("-v")
    try:
        p = subprocess.run(args, env=env, stdout=subprocess.PIPE, stderr=subprocess.PIPE, timeout=30)
    except subprocess.TimeoutExpired as e:
        return {"idx": idx, "hung": True, "stderr": (e.stderr or b"").decode("utf-8", "replace")}
    summ = None
    for l in p.stdout.decode("utf-8", "replace").splitlines():
        if l.startswith("{"):
            try:
                summ = json.loads(l)
            except Exception:
                pass
    return {"idx": idx, "rc": p.returncode, "summary": summ, "stderr": p.stderr.decode("utf-8", "replace")}


def dynamic_leg(run, budget_s, targets, exceptions):
    """Runs scenarios for about budget_s seconds; returns (stats, findings keyed)."""
    sites = load_sites()
    repo_root = os.path.realpath(C.REPO)
    workers = max(2, min(8, C.NPROC // 2))
    t_end = time.time() + budget_s
    stats = {"scenarios": 0, "hung": 0, "crashed": 0, "no_summary": 0, "run_not_returned": 0, "race_reports": 0,
             "reports_outside_module": 0, "ops": 0, "by_target": {}, "ops_by_kind": {}, "programs": set(),
             "nontrivial_programs": set(), "workers": workers}
    found, samples, crashes = {}, [], {}
    nxt = 0
    with cf.ThreadPoolExecutor(max_workers=workers) as ex:
        pending = set()
        while True:
            while len(pending) < workers and time.time() < t_end:
                tg = targets[nxt % len(targets)] if targets != ["all"] else "all"
                pending.add(ex.submit(run_scenario, run.seed, nxt, tg))
                nxt += 1
            if not pending:
                break
            done, pending = cf.wait(pending, return_when=cf.FIRST_COMPLETED)
            for f in done:
                r = f.result()
                stats["scenarios"] += 1
                if r.get("hung"):
                    stats["hung"] += 1
                s = r.get("summary")
                if s:
                    stats["ops"] += s["ops"]
                    stats["by_target"][s["target"]] = stats["by_target"].get(s["target"], 0) + 1
                    for k, v in s["ops_by_kind"].items():
                        kk = s["target"] + "." + k
                        stats["ops_by_kind"][kk] = stats["ops_by_kind"].get(kk, 0) + v
                    stats["programs"].add(s["program"])
                    mutating = sum(v for k, v in s["ops_by_kind"].items()
                                   if re.search(r"Reload|Push|Subscri|Signal|Trigger", k))
                    if s["run_returned"] and mutating > 0:
                        stats["nontrivial_programs"].add(s["program"])
                    if not s["run_returned"]:
                        stats["run_not_returned"] += 1
                    if len(samples) < 6:
                        samples.append({k: s[k] for k in ("idx", "target", "goroutines", "ops", "finish", "program",
                                                          "run_returned", "ops_by_kind")})
                elif not r.get("hung"):
                    stats["no_summary"] += 1
                    if "panic:" in r.get("stderr", "") or "fatal error:" in r.get("stderr", ""):
                        stats["crashed"] += 1
                        cr = crash_of(r["stderr"], sites, repo_root)
                        c = stats.setdefault("crashes", {}).setdefault(cr["key"], {"count": 0, "with_RunAgain_in_plan": 0})
                        c["count"] += 1
                        c["with_RunAgain_in_plan"] += 1 if "RunAgain" in (cr["plan"] or "") else 0
                        crashes.setdefault(cr["key"], dict(cr, idx=r["idx"], target=cr.get("target")))
                for rc in races_of(r.get("stderr", ""), sites, repo_root):
                    stats["race_reports"] += 1
                    if rc.get("outside"):
                        stats["reports_outside_module"] += 1
                        found.setdefault("harness-or-dependency-race", dict(rc, idx=r["idx"]))
                        continue
                    key = race_key(rc, exceptions)
                    if key not in found:
                        found[key] = dict(rc, idx=r["idx"], target=(s or {}).get("target"))
    return stats, found, samples, crashes


# --------------------------------------------------------------------------- entry points

def run(run):
    cov = run.coverage
    ok, msg = regenerate()
    if not ok:
        cov.update({"obligations": 0, "discharged": 0, "trusted_base": TRUSTED, "checker_cmd": "srcfacts"})
        run.violation("srcfacts-failed", {"log": msg[-3000:]},
                      "srcfacts could not extract the access table from %s (theorem C17_table_ok is not re-checked)" % C.REPO, True)
        return
    cov["srcfacts"] = msg
    cov["verif_hook_files"] = hook_sites(run)
    # the extractor is trusted: re-validate it on the hand-checked fixture every run
    from . import fixture_c17
    fok, fdiff, fn = fixture_c17.compare()
    cov["extractor_selftest"] = {"expectations": fn, "ok": fok, "diff": fdiff[:20]}
    if not fok:
        run.violation("srcfacts-selftest", {"diff": fdiff[:50]},
                      "srcfacts no longer reproduces the hand-determined facts of its fixture "
                      "(harness/cmd/srcfacts/testdata): the extracted table cannot be trusted", True)
    C.coq_build()
    rep, replog = coq_report()
    if rep is None:
        cov.update({"obligations": 0, "discharged": 0, "trusted_base": TRUSTED, "checker_cmd": "coqc report/C17Report.v"})
        run.violation("report-failed", {"log": replog[-3000:]},
                      "the access table no longer compiles against the policy vocabulary (C17_table_ok not re-checked)", True)
        return
    exceptions = rep.get("c17_exceptions", [])
    fails = [parse_failure(l) for l in rep.get("c17_failures_with_exceptions", [])]
    fails_all = [parse_failure(l) for l in rep.get("c17_failures_all", [])]
    cov["hbvia_pairs_trusted"] = rep.get("c17_hbvia", [])
    cov["policy_exceptions"] = exceptions
    # fields the hand-written policy does not name (renamed / new fields): the discipline inferred from the access table
    # and checked like a declared one (coq/model/Race.v 3b; C17_inferred_checked, C17_every_field_classified)
    cov["inferred_policies"] = dict(x.split(" -> ", 1) for x in rep.get("c17_inferred", []) if " -> " in x)
    if rep.get("c17_stale_policy"):
        run.notes.append("policy entries that match no field of the current source (harmless): " +
                         ", ".join(rep["c17_stale_policy"]))
    try:
        sc = json.load(open(SIDECAR))
        cov["access_table"] = {"fields": len(sc["fields"]), "function_contexts": len(sc["funcs"]),
                               "call_sites": len(sc["calls"]), "access_sites": len(sc["sites"]),
                               "sites_under_a_lock": sum(1 for s in sc["sites"] if s["Locks"]),
                               "helpers_with_entry_locks": sum(1 for f in sc["funcs"] if f["Entry"])}
    except Exception:
        pass

    proof_ok = False
    if not fails:
        proof_ok = C.proof_leg(run, PROP, PROOFS, trusted_extra=TRUSTED)
    else:
        st, _ = C.count_obligations([PROP] + PROOFS)
        cov.update({"obligations": st, "discharged": 0, "trusted_base": TRUSTED, "build_failed": [PROP],
                    "proof_files": [PROP] + PROOFS,
                    "checker_cmd": "make -C coq (coqc 8.16.1) && coqc report/C17Report.v (vm_compute failures)",
                    "policy_failures": rep.get("c17_failures_with_exceptions", [])})

    # exceptions: still needed?  (needed = the table fails the policy on that field without it)
    needed = {e: [f for f in fails_all if "%s.%s" % (f["struct"], f["field"]) == e] for e in exceptions}
    for e, fl in needed.items():
        if not fl:
            run.notes.append("policy exception %s is NO LONGER NEEDED: the current source satisfies the policy for this "
                             "field (a repair landed); remove it from model/RacePolicy.v and known_findings.txt" % e)

    # dynamic leg, aimed at the structs the static side complains about
    okb, log = C.go_build(["c17race"], race=True)
    if not okb:
        run.violation("build-go", {"log": log[-3000:]}, "c17race does not build with -race against %s" % C.REPO, True)
        return
    failing_structs = sorted({f["struct"] for f in fails if f["struct"]} |
                             {e.rsplit(".", 1)[0] for e, fl in needed.items() if fl})
    targets = sorted({TARGET_OF.get(s, "all") for s in failing_structs})
    if not targets or "all" in targets:
        targets = ["all"]
    budget = run.scaled(40) if run.tier == "quick" else 600     # anchor drift: escalated budget
    if fails:
        budget = int(budget * 1.5)
    stats, found, samples, crashes = dynamic_leg(run, budget, targets, exceptions)

    # a panic / fatal error of the process under concurrent public-API use is a violation too
    for key, cr in sorted(crashes.items()):
        run.violation(key, {"seed": run.seed, "idx": cr["idx"], "target": cr.get("target") or "all", "crash": True,
                            "message": cr["msg"], "plan": cr["plan"], "stack": cr["stack"],
                            "how": "build/bin/c17race_race -seed %d -idx %d -target %s -v  (schedule dependent: "
                                   "./check C17 --replay repeats it)" % (run.seed, cr["idx"], cr.get("target") or "all")},
                      "the process crashed under concurrent public-API calls: %s (top library frame %s)" % (
                          cr["msg"], key[6:]), False)

    raced_fields = set()
    for key, rc in sorted(found.items()):
        if key == "harness-or-dependency-race":
            run.notes.append("race report without a frame inside the library module (harness or dependency); "
                             "report: " + rc["report"][:2500].replace("\n", " | "))
            continue
        fq = "%s.%s" % tuple(rc["field"]) if rc.get("field") else None
        if fq:
            raced_fields.add(fq)
        payload = {"seed": run.seed, "idx": rc["idx"], "target": rc.get("target") or "all", "field": fq,
                   "functions": rc["funcs"], "race_detector_report": rc["report"],
                   "how": "GORACE=halt_on_error=0 build/bin/c17race_race -seed %d -idx %d -target %s  (schedule dependent: "
                          "./check C17 --replay repeats it)" % (run.seed, rc["idx"], rc.get("target") or "all")}
        run.violation(key, payload, "data race reported by the Go race detector on %s between %s" % (
            fq or "library code", " and ".join(rc["funcs"])), False)

    for kf in run.findings:
        if kf["key"] and kf["key"].startswith("race:") and kf["key"] not in found:
            run.notes.append("recorded finding %s was not hit by the race detector in this run (%d scenarios; schedule "
                             "dependent - if it stays absent over thorough runs the entry is stale)" % (kf["key"], stats["scenarios"]))

    # static failures that the dynamic leg did not turn into a concrete race
    seen = set()
    for f in fails:
        fq = "%s.%s" % (f["struct"], f["field"]) if f["struct"] else None
        if fq and fq in raced_fields:
            continue
        if f["cls"] in ("site", "pair", "field"):
            key = "policy:%s:%s" % (fq, f["func"] or "-")
        else:
            key = "policy:%s:%s" % (f["cls"], f["func"])
        if key in seen:
            continue
        seen.add(key)
        run.violation(key, {"theorem": "C17_table_ok (coq/props/C17.v) no longer holds for the regenerated coq/gen/AccessTable.v",
                            "failure": f, "all_failures": rep.get("c17_failures_with_exceptions", [])[:40],
                            "dynamic_leg": {"scenarios": stats["scenarios"], "targets": targets}},
                      "lock policy violated at %s (%s %s in %s): %s; no race reproduced by the race detector in %d scenarios" % (
                          f["dbg"] or "-", f["kind"], fq or f["cls"], f["func"] or "-", f["why"], stats["scenarios"]), True)
    # exceptions that are still needed but were not seen dynamically in this run: keep the finding visible
    for e, fl in needed.items():
        if fl and e not in raced_fields:
            run.violation("race:" + e, {"theorem": "C17_table_ok holds only with the exception for " + e,
                                        "failures_without_exception": fl},
                          "policy exception for %s is still needed (static); the race detector did not hit it in this run" % e, True)

    cov.update({
        "evaluations": stats["scenarios"],
        "distinct_nontrivial": len(stats["nontrivial_programs"]),
        "rule": "random concurrent API programs (2-6 goroutines x 6-17 calls, SplitMix64 from VERIF_SEED and the scenario "
                "index), one child process each, built with -race, %d in parallel, about %d s; targets %s; distinct = "
                "distinct generated programs (hash of the per-goroutine call lists incl. the termination trigger); "
                "non-trivial = at least one mutating call (reload / config push / subscribe / signal / trigger) and Run() "
                "returned" % (stats["workers"], budget, ",".join(targets)),
        "samples": samples,
        "traces_validated_against_impl": stats["scenarios"] - stats["hung"] - stats["no_summary"],
        "dynamic": {k: (len(v) if isinstance(v, set) else v) for k, v in stats.items()},
        "static_failures": len(fails),
        "exhaustive": False,
    })
    if stats["hung"] or stats["crashed"]:
        run.notes.append("%d scenario(s) hit the 30 s limit (recorded, not a verdict) and %d crashed (each crash key is a "
                         "violation): %s" % (
                             stats["hung"], stats["crashed"],
                             "; ".join("%s x%d (%d with a second Run())" % (k, v["count"], v["with_RunAgain_in_plan"])
                                       for k, v in stats.get("crashes", {}).items())))
    run.assumptions += ["Run() is invoked at most once at a time on a runner (HBVia composite-run-then-reload)",
                        "proof is over the extracted access table, not over the Go code"]
    if proof_ok:
        cov["claim"] = "C17_table_ok re-proved against the table regenerated from %s" % C.REPO


def replay(path):
    rp = json.load(open(path))
    pl = rp.get("replay", {})
    ok, msg = regenerate()
    if not ok:
        print(msg)
        return 1
    if pl.get("crash"):
        okb, log = C.go_build(["c17race"], race=True)
        if not okb:
            print(log)
            return 1
        sites = load_sites()
        root = os.path.realpath(C.REPO)
        for attempt in range(40):
            r = run_scenario(rp.get("seed", 1), pl["idx"], pl.get("target", "all"))
            e = r.get("stderr", "")
            if r.get("summary") is None and ("panic:" in e or "fatal error:" in e):
                cr = crash_of(e, sites, root)
                if cr["key"] == rp["key"]:
                    print(cr["stack"])
                    print("VIOLATION property=C17 replay=%s" % path)
                    return 1
        print("crash %s not reproduced in 40 attempts of scenario idx=%s" % (rp["key"], pl["idx"]))
        return 0
    if "idx" in pl and "race_detector_report" in pl:
        okb, log = C.go_build(["c17race"], race=True)
        if not okb:
            print(log)
            return 1
        sites = load_sites()
        root = os.path.realpath(C.REPO)
        want = rp["key"]
        for attempt in range(40):
            r = run_scenario(rp.get("seed", 1), pl["idx"], pl.get("target", "all"))
            for rc in races_of(r.get("stderr", ""), sites, root):
                if rc.get("outside"):
                    continue
                k = race_key(rc, [want[5:]] if want.count(":") == 1 else [])
                if k == want:
                    print(rc["report"])
                    print("VIOLATION property=C17 replay=%s" % path)
                    return 1
        print("race %s not reproduced in 40 attempts of scenario idx=%s" % (want, pl["idx"]))
        return 0
    # a static finding: is the named policy failure still there?
    C.coq_build()
    rep, log = coq_report()
    if rep is None:
        print(log[-2000:])
        return 1
    f = pl.get("failure", {})
    for l in rep.get("c17_failures_with_exceptions", []):
        g = parse_failure(l)
        if (g["struct"], g["field"], g["func"], g["kind"]) == (f.get("struct"), f.get("field"), f.get("func"), f.get("kind")):
            print(l)
            print("VIOLATION property=C17 replay=%s no-failing-input-found" % path)
            return 1
    print("the recorded policy failure is no longer present")
    return 0
