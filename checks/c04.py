"""C04 — supervisor; see DESIGN.md section 6.  Proof: props/C04.v.  Tie: trace acceptance (check B)."""
from . import supcommon as S

OCAML = S.OCAML
GO = S.GO
FAMILIES = "mixed,startup,reload,errs,gatecancel".split(",")
PROP = "props/C04.v"
PROOFS = ["proofs/SupInv.v", "proofs/SupTrig.v", "proofs/SupResult.v", "proofs/SupReports.v"]


def run(run):
    S.run_property(run, "C04", FAMILIES, PROP, PROOFS)


def replay(path):
    return S.replay("C04", path)
