#!/usr/bin/env python3
"""Regenerates checks/anchors.lock.json: the digests (harness/cmd/anchors) of every function named in checks/anchors.json,
for the tree at VERIF_REPO (default /repo).  Run it when /repo's pinned HEAD moves and the models have been brought up to
date with it; until then the properties owning the changed functions run with an escalated budget (never an alarm)."""
import json
import os
import subprocess
import sys

sys.path.insert(0, os.path.dirname(os.path.dirname(os.path.abspath(__file__))))
from checks import common as C  # noqa: E402

cur, why = C.anchor_digests()
if cur is None:
    print(why)
    sys.exit(1)
head = subprocess.run(["git", "-C", C.REPO, "rev-parse", "--short", "HEAD"], stdout=subprocess.PIPE).stdout.decode().strip()
dirty = subprocess.run(["git", "-C", C.REPO, "status", "--short", "--untracked-files=no"], stdout=subprocess.PIPE).stdout.decode().strip()
json.dump({"tree": head + ("+dirty" if dirty else ""), "digests": {k: cur[k] for k in sorted(cur)}},
          open(C.ANCHOR_LOCK, "w"), indent=1)
print("anchors.lock.json: %d declarations of %s%s" % (len(cur), head, " (DIRTY TREE)" if dirty else ""))
