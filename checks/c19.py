"""C19 — accepted inputs never crash the process (partial: ServeMux is an oracle).
Proof: props/C19.v.  Tie: grammar of constructor arguments, each accepted value driven through Run, Reload and
one request in a child process; the model's prediction uses the ServeMux oracle's value obtained by trial
registration of the same patterns."""
import filecmp
import json
import os
import re
import shutil
import tempfile
from . import common as C
from . import httplib as H

OCAML = H.OCAML
GO = H.GO + ["panicsites"]
PROP = "props/C19.v"
PROOFS = H.PROTO_PROOFS + ["proofs/HttpCtor.v", "proofs/HttpProgress.v", "proofs/HttpPanicProofs.v", "model/HttpPanic.v",
                           "model/HttpPanicPolicy.v", "gen/HttpPanicSites.v",
                           "proofs/CompositeCfgProofs.v", "model/CompositeCfg.v"] + H.MODEL_FILES
HOW = "build/bin/http -family crash -case <file with the case JSON> | build/bin/http_model"


def describe(c):
    rs = ", ".join("%s -> %s" % (r["name"][:40], r["path"][:60]) for r in c.get("routes", []) or [])
    extra = ""
    if c.get("prefix") is not None:
        extra = " wildcard-prefix=%r request-paths=%r" % (c.get("prefix")[:40], [p[:30] for p in (c.get("paths") or [])])
    if c.get("build"):
        steps = []
        for i, st in enumerate(c["build"]):
            opts = ",".join(o["k"] + (("#%d" % o.get("ref", 0)) if o["k"] == "copy" else
                                      ("=%d" % o.get("v", 0)) if o["k"] in ("drain", "read", "write", "idle") else "")
                            for o in st.get("opts") or [])
            steps.append("p%d=NewConfig(%s, [%s]%s)" % (i, st.get("addr"), ", ".join(
                "%s -> %s" % (r["name"][:20], r["path"][:40]) for r in st.get("routes") or []), (", " + opts) if opts else ""))
        extra += " chain: " + "; ".join(steps) + ((" via=" + c["via"]) if c.get("via") else "")
    return "kind=%s where=%s addr=%s routes=[%s]%s" % (c.get("kind"), c.get("where"), str(c.get("addr"))[:40], rs, extra)


def regenerate():
    """Run harness/cmd/panicsites on VERIF_REPO; install coq/gen/HttpPanicSites.v if its content changed."""
    okb, log = C.go_build(["panicsites"])
    if not okb:
        return False, log
    tmp = os.path.join(C.BUILD, "HttpPanicSites-%d.v" % os.getpid())
    rc, out = C.sh([os.path.join(C.BIN, "panicsites"), "-repo", C.REPO, "-out", tmp, "-go", C.GO], env=C.GOENV, timeout=600)
    if rc != 0:
        return False, out
    dst = os.path.join(C.COQ, "gen", "HttpPanicSites.v")
    with C.Lock("coq"):
        if not os.path.exists(dst) or not filecmp.cmp(tmp, dst, shallow=False):
            shutil.copyfile(tmp, dst)
    os.unlink(tmp)
    return True, out.strip()


def unjustified_sites():
    """Ask Coq which sites of the regenerated table no policy rule covers (the gen file and the policy compile even
    when props/C19.v does not)."""
    src = ("From Coq Require Import String List.\nFrom GS Require Import HttpPanic HttpPanicPolicy HttpPanicSites.\n"
           "Set Printing Depth 100000.\nEval vm_compute in (map (fun s => (ps_pkg s, ps_func s, ps_kind s, ps_expr s, ps_conds s, ps_dbg s)) "
           "(unjustified http_panic_policy sites)).\n")
    f = os.path.join(C.BUILD, "unjustified_%d.v" % os.getpid())
    open(f, "w").write(src)
    with C.Lock("coq"):
        rc, out = C.sh(["timeout", "300", "coqc"] + C.coq_flags() + [f], cwd=C.COQ)
    for ext in (".v", ".vo", ".vok", ".vos", ".glob"):
        try:
            os.unlink(f[:-2] + ext)
        except OSError:
            pass
    if rc != 0:
        return None, out[-1500:]
    body = out.split(": list", 1)[0]
    sites = re.findall(r'\(\s*"([^"]*)",\s*"([^"]*)",\s*(\w+),\s*"((?:[^"]|"")*)",\s*((?:"(?:[^"]|"")*"\s*::\s*)*nil|\[[^\]]*\]),'
                       r'\s*"([^"]*)"\s*\)', body, flags=re.S)
    return [{"package": a, "function": b, "kind": k, "expression": e.replace('""', '"'), "conditions": c, "at": d}
            for a, b, k, e, c, d in sites], ""


KINDS = ["PIndex", "PSlice", "PPanic", "PMapWrite", "PSend", "PClose", "PAssert", "PCallFuncValue", "PDeref", "PDiv",
         "PCallApi", "POnceRearm", "PMake"]


def policy_rules():
    """The rules of model/HttpPanicPolicy.v as (package, kind, expression, needed conditions).  Each rule is printed by Coq
    as ONE string (fields joined by characters that do not occur in Go source), so line wrapping cannot split a field."""
    src = ("From Coq Require Import String List Ascii.\nFrom GS Require Import HttpPanic HttpPanicPolicy.\nOpen Scope string_scope.\n"
           "Definition us := String (ascii_of_nat 31) EmptyString.\nDefinition rs := String (ascii_of_nat 30) EmptyString.\n"
           "Definition kc (k : pkind) := String (ascii_of_nat (65 + pkind_code k)) EmptyString.\n"
           "Eval vm_compute in (map (fun r => r_pkg r ++ us ++ kc (r_kind r) ++ us ++ r_expr r ++ us ++ "
           "String.concat rs (r_need r)) http_panic_policy).\n")
    f = os.path.join(C.BUILD, "policyrules_%d.v" % os.getpid())
    open(f, "w").write(src)
    with C.Lock("coq"):
        rc, out = C.sh(["timeout", "300", "coqc"] + C.coq_flags() + [f], cwd=C.COQ)
    for ext in (".v", ".vo", ".vok", ".vos", ".glob"):
        try:
            os.unlink(f[:-2] + ext)
        except OSError:
            pass
    if rc != 0:
        return None
    body = out.split(": list", 1)[0]
    rules = []
    for m in re.findall(r'"((?:[^"]|"")*)"', body, flags=re.S):
        f4 = m.replace('""', '"').split("\x1f")
        if len(f4) != 4 or len(f4[1]) != 1 or not (0 <= ord(f4[1]) - 65 < len(KINDS)):
            return None
        rules.append((f4[0], KINDS[ord(f4[1]) - 65], f4[2], [c for c in f4[3].split("\x1e") if c]))
    return rules


GO_WORDS = {"len", "cap", "nil", "true", "false", "make", "append", "panic", "close", "func", "range", "chan", "map",
            "struct", "interface", "string", "int", "bool", "error"}


def shape(expr):
    """An expression up to the names of identifiers (Go keywords, builtins and literals stay)."""
    return re.sub(r"[A-Za-z_][A-Za-z0-9_]*", lambda m: m.group(0) if m.group(0) in GO_WORDS else "_",
                  re.sub(r"\s+", "", expr))


def rename_equivalent(site, rules):
    """The uncovered site equals a covered expression up to identifier names: same package (or a rule for any package),
    same kind, same expression shape, and every lexical condition the rule needs is present up to names.  Function names
    are ignored (helper extraction moves expressions between functions).  PRECISION: this forgives, besides renamings, a
    new expression whose shape and guards coincide with a covered one of the same package and kind (e.g. a second
    unguarded dereference of a constructor-initialised field); such a site is left to the escalated dynamic leg."""
    conds = {shape(c) for c in re.findall(r'"((?:[^"]|"")*)"', site["conditions"])}
    for pkg, kind, expr, need in rules:
        if pkg not in ("", site["package"]) or kind != site["kind"]:
            continue
        if shape(expr) == shape(site["expression"]) and all(shape(n) in conds for n in need):
            return True
    return False


def inventory_report():
    """Compile coq/report/C19PanicReport.v (the three inventory theorems) against the regenerated table."""
    with C.Lock("coq"):
        rc, out = C.sh(["timeout", "600", "coqc"] + C.coq_flags() + ["report/C19PanicReport.v"], cwd=C.COQ)
    return rc == 0 and out.count("Closed under the global context") >= 3, out


def run(run):
    okg, gmsg = regenerate()
    if not okg:
        run.violation("panicsites-failed", {"log": gmsg[-3000:]},
                      "harness/cmd/panicsites could not extract the panic-site table from %s (theorem "
                      "C19_panic_sites_justified is not re-checked)" % C.REPO, True)
    else:
        run.coverage["panic_site_table"] = gmsg
    proved = C.proof_leg(run, PROP, PROOFS, trusted_extra=[
        "the panic-site inventory is SYNTACTIC (harness/cmd/panicsites, go/ast + go/types: index and slice expressions, "
        "explicit panics, map writes, channel sends/closes, unchecked type assertions, calls through function values, "
        "dereferences through non-receiver pointers/interfaces, integer division, ServeMux.Handle/WriteHeader/WaitGroup "
        "calls, sync.Once re-arming, make with a computed size; keyed by function and expression text); the policy's "
        "reasons WCtor/WFresh/WLocal/WExternal/WOutOfGrammar are established by reading and assumed",
        "PARTIAL: http.ServeMux is an ORACLE (a deterministic function of the ordered pattern list; its value for each "
        "case is obtained by registering the same patterns on a scratch mux under recover); net/http.Server and the socket "
        "table are modelled",
        "the model in use is the validating constructor of /repo d243ed6 (C19_model_in_use: validated_now = true): "
        "C19_http_repaired has no hypothesis; C19_http (hypothesis: the oracle accepts every delivered route list) and the "
        "*_legacy refutations describe the code before the repair",
        "extraction via ExtrOcamlBasic only; OCaml driver ocaml/http.ml + util.ml; Go harness cmd/http"])
    escalate = False
    if okg and proved:
        inv_ok, inv_out = inventory_report()
        run.coverage["panic_inventory_report"] = "coq/report/C19PanicReport.v: " + ("3 theorems closed" if inv_ok else "does not check")
        if inv_ok:
            run.coverage["obligations"] = run.coverage.get("obligations", 0) + 3
            run.coverage["discharged"] = run.coverage.get("discharged", 0) + 3
        else:
            # which sites are uncovered?  A site that equals a covered one up to identifier names is a RENAMING of the
            # source (drift: the dynamic leg searches harder, nothing is reported); any other uncovered site is a broken
            # obligation and is named.
            escalate = True
            us, err = unjustified_sites()
            rules = policy_rules()
            if us is None or rules is None or not us:
                run.violation("panic-inventory-broken", {"log": (err or inv_out)[-2000:]},
                              "coq/report/C19PanicReport.v no longer checks and the uncovered sites could not be listed", True)
            else:
                new_sites = [u for u in us if not rename_equivalent(u, rules)]
                drift = [u for u in us if rename_equivalent(u, rules)]
                run.coverage["panic_site_rename_drift"] = ["%s.%s:%s:%s" % (u["package"], u["function"], u["kind"], u["expression"])
                                                           for u in drift]
                if drift:
                    run.notes.append("%d panic site(s) differ from covered ones only by identifier / function names (renaming "
                                     "drift): dynamic leg escalated, not reported" % len(drift))
                if new_sites:
                    run.coverage["unjustified_panic_sites"] = new_sites
                    run.violation("panic-site-unjustified:" + ";".join(sorted(set("%s.%s:%s:%s" % (
                        u["package"], u["function"], u["kind"], u["expression"]) for u in new_sites)))[:300],
                        {"theorem": "C19_panic_sites_justified (coq/report/C19PanicReport.v) no longer holds for the regenerated "
                                    "coq/gen/HttpPanicSites.v", "sites": new_sites},
                        "the source contains %d panic-capable expression(s) that the policy model/HttpPanicPolicy.v does not justify: %s"
                        % (len(new_sites), "; ".join("%s %s in %s.%s (%s) under %s" % (
                            u["kind"], u["expression"], u["package"], u["function"], u["at"], u["conditions"]) for u in new_sites[:4])), True)
    if not H.build(run):
        return
    det = os.path.join(C.BUILD, "c19-detail-%d.jsonl" % os.getpid())
    if escalate:
        run.notes.append("unjustified panic sites: dynamic leg escalated (all address cases, 400 random cases of each kind)")
        args = ["-family", "crash", "-mode", "full", "-n", "400", "-j", str(min(12, C.NPROC)), "-seed", str(run.seed), "-detail", det]
    elif run.tier == "quick":
        args = ["-family", "crash", "-mode", "quick", "-n", "40", "-j", "8", "-seed", str(run.seed), "-detail", det]
    else:
        args = ["-family", "crash", "-mode", "full", "-n", "15000", "-j", str(min(12, C.NPROC)), "-seed", str(run.seed), "-detail", det]
    rc, lines = H.harness(args, timeout=3000)
    details = {}
    if os.path.exists(det):
        for l in open(det):
            d = json.loads(l)
            details[d["case"]["id"]] = d
        os.unlink(det)
    mism, find, acc, stats, ok, err = H.model(lines)
    if rc != 0 or not ok or stats.get("cr", 0) == 0:
        run.violation("harness-failed", {"rc": rc, "err": err, "tail": lines[-10:]}, "C19 harness or model driver failed to run", True)
        return
    # predicted AND observed crashes: the known defect, one violation per canonical key
    by_key = {}
    for l in find:
        t = l.split()
        by_key.setdefault(t[1], []).append(t[2])
    for key, ids in sorted(by_key.items()):
        ids.sort(key=lambda i: len(json.dumps(details.get(i, {}).get("case", {}))))
        d = details.get(ids[0], {})
        run.violation(key, {"case": d.get("case"), "oracle_panic": d.get("oracle_panic"), "stack": d.get("stack"),
                            "all_cases_with_this_key": len(ids), "how": HOW},
                      "a configuration ACCEPTED by NewConfig crashes the process in getMux (%s): %s" % (
                          (d.get("oracle_panic") or "")[:160], describe(d.get("case", {}))))
    for l in mism[:60]:
        t = l.split()
        kind, cid = t[1], t[2]
        d = details.get(cid, {})
        payload = {"case": d.get("case"), "observed": d.get("observed"), "detail": d.get("detail"), "stack": d.get("stack"),
                   "driver_line": l, "how": HOW}
        ck = H.h8(json.dumps(d.get("case", {}), sort_keys=True))
        if kind == "crash-unpredicted":
            run.violation("crash:%s:%s" % (d.get("case", {}).get("kind"), ck), payload,
                          "an accepted value crashes the process although the model predicts no crash: %s :: %s" % (
                              describe(d.get("case", {})), (d.get("detail") or "")[:200]))
        elif kind == "handler-panic":
            run.violation("handler-panic:%s:%s" % (d.get("case", {}).get("kind"), ck), payload,
                          "request handling panics for an accepted value (recovered per connection by net/http, the client "
                          "gets no response): %s :: %s" % (describe(d.get("case", {})), (d.get("detail") or "")[:200]))
        elif kind in ("hang", "none"):
            run.violation("hang:%s:%s" % (d.get("case", {}).get("kind"), ck), payload,
                          "an accepted value leads to neither normal operation nor an error (no outcome within 40 s): %s" % describe(d.get("case", {})))
        elif kind == "newconfig":
            cls = [x for x in t if x.startswith("class=")][0][6:]
            run.violation("corr-newconfig:" + cls, dict(payload, theorem="correspondence A (model new_config vs NewConfig: "
                                                        "C19_constructor_validates / C19_constructor_accepts_by_routes_only)"),
                          "NewConfig's result differs from the model's for a construction step (options in order, copies of "
                          "earlier products): %s :: %s" % (l, describe(d.get("case", {}))), True)
        elif kind == "crash-missing":
            cls = [x for x in t if x.startswith("class=")][0][6:]
            run.violation("corr-crash-missing:" + cls, dict(payload, theorem="model prediction (predicts_crash) vs implementation"),
                          "the model (validated_now=%d) predicts a getMux panic that the implementation does not exhibit"
                          % stats.get("validated", 0), True)
        else:
            cls = [x for x in t if x.startswith("class=")][0][6:]
            run.violation("corr-accept:" + cls, dict(payload, theorem="correspondence A (new_config_ok vs NewConfig)"),
                          "NewConfig's acceptance differs from the model's (validated_now=%d): %s" % (stats.get("validated", 0), l), True)
    kinds, outcomes = {}, {}
    for d in details.values():
        kinds[d["case"]["kind"]] = kinds.get(d["case"]["kind"], 0) + 1
        outcomes[d["observed"]] = outcomes.get(d["observed"], 0) + 1
    distinct = set(json.dumps({k: v for k, v in d["case"].items() if k != "id"}, sort_keys=True) for d in details.values())
    nontrivial = set(json.dumps({k: v for k, v in d["case"].items() if k != "id"}, sort_keys=True)
                     for d in details.values() if d.get("accepted"))
    samples = [{"case": describe(d["case"]), "oracle_ok": d["oracle_ok"], "observed": d["observed"], "detail": (d.get("detail") or "")[:120]}
               for d in list(details.values())[:3] + [x for x in details.values() if x["observed"] == "crash"][:2]]
    run.coverage.update({
        "evaluations": stats.get("cr", 0),
        "distinct_nontrivial": len(nontrivial),
        "rule": "grammar of constructor/option arguments (route patterns: wildcards, {$}, method- and host-qualified, unbalanced "
                "braces, duplicate wildcard names, empty segments, unicode, NUL, 64 KiB; duplicate and conflicting route lists; "
                "listen addresses; zero/negative/huge timeouts; header maps with invalid keys/values; wildcard prefixes; composite "
                "configurations with nil/empty entry lists; CONSTRUCTION CHAINS: every With* option in any order, WithConfigCopy "
                "of an earlier product combined with other routes / addresses / timeouts, copies of copies, nil arguments, the "
                "product handed over through WithConfig or a callback, every product also compared field by field with the "
                "model's new_config) + PRNG-generated route lists and construction chains, each delivered at construction and at "
                "reload time, each in its own child process; distinct = distinct case descriptions (%d), non-trivial = accepted by "
                "the constructors" % len(distinct),
        "samples": samples,
        "traces_validated_against_impl": stats.get("cr", 0),
        "exhaustive": False,
        "input_distribution": {"by_kind": kinds, "by_outcome": outcomes, "oracle_panics_observed_as_crash": stats.get("cr_findings", 0)},
        "model_validated_flag": stats.get("validated", 0),
        "newconfig_steps_compared_with_model": stats.get("nc", 0),
        "newconfig_steps_with_a_copy": stats.get("nc_copies", 0),
        "newconfig_steps_rejected": stats.get("nc_rejected", 0),
    })
    run.assumptions += ["ServeMux.Handle is a deterministic function of the sequence of patterns registered on a fresh mux",
                        "the model cannot exhibit panics inside net/http, user handlers or middlewares other than through the mux oracle; "
                        "the child-process run is what would reveal them",
                        "a nil Runnable inside a composite entry is outside the property's grammar (empty entry lists are inside)"]


def replay(path):
    rp = json.load(open(path))
    case = rp["replay"].get("case")
    if not case:
        print("replay names a broken obligation, not an input:", rp.get("what"))
        return 1
    okb, log = C.go_build(GO)
    oko, log2 = C.ocaml_build(OCAML)
    if not (okb and oko):
        print(log, log2)
        return 1
    with tempfile.NamedTemporaryFile("w", suffix=".json", delete=False) as f:
        json.dump(case, f)
    det = f.name + ".detail"
    rc, lines = H.harness(["-family", "crash", "-case", f.name, "-detail", det])
    os.unlink(f.name)
    mism, find, acc, stats, ok, err = H.model(lines)
    print("\n".join(lines + mism + find))
    if os.path.exists(det):
        for l in open(det):
            d = json.loads(l)
            print("observed:", d["observed"], "|", (d.get("detail") or "")[:300])
            if d.get("stack"):
                print(d["stack"][:1500])
        os.unlink(det)
    if mism or find or rc != 0 or not ok:
        print("VIOLATION property=C19 replay=%s" % path)
        return 1
    return 0
