"""Shared driver for the supervisor properties C01-C06, C18 (check B: trace acceptance)."""
import concurrent.futures as cf
import json
import os
import re
import subprocess
from . import common as C

ALL_IDS = ("C01", "C02", "C03", "C04", "C05", "C06", "C18")
OCAML = ["sup"]
GO = ["sup"]
MODEL_FILES = ["lib/LTS.v", "model/Supervisor.v", "model/SupAccept.v", "model/SupProps.v"]

# which property's check owns a rejection, by the kind of the rejecting event
OWNER = {
    "StopCall": {"C01", "C02"}, "StopRet": {"C01", "C02"},
    "RunCall": {"C03", "C01"}, "Poll": {"C03"},
    "RunReturn": {"C04", "C02"},
    "ReloadCall": {"C05"}, "ReloadRet": {"C05"},
    "SubRecv": {"C06"}, "SubClosed": {"C06", "C18"}, "Subscribe": {"C06"}, "SubCancel": {"C06"},
    "RunRet": {"C01", "C04"},
    "Crash": set(ALL_IDS), "Watchdog": {"C02"}, "Overdue": {"C02"}, "StartupOverdue": {"C03"},
}
# real-time verdicts of the harness that may be produced by a stalled machine: they count only if the same
# scenario, re-run ALONE, gives the same verdict again (twice)
TIMED_KINDS = {"StartupOverdue"}
SNAPDIAG_OWNER = {"1": {"C02", "C05", "C06", "C18"}, "2": {"C02"}, "3": {"C06"}, "4": {"C02", "C04"}, "5": {"C18"}}
PROP_OF_MONITOR = {"C01.order": "C01", "C01.exactly_once": "C01", "C01.not_before": "C01", "C03.gate": "C03", "C03.pending": "C03", "C01.cancel_after": "C01", "C03.once": "C03", "C04.nil": "C04", "C04.reports": "C04",
                   "C04": "C04", "C04.cause": "C04", "C05.shape": "C05", "C05.no_dup": "C05", "C05.lower": "C05", "C06": "C06", "C06.final": "C06", "C06.sub_entry": "C06",
                   "C18.final": "C18", "C18.bounded": "C18"}
# monitors whose failures have one canonical key (a specific, documented defect shape)
CANON_KEY = {"C06.final": "monitor-overwrites-final-state"}
ALL = {"C01", "C02", "C03", "C04", "C05", "C06", "C18"}


def split_scenarios(txt):
    return [s + "END\n" for s in txt.split("END\n") if s.strip()]


def run_model(scenarios, shards):
    shards = max(1, min(shards, len(scenarios)))
    chunks = ["".join(scenarios[i::shards]) for i in range(shards)]

    def one(chunk):
        p = subprocess.run([os.path.join(C.BIN, "sup_model")], input=chunk.encode(), stdout=subprocess.PIPE,
                           timeout=1500)
        return p.stdout.decode()
    outs = []
    with cf.ThreadPoolExecutor(shards) as ex:
        outs = list(ex.map(one, chunks))
    lines, tot = [], {}
    for out in outs:
        if "SUMMARY" not in out:
            lines.append("MISMATCH special driver-crashed :: " + out[-300:].replace("\n", " "))
        for l in out.splitlines():
            if l.startswith(("MISMATCH", "PROPFAIL")):
                lines.append(l)
            elif l.startswith("SUMMARY"):
                for kv in l.split()[1:]:
                    k, v = kv.split("=")
                    tot[k] = tot.get(k, 0) + int(v)
    return lines, tot


def owners_of(line):
    """Properties that own a MISMATCH line."""
    m = re.search(r"event=EV (\w+)", line)
    if line.startswith("MISMATCH special"):
        m2 = re.search(r":: EV (\w+)", line)
        kind = m2.group(1) if m2 else "?"
        return OWNER.get(kind, ALL), kind
    kind = m.group(1) if m else "?"
    if kind == "Snap":
        d = re.search(r"snapdiag=(\d)", line)
        return SNAPDIAG_OWNER.get(d.group(1) if d else "1", ALL), "Snap/" + (d.group(1) if d else "?")
    if kind == "Ret":
        if "Ret" in line and "ReloadAll" in line.split("event=")[1]:
            return {"C05"}, kind
        if "Shutdown" in line.split("event=")[1]:
            return {"C02"}, kind
        return {"C04", "C02"}, kind
    if kind == "Quiet":
        return ALL, kind
    return OWNER.get(kind, ALL), kind


def hang_key(txt):
    """Canonical key of a hang (the harness's real-time 'Overdue' verdict) whose SHAPE is a recorded finding of
    C02, computed from the scenario's own header and event log; None for every other shape.
      shutdown-before-run-blocks-forever: a Stop() that was called and never returned, on a runnable with a
        lifecycle-style Stop whose Run was never invoked, in a scenario in which no Run at all was invoked and
        the Shutdown() call was logged before Run() was called (or Run() was never called);
      never-returning-run-blocks-stop-forever: a Stop() that was called and never returned, on a runnable with a
        lifecycle-style Stop whose Run was invoked, is declared never-returning, and has not returned."""
    lines = txt.splitlines()
    if not lines:
        return None
    m = re.search(r"caps=(\S*)", lines[0])
    caps = m.group(1).split(",") if m and m.group(1) else []
    evs = [l[3:] for l in lines if l.startswith("EV ")]
    pos = {}
    for k, e in enumerate(evs):
        pos.setdefault(e, k)
    sd_calls = [k for k, e in enumerate(evs) if re.match(r"Call \d+ Shutdown$", e)]
    any_run = any(e.startswith("RunCall ") for e in evs)
    for i, c in enumerate(caps):
        if len(c) < 6 or c[4] != "1":
            continue                      # not a lifecycle-style Stop
        if "StopCall %d" % i not in pos or "StopRet %d" % i in pos:
            continue                      # its Stop() is not the one that hangs
        ran = "RunCall %d" % i in pos
        if (not ran and not any_run and sd_calls and sd_calls[0] < pos["StopCall %d" % i]
                and ("RunEnter" not in pos or sd_calls[0] < pos["RunEnter"])):
            return "shutdown-before-run-blocks-forever"
        if ran and c[5] == "n" and not any(e.startswith("RunRet %d " % i) for e in evs):
            return "never-returning-run-blocks-stop-forever"
    return None


def scn_of(line):
    m = re.search(r"SCN (\d+) family=(\w+)", line)
    return (m.group(1), m.group(2)) if m else ("0", "mixed")


def scenario_text(scens, seed, fam=None):
    for s in scens:
        if s.startswith("SCN %s " % seed) and (fam is None or s.startswith("SCN %s family=%s " % (seed, fam))):
            return s
    return ""


def run_property(run, pid, families, prop_file, proof_files, n_quick=210, n_thorough=6000, claim_monitors=()):
    C.proof_leg(run, prop_file, list(proof_files) + MODEL_FILES, trusted_extra=[
        "the supervisor model coq/model/Supervisor.v is hand-written; it is tied to supervisor/*.go by trace acceptance "
        "(lib/LTS.v accept_from, proved sound: every accepted trace is the observable trace of a model schedule)",
        "child runnables are an environment constrained by contracts (stop style, run-exit style); the harness mocks "
        "implement the same contracts; slog output and os/signal delivery are not modelled",
        "extraction via ExtrOcamlBasic only; OCaml driver ocaml/sup.ml; Go harness cmd/sup + internal/director",
    ])
    okb, log = C.go_build(GO)
    if not okb:
        run.violation("build-go", {"log": log[-3000:]}, "harness does not build against /repo", True)
        return
    oko, log = C.ocaml_build(OCAML)
    if not oko:
        run.violation("build-ocaml", {"log": log[-3000:]}, "model driver does not build", True)
        return
    n = n_quick if run.tier == "quick" else n_thorough
    scens = []
    corpus = os.path.join(C.VERIF, "corpus", "sup", "scenarios.txt")
    corpus_ids = []
    if os.path.exists(corpus):
        for l in open(corpus):
            t = l.split()
            if len(t) >= 2 and not l.startswith("#"):
                corpus_ids.append((t[0], t[1]))
    supbin = os.path.join(C.BIN, "sup")
    expected, harness_rc = 0, []
    for seed, fam in corpus_ids:
        rc, out = C.sh([supbin, "-child", "-seed", seed, "-family", fam], timeout=60)
        expected += 1
        if rc != 0:
            harness_rc.append(("corpus %s/%s" % (fam, seed), rc, out[-300:]))
        scens += split_scenarios(out)
    per = max(1, n // len(families))
    for k, fam in enumerate(families):
        rc, out = C.sh([supbin, "-n", str(per), "-seed", str(run.seed * 1000 + k * 7 + sum(map(ord, pid)) % 97), "-family", fam,
                        "-par", str(C.NPROC)], timeout=3000)
        expected += per
        if rc != 0:
            harness_rc.append(("family %s" % fam, rc, out[-300:]))
        scens += split_scenarios(out)
    # a harness that exits non-zero or produces (almost) nothing is not a pass: zero scenarios would otherwise be
    # zero disagreements
    if harness_rc or len(scens) * 2 < expected:
        run.violation("harness-failed", {"expected_scenarios": expected, "produced": len(scens), "nonzero_exits": harness_rc},
                      "the supervisor harness build/bin/sup %s: the correspondence of %s was not checked" % (
                          "exited non-zero (%s)" % ", ".join("%s: rc=%s" % (w, r) for w, r, _ in harness_rc) if harness_rc
                          else "produced %d of the %d expected scenarios" % (len(scens), expected), pid),
                      no_input_found=True)
    lines, tot = run_model(scens, C.NPROC)
    mine_rej, other_rej = 0, 0
    seen = set()
    hangs = {}
    for l in lines:
        seed, fam = scn_of(l)
        txt = scenario_text(scens, seed, fam)
        payload = {"seed": seed, "family": fam, "driver_line": l, "trace": txt.splitlines()[:400],
                   "how": "build/bin/sup -child -seed %s -family %s | build/bin/sup_model" % (seed, fam)}
        if l.startswith("PROPFAIL"):
            mon = l.split()[1]
            if PROP_OF_MONITOR.get(mon) != pid:
                continue
            key = CANON_KEY.get(mon, "%s:%s:%s" % (mon, fam, seed))
            run.violation(key, payload, "%s fails on the implementation's observed trace (scenario %s/%s)" % (mon, fam, seed))
        else:
            owners, kind = owners_of(l)
            # Run()'s result after an ABORTED start-up (fewer Run invocations than runnables) is also C03's
            # business ("... and Run() returns that error"), not only C04's
            mn = re.search(r" n=(\d+) ", l)
            if kind == "RunReturn" and mn and txt.count("\nEV RunCall ") < int(mn.group(1)):
                owners = set(owners) | {"C03"}
            if pid not in owners:
                other_rej += 1
                continue
            mine_rej += 1
            if (seed, fam, kind) in seen:
                continue
            seen.add((seed, fam, kind))
            # a rejected trace on which one of this property's own monitors fails is reported with that input;
            # otherwise only the correspondence is broken
            own_fail = [x for x in lines if x.startswith("PROPFAIL") and scn_of(x) == (seed, fam)
                        and PROP_OF_MONITOR.get(x.split()[1]) == pid]
            crash = "Crash" in l or "Watchdog" in l or "Overdue" in l   # (StartupOverdue included)
            # C02 is the progress property: the model rejects a Quiet event exactly when every model state
            # consistent with the trace still has a mandatory step enabled, i.e. the implementation is
            # observed blocked where the proved progress theorems say it must move: that scenario is the failing input
            stuck = pid == "C02" and kind in ("Quiet", "NoQuiesce")
            # C18: a snapshot rejected on the census alone with MORE library goroutines than any compatible model
            # state has: a goroutine that theorems C18_sup_* say cannot exist after this history - the scenario is the input
            mm = re.search(r"census_impl=(\d+) census_model_max=(\d+)", l)
            leak = pid == "C18" and mm is not None and int(mm.group(1)) > int(mm.group(2))
            if own_fail:
                continue  # reported above with the failing input
            key = "corr:%s:%s:%s" % (kind, fam, seed)
            if kind in TIMED_KINDS:
                again = 0
                for _ in range(2):
                    rc2, out2 = C.sh([supbin, "-child", "-seed", seed, "-family", fam], timeout=60)
                    again += 1 if ("EV " + kind) in out2 else 0
                payload["reproduced_alone"] = "%d/2" % again
                if again < 2:
                    run.notes.append("timed verdict %s of scenario %s/%s did not reproduce alone (%d/2): discarded" % (kind, fam, seed, again))
                    mine_rej -= 1
                    continue
            if pid == "C02" and kind == "Overdue":
                # a hang: known finding iff its shape (computed from the scenario itself) is a recorded one AND
                # the model - which is faithful to the defect - accepted everything else of the trace
                hk = hang_key(txt)
                rejected = [x for x in lines if x.startswith("MISMATCH reject") and scn_of(x) == (seed, fam)]
                if hk and not rejected:
                    key = hk
                    hangs[hk] = hangs.get(hk, 0) + 1
            run.violation(key,
                          dict(payload, theorem="correspondence B: accept_from (lib/LTS.v) on coq/model/Supervisor.v rejected "
                               "the implementation's trace at the given event"),
                          "implementation trace rejected by the supervisor model at a %s event (scenario %s/%s)%s" % (
                              kind, fam, seed,
                              " - real-time verdict of the harness, reproduced 2/2 when re-run alone" if kind in TIMED_KINDS else
                              " - process crashed / hung" if crash else
                              " - implementation blocked where the model must progress" if stuck else
                              " - %s library goroutines observed, the model allows at most %s here" % mm.groups() if leak else ""),
                          no_input_found=not (crash or stuck or leak))
    cov = run.coverage
    samples = []
    for s in scens[:2]:
        samples.append(s.splitlines()[:25])
    kinds = {k[3:]: v for k, v in tot.items() if k.startswith("ev_")}
    cov.update({
        "evaluations": tot.get("scenarios", 0),
        "distinct_nontrivial": len({s.split("\n", 1)[0] + str(hash(s)) for s in scens if s.count("\nEV ") >= 8}),
        "rule": "scenarios = seeded adaptive director scripts (families %s) against the real supervisor with contract mocks, "
                "one child process each; non-trivial = at least 8 observed events; distinct by full event log" % ",".join(families),
        "samples": samples,
        "traces_validated_against_impl": tot.get("accepted", 0),
        "events": tot.get("events", 0),
        "snapshots": tot.get("snaps", 0),
        "event_kinds": kinds,
        "families": {k[4:]: v for k, v in tot.items() if k.startswith("fam_")},
        "acceptor_inconclusive": tot.get("inconclusive", 0),
        "rejections_owned": mine_rej,
        "rejections_owned_by_other_properties": other_rej,
        "monitor_failures": {k[3:]: v for k, v in tot.items() if k.startswith("pf_")},
    })
    if pid == "C02":
        cov["known_hang_shapes_exhibited"] = hangs
        # the witnesses of the recorded findings are replayed on every run: say so when they stop showing
        for fam, key in (("shutdownfirst", "shutdown-before-run-blocks-forever"),
                         ("neverreturn", "never-returning-run-blocks-stop-forever")):
            if fam in families and any(f["key"] == key for f in run.findings) and not hangs.get(key):
                ran = [x for x in scens if (" family=%s " % fam) in x.split("\n", 1)[0]]
                if ran:
                    run.notes.append("known finding %s: %d scenarios of family %s ran and none exhibited it - the entry "
                                     "in known_findings.txt may be stale" % (key, len(ran), fam))
    # an inconclusive verdict (the acceptor's closure ran out of fuel: SUP_FUEL, default 2500 steps per event) is
    # neither acceptance nor rejection; fuel is counted in closure steps, not in time, so the rate does not depend on
    # the load of the machine (0 - 0.5 % on the unchanged tree over the runs measured); a change that blows the
    # frontier must not turn into silent non-coverage
    inc, nsc = tot.get("inconclusive", 0), tot.get("scenarios", 0)
    cov["acceptor_inconclusive_rate"] = round(inc / nsc, 4) if nsc else None
    if inc > max(5, 0.05 * nsc):
        run.violation("acceptor-inconclusive", {"inconclusive": inc, "scenarios": nsc},
                      "the trace acceptor was inconclusive (out of fuel) on %d of %d scenarios (> 5 %%): the model's "
                      "tau-closure no longer fits the budget, these traces were neither accepted nor rejected" % (inc, nsc),
                      no_input_found=True)
    if nsc < len(scens):
        run.violation("harness-failed", {"scenarios_given": len(scens), "scenarios_evaluated": nsc},
                      "the model driver evaluated %d of the %d scenarios the harness produced" % (nsc, len(scens)),
                      no_input_found=True)
    run.assumptions += ["quiescence is detected from runtime.Stack statuses of all goroutines",
                        "a mutex-ordered event log is a linearisation consistent with real-time order at the mock/API boundary"]


def replay(pid, path):
    rp = json.load(open(path))
    r = rp.get("replay", {})
    seed, fam = r.get("seed"), r.get("family")
    if not seed:
        print("replay names a broken obligation, not a scenario:", rp.get("what"))
        return 1
    okb, log = C.go_build(GO)
    oko, log2 = C.ocaml_build(OCAML)
    if not (okb and oko):
        print(log, log2)
        return 1
    bad = 0
    for _ in range(5):
        rc, out = C.sh("%s -child -seed %s -family %s | %s" % (os.path.join(C.BIN, "sup"), seed, fam,
                                                           os.path.join(C.BIN, "sup_model")), timeout=120)
        # only disagreements this property owns count (the same rule as in run_property)
        mine = []
        for l in out.splitlines():
            if l.startswith("PROPFAIL") and PROP_OF_MONITOR.get(l.split()[1]) == pid:
                mine.append(l)
            elif l.startswith("MISMATCH"):
                owners, kind = owners_of(l)
                mn = re.search(r" n=(\d+) ", l)
                if kind == "RunReturn" and mn and out.count("RunCall") < int(mn.group(1)):
                    owners = set(owners) | {"C03"}
                if pid in owners:
                    mine.append(l)
        if mine:
            bad += 1
            print("\n".join(mine))
    if bad:
        print("VIOLATION property=%s replay=%s" % (pid, path))
        return 1
    print("scenario %s/%s: accepted 5/5 times, all monitors hold" % (fam, seed))
    return 0
