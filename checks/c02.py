"""C02 — supervisor; see DESIGN.md section 6.  Proof: props/C02.v.  Tie: trace acceptance (check B)."""
from . import supcommon as S

OCAML = S.OCAML
GO = S.GO
FAMILIES = "timeout,startup,sdsender,mixed,gatefail,errs,earlyshutdown,slowstop,shutdownfirst,neverreturn,lateerr".split(",")
PROP = "props/C02.v"
PROOFS = ["proofs/SupInv.v", "proofs/SupStop.v", "proofs/SupTrig.v", "proofs/SupGate.v", "proofs/SupOnce.v", "proofs/SupReload.v", "proofs/SupCensus.v", "proofs/SupProgress.v", "proofs/SupMeasure.v"]


def run(run):
    S.run_property(run, "C02", FAMILIES, PROP, PROOFS)


def replay(path):
    return S.replay("C02", path)
