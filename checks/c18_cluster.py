"""C18, HTTP cluster leg - no goroutine of runnables/httpcluster outlives a clean stop; config
updates / restarts / failed starts do not accumulate goroutines.

Proof: props/C18.v (C18_cluster_*) over model/ClusterGo.v (census on top of the C16 protocol model
ClusterLTS.v), proofs/ClusterCensus.v.
Tie: the real Runner with mock servers (harness cmd/cluster -census): at quiescent points and after
Run returned the goroutine dump (runtime.Stack) is classified (Run / stopServers helpers /
createAndStartServer goroutines / harness API callers / unknown) and logged as a G: token; the
extracted acceptor (ocaml/c18cluster.ml, LTS.accept_from over ClusterGo.gstep) accepts the G: token
only in a settled model state whose census has exactly those numbers.  Independently of the model the
property's predicates are evaluated on the implementation's observables (leak after return, unknown
goroutine, bound exceeded)."""
import hashlib
import json
import os
import subprocess
import tempfile
import time
from . import common as C

OCAML = ["c18cluster"]
GO = ["cluster"]
FILES = ["model/ClusterGo.v", "proofs/ClusterCensus.v"]
HOOK = "runnables/httpcluster/verif_export.go"
CORPUS = os.path.join(C.VERIF, "corpus", "C18", "cluster.txt")


def h8(s):
    return hashlib.sha1(s.encode()).hexdigest()[:8]


def run_batch(args, timeout):
    rc, out = C.sh([os.path.join(C.BIN, "cluster"), "-mode", "runner-batch", "-census"] + args, timeout=timeout)
    scripts, traces, problems, unknown = {}, {}, {}, {}
    for l in out.splitlines():
        if l.startswith("SCRIPT "):
            _, name, sc = l.split(" ", 2)
            scripts[name] = sc
        elif l.startswith("T "):
            t = l.split(" ")
            traces[t[1]] = (t[2], t[3:])
        elif l.startswith("UNKNOWN "):
            _, name, rest = (l.split(" ", 2) + [""])[:3]
            unknown[name] = rest[:1500]
        elif l.startswith(("HANG ", "CRASH ", "SETUPFAIL ")):
            kind, name, rest = (l.split(" ", 2) + [""])[:3]
            problems[name] = (kind, rest[:1500])
    return scripts, traces, problems, unknown


def model(traces, fuel=20000):
    inp = "".join("T %s %s %s\n" % (n, d, " ".join(toks)) for n, (d, toks) in traces.items())
    p = subprocess.run([os.path.join(C.BIN, "c18cluster_model"), str(fuel)], input=inp.encode(),
                       stdout=subprocess.PIPE, timeout=3000)
    verdict, propfail, modelprop, summ = {}, {}, {}, {}
    for l in p.stdout.decode().splitlines():
        t = l.split(" ")
        if t[0] in ("ACCEPT", "REJECT", "INCONCLUSIVE", "BADTRACE", "DISCARD"):
            verdict[t[1]] = (t[0], " ".join(t[2:]))
        elif t[0] == "PROPFAIL":
            propfail.setdefault(t[1], []).append((t[2], " ".join(t[3:])))
        elif t[0] == "MODELPROP":
            modelprop.setdefault(t[1], []).append(t[2])
        elif t[0] == "SUMMARY":
            summ = dict(kv.split("=") for kv in t[1:])
    return verdict, propfail, modelprop, summ, p.returncode == 0 and bool(summ)


def leak_shape(detail):
    """canonical shape of a census token: which classes are non-zero."""
    tok = detail.split(" ")[0]
    try:
        m, h, r, api, unk = [int(x) for x in tok[2:].split(",")]
    except ValueError:
        return "?"
    names = [n for n, v in (("run", m), ("helpers", h), ("servers", r), ("api", api), ("unknown", unk)) if v]
    return "+".join(names) or "none"


def one_leg(run, args, stats, samples, timeout=1500):
    scripts, traces, problems, unknown = run_batch(args, timeout)
    verdict, propfail, modelprop, summ, ok = model(traces)
    if not ok:
        run.violation("cluster:harness-failed", {"args": args}, "C18 cluster census driver failed to run", True)
        return
    rejected = [n for n, (v, _) in verdict.items() if v in ("REJECT", "BADTRACE") and n not in propfail]
    confirmed = {}
    for n in rejected[:20]:
        again = 0
        for _ in range(2):
            with tempfile.NamedTemporaryFile("w", suffix=".txt", delete=False) as f:
                f.write(scripts[n] + "\n")
            s2, t2, p2, _ = run_batch(["-file", f.name, "-jobs", "1"], 120)
            os.unlink(f.name)
            v2, pf2, _, _, _ = model(t2)
            if any(v[0] in ("REJECT", "BADTRACE") for v in v2.values()) or p2 or pf2:
                again += 1
        confirmed[n] = again
    for k in ("accepted", "rejected", "inconclusive", "discarded", "events", "snaps", "after_return", "modelprop"):
        stats[k] = stats.get(k, 0) + int(summ.get(k, 0))
    stats["scenarios"] = stats.get("scenarios", 0) + len(scripts)
    stats["maxcensus"] = max(stats.get("maxcensus", 0), int(summ.get("maxcensus", 0)))
    ops = stats.setdefault("op_distribution", {})
    for k, v in summ.items():
        if k.startswith("ev_"):
            ops[k[3:]] = ops.get(k[3:], 0) + int(v)
    stats.setdefault("distinct", set())
    for name, sc in scripts.items():
        if name in problems:
            kind, rest = problems[name]
            run.violation("cluster:runner-%s:%s" % (kind.lower(), h8(sc)),
                          {"kind": "c18-cluster", "script": sc, "detail": rest},
                          "scenario %s: %s" % (kind, "Run() did not return within 6 s after a shutdown trigger and "
                                               "release of every server" if kind == "HANG" else "child process failed"))
        if name not in traces:
            continue
        d, toks = traces[name]
        stats["distinct"].add(" ".join(toks))
        v, info = verdict.get(name, ("MISSING", ""))
        payload = {"kind": "c18-cluster", "script": sc, "trace": " ".join(toks), "acceptor": v + " " + info,
                   "how": "build/bin/cluster -mode runner -census -script '<script>' | build/bin/c18cluster_model"}
        if name in unknown:
            payload["unknown_goroutines"] = unknown[name]
        pf = propfail.get(name)
        if pf:
            pred, detail = pf[0]
            payload["property_failures"] = ["%s %s" % x for x in pf]
            text = {"leak-after-return": "goroutines remain after Run() returned and the system is quiescent: ",
                    "unknown-goroutine": "a goroutine that no part of the cluster model accounts for is alive: ",
                    "bound-exceeded": "more goroutines than 1 + 2 x (servers started and not stopped) + owed: "}.get(pred, pred + ": ")
            shape = {"unknown-goroutine": "unknown", "bound-exceeded": "census"}.get(pred) or leak_shape(detail)
            key = "cluster:%s:%s" % (pred, shape)
            seen = stats.setdefault("reported", {})
            seen[key] = seen.get(key, 0) + 1
            if seen[key] <= 3:  # the same shape is recorded at most three times per run
                run.violation(key, payload,
                              "httpcluster: " + text + detail + (" [" + unknown[name] + "]" if name in unknown else ""))
        elif name in modelprop:
            run.violation("cluster:theorem-instance:" + modelprop[name][0], dict(payload, theorem="C18_cluster_" + modelprop[name][0]),
                          "an accepted model state contradicts a proved C18 cluster predicate (extraction / driver fault)", True)
        elif v in ("REJECT", "BADTRACE", "MISSING"):
            if confirmed.get(name, 2) >= 1:
                run.violation("cluster:corr:" + h8(sc),
                              dict(payload, theorem="correspondence B (ClusterGo census acceptor)", reruns_rejected=confirmed.get(name)),
                              "the runner produced a trace / goroutine census the census model cannot produce (%s)" % info, True)
            else:
                stats["flaky_rejects"] = stats.get("flaky_rejects", 0) + 1
        if len(samples) < 3 and v == "ACCEPT":
            samples.append({"script": sc, "trace": " ".join(toks)})


def proofs_ok(run):
    ok, log, failed = C.coq_build()
    missing = [f for f in FILES + ["props/C18.v"] if not os.path.exists(os.path.join(C.COQ, f + "o"))]
    bad = sorted(set([f for f in failed if f in FILES or f == "props/C18.v"] + missing))
    if bad:
        run.violation("cluster:proof-broken:" + ",".join(bad), {"failed_files": bad, "log_tail": log[-2000:]},
                      "Coq build failed: the C18 cluster theorems are no longer checked (%s)" % ", ".join(bad), True)
        return False
    return True


def builds_ok(run):
    okb, log = C.go_build(GO)
    if not okb:
        if not os.path.exists(os.path.join(C.REPO, HOOK)):
            run.violation("cluster:hook-missing:" + HOOK, {"log": log[-2000:], "hook": HOOK, "patch": "hooks/c16-export.patch"},
                          "the verif export hook %s is not in the repository (apply hooks/c16-export.patch)" % HOOK, True)
        else:
            run.violation("cluster:build-go", {"log": log[-3000:]}, "harness does not build against the repository", True)
        return False
    oko, log = C.ocaml_build(OCAML)
    if not oko:
        run.violation("cluster:build-ocaml", {"log": log[-3000:]}, "census model driver does not build", True)
        return False
    return True


def leg(run):
    t0 = time.time()
    cov = run.coverage.setdefault("cluster_leg", {})
    if not proofs_ok(run) or not builds_ok(run):
        return
    st, qed = C.count_obligations(FILES)
    cov["proof_files"] = FILES
    cov["lemmas"] = st
    quick = run.tier == "quick"
    stats, samples = {}, []
    jobs = str(min(C.NPROC, 12))
    if os.path.exists(CORPUS):
        one_leg(run, ["-file", CORPUS, "-jobs", "4"], stats, samples)
    plan = ([("census", 130), ("censuslong", 16), ("mixed", 60), ("collision", 24), ("delay", 16), ("wait", 16)] if quick else
            [("census", 3000), ("censuslong", 400), ("mixed", 1500), ("settled", 500), ("collision", 500), ("delay", 300), ("wait", 300)])
    for k, (fam, n) in enumerate(plan):
        n = run.scaled(n) if quick else n       # anchor drift: escalated budget
        done = 0
        while done < n:
            m = min(600, n - done)
            one_leg(run, ["-family", fam, "-n", str(m), "-seed", str(run.seed * 1000 + 31 * k + done // 600), "-jobs", jobs],
                    stats, samples)
            done += m
    distinct = len(stats.pop("distinct", set()))
    if stats.get("reported"):
        cov["violations_by_shape"] = stats["reported"]
    cov.update({
        "scenarios": stats.get("scenarios", 0),
        "distinct_traces": distinct,
        "traces_accepted": stats.get("accepted", 0),
        "snapshots_compared": stats.get("snaps", 0),
        "census_after_run_returned": stats.get("after_return", 0),
        "max_census_seen": stats.get("maxcensus", 0),
        "events": stats.get("events", 0),
        "op_distribution": stats.get("op_distribution", {}),
        "inconclusive": stats.get("inconclusive", 0),
        "timing_stalls_discarded": stats.get("discarded", 0),
        "flaky_rejects": stats.get("flaky_rejects", 0),
        "families": dict(plan),
        "samples": samples,
        "rule": "scenario = PRNG script (config-map bursts over 1-3 ids with the same id's configuration changing again and "
                "again, factory errors, never-ready / error-state servers, slow stops left blocked across a census, then "
                "Stop / cancel / close) against the real httpcluster.Runner with contract mock servers, one child process "
                "each; snapshot = G: token (goroutine dump classified by the functions on each stack) taken when two "
                "consecutive dumps agree with no event in between; compared by the extracted census acceptor",
        "wall_s": round(time.time() - t0, 1),
    })
    run.assumptions += [
        "cluster leg: a server honours the Runnable contract (Run returns once Stop() returned or its context is cancelled); "
        "the mocks do",
        "cluster leg: goroutines are classified by function names on their stacks (createAndStartServer.func1, "
        "stopServers.func1, (*Runner).Run); a goroutine of the module or of go-fsm that matches no class is reported",
    ]


def replay_payload(pl, path):
    run = C.Run("C18", "replay", 1)
    if not builds_ok(run):
        print("cannot build the harness:", [v[3] for v in run.violations])
        return 1
    with tempfile.NamedTemporaryFile("w", suffix=".txt", delete=False) as f:
        f.write((pl["script"] + "\n") * 5)
    scripts, traces, problems, unknown = run_batch(["-file", f.name, "-jobs", "2"], 300)
    os.unlink(f.name)
    verdict, propfail, modelprop, summ, ok = model(traces)
    failed = 0
    for n, (d, toks) in sorted(traces.items()):
        v = verdict.get(n, ("MISSING", ""))
        pf = propfail.get(n, [])
        print(n, v[0], v[1], "|", "; ".join("%s %s" % x for x in pf) or "property holds on this trace")
        if pf or v[0] not in ("ACCEPT", "DISCARD"):
            failed += 1
            print("   trace:", " ".join(toks))
            if n in unknown:
                print("   unknown goroutines:", unknown[n])
    for n, p in problems.items():
        print(n, p)
        failed += 1
    if failed:
        print("VIOLATION property=C18 replay=%s (%d of %d runs)" % (path, failed, len(scripts)))
        return 1
    print("the recorded scenario no longer fails (5 runs)")
    return 0
