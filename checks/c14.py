"""C14 — HTTP server: graceful drain is honoured and bounded by DrainTimeout (partial).
Proof: props/C14.v (timed model HttpDrain.v).  Tie: real http.Server, real clock; the outcome of every scenario is
checked by the extracted HttpDrain.drain_check.  This is the only check that compares wall-clock durations."""
import json
import os
import tempfile
from . import common as C
from . import httplib as H

OCAML = H.OCAML
GO = H.GO
PROP = "props/C14.v"
PROOFS = list(dict.fromkeys(["proofs/HttpDrainProofs.v", "proofs/HttpComposeProofs.v", "proofs/HttpProgress.v", "model/HttpCompose.v",
                             "model/HttpDrain.v", "lib/LTS.v"] + H.PROTO_PROOFS + H.MODEL_FILES))
HOW = "build/bin/http -family drain -case <file with the case JSON> | build/bin/http_model"


def shape(c):
    """Canonical key part of a drain case: trigger, drain, request classes relative to the drain."""
    dr = c.get("new_drain_ms") or c["drain_ms"]
    cls = []
    for d in c.get("ds") or []:
        cls.append("short" if d + 40 < dr else ("long" if d > dr + 40 else "near"))
    return "%s%s:drain=%d:%s" % (c["trigger"], "+after-reload" if c.get("pre_reload") else "", dr, "+".join(sorted(cls)) or "idle")


def run(run):
    C.proof_leg(run, PROP, PROOFS, trusted_extra=[
        "PARTIAL: net/http.Server.Shutdown is MODELLED (listener closed first; returns nil at a poll instant within "
        "[idle, idle+gap] or the context error at its deadline), not verified; handlers ignoring their context, scheduler "
        "latency and the 40 ms / 150 ms tolerance bands are assumptions of the tie",
        "extraction via ExtrOcamlBasic only; OCaml driver ocaml/http.ml + util.ml; Go harness cmd/http"])
    if not H.build(run):
        return
    det = os.path.join(C.BUILD, "c14-detail-%d.jsonl" % os.getpid())
    if run.tier == "quick":
        args = ["-family", "drain", "-mode", "quick", "-n", "20", "-j", "6", "-seed", str(run.seed), "-detail", det]
    else:
        args = ["-family", "drain", "-mode", "full", "-n", "6000", "-j", "8", "-seed", str(run.seed), "-detail", det]
    rc, lines = H.harness(args, timeout=3000)
    details = {}
    if os.path.exists(det):
        for l in open(det):
            d = json.loads(l)
            details[d["case"]["id"]] = d
        os.unlink(det)
    mism, find, acc, stats, ok, err = H.model(lines)
    if rc != 0 or not ok or stats.get("drain", 0) == 0:
        run.violation("harness-failed", {"rc": rc, "err": err, "tail": lines[-10:]}, "C14 harness or model driver failed to run", True)
        return
    # A wall-clock verdict counts only if it is reproducible: every scenario with a failing verdict is re-run alone
    # (nothing else running in this check) up to two more times; one clean re-run makes it a timing flake of the
    # loaded machine, recorded in the evidence, not a violation.  Deterministic defects fail every time.
    suspects = set()
    for l in lines:
        if (l.startswith("PROP\t") and " FAIL " in l) or l.startswith("DERR\t"):
            suspects.add(l.split("\t")[1])
    for l in mism:
        suspects.add(l.split()[2])
    flakes = []
    for cid in sorted(suspects)[:40]:
        d = details.get(cid)
        if not d:
            continue
        with tempfile.NamedTemporaryFile("w", suffix=".json", delete=False) as f:
            json.dump(d["case"], f)
        clean = False
        for _ in range(2):
            rc2, lines2 = H.harness(["-family", "drain", "-case", f.name])
            m2, _, _, _, ok2, _ = H.model(lines2)
            if rc2 == 0 and ok2 and not m2 and not any(
                    x.startswith("DERR") or (x.startswith("PROP") and " FAIL " in x) for x in lines2):
                clean = True
                break
        os.unlink(f.name)
        if clean:
            flakes.append(cid)
    if flakes:
        lines = [l for l in lines if not (len(l.split("\t")) > 1 and l.split("\t")[1] in flakes and not l.startswith("DR\t"))]
        mism = [l for l in mism if l.split()[2] not in flakes]
    failed_props = {}
    for l in lines:
        if l.startswith("PROP\t") and " FAIL " in l:
            t = l.split("\t")
            failed_props.setdefault(t[1], []).append(t[2])
        if l.startswith("DERR\t"):
            t = l.split("\t")
            d = details.get(t[1], {})
            run.violation("drain-error:" + shape(d.get("case", {"trigger": "?", "drain_ms": 0})),
                          {"case": d.get("case"), "error": t[2], "how": HOW},
                          "drain scenario %s did not run to its end: %s" % (t[1], t[2]))
    for cid, ps in failed_props.items():
        d = details.get(cid, {})
        for p in ps:
            name = p.split()[0]
            run.violation("%s:%s" % (name, shape(d["case"])), {"case": d.get("case"), "observed": d, "verdict": p, "how": HOW},
                          "drain scenario %s: %s" % (cid, p))
    for l in mism[:40]:
        cid = l.split()[2]
        if cid in failed_props:
            continue
        d = details.get(cid, {})
        run.violation("corr-drain:" + shape(d.get("case", {"trigger": "?", "drain_ms": 0})),
                      {"case": d.get("case"), "observed": d, "driver_line": l, "how": HOW,
                       "theorem": "correspondence: the observed outcome is not an outcome of model/HttpDrain.v (drain_check)"},
                      "drain scenario %s: outcome outside the model's bands: %s" % (cid, l), True)
    cal = [l for l in lines if l.startswith("CAL\t")]
    shapes = set(shape(d["case"]) for d in details.values())
    outcomes = {"ok": sum(1 for d in details.values() if d["ok"]), "timeout": sum(1 for d in details.values() if not d["ok"])}
    samples = [{"case": d["case"], "remaining_ms": d["remaining_ms"], "ok": d["ok"], "t_ms": d["t_ms"], "completed": d["completed"]}
               for d in list(details.values())[:5]]
    run.coverage.update({
        "evaluations": stats.get("drain", 0),
        "distinct_nontrivial": len(shapes),
        "rule": "grid drain in {20,60,150,300,1000} ms x triggers {Stop, context cancel, Reload with a changed configuration, the DEADLINE "
                "of Run's context expiring with requests in flight, Stop 40 ms before such a deadline} x request "
                "mixes (idle, one short, one long, several short, boundary band, mixed k=4, reload changing DrainTimeout) + PRNG "
                "cases (drain 20-300 ms, k<=4, d_i << / ~ / >> drain); distinct = distinct (trigger, drain, request classes), measured",
        "samples": samples,
        "traces_validated_against_impl": stats.get("drain", 0),
        "exhaustive": False,
        "outcomes": outcomes,
        "timing_flakes_not_reproduced": {"count": len(flakes), "cases": [details[c]["case"] for c in flakes[:5]]},
        "calibration": {"what": "Stop duration minus longest remaining request over nil outcomes (ms), measured in this run",
                        "data": cal[0].split("\t")[1] if cal else "", "band_ms": 40, "slack_ms": 150},
    })
    run.assumptions += [
        "the model cannot exhibit anything inside net/http.Server.Shutdown (connection state tracking, hijacked connections, "
        "HTTP/2) nor scheduler latency beyond the 150 ms slack",
        "a request that finishes after the last poll instant before the deadline makes Shutdown report the deadline although "
        "nothing was cut (gap of net/http's polling back-off); the model allows both outcomes there",
        "on a Reload the drain timeout applied to the OLD server is the NEW configuration's DrainTimeout (setConfig precedes "
        "stopServer); the model follows the code",
        "DrainTimeout <= 0: stopServer reports the timeout on every stop, an idle server included (context expired at creation, "
        "tested before Shutdown's result); the model follows the code (sres_allowed, C14_zero_drain_always_times_out) and the "
        "driver checks it on every DR line"]


def replay(path):
    rp = json.load(open(path))
    case = rp["replay"].get("case")
    if not case:
        print("replay names a broken obligation, not an input:", rp.get("what"))
        return 1
    okb, log = C.go_build(GO)
    oko, log2 = C.ocaml_build(OCAML)
    if not (okb and oko):
        print(log, log2)
        return 1
    with tempfile.NamedTemporaryFile("w", suffix=".json", delete=False) as f:
        json.dump(case, f)
    bad = 0
    for _ in range(3):  # timing: a replay counts as reproduced if any of three runs fails
        rc, lines = H.harness(["-family", "drain", "-case", f.name])
        mism, find, acc, stats, ok, err = H.model(lines)
        print("\n".join(lines + mism))
        if mism or rc != 0 or not ok or any(l.startswith("DERR") or (l.startswith("PROP") and " FAIL " in l) for l in lines):
            bad += 1
    os.unlink(f.name)
    if bad:
        print("VIOLATION property=C14 replay=%s" % path)
        return 1
    return 0
