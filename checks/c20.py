"""C20 — ValidatePort.  Proof: props/C20.v.  Tie: differential check A (Go impl vs extracted model)."""
import os
import subprocess
from . import common as C

OCAML = ["c20"]
GO = ["c20"]
PROP = "props/C20.v"
PROOFS = ["proofs/PortProofs.v", "proofs/PortMain.v", "model/Port.v"]


def unhex(h):
    return bytes.fromhex(h).decode("utf-8", "backslashreplace")


VM = []   # VMCASE lines of this run (sampled cases with the extracted model's outputs)


def vm_terms(vmlines):
    """The Coq side of the extraction re-validation: the INPUT is printed here from the raw hex the harness emitted
    (independently of the OCaml driver's parser); the expected side is what the driver printed."""
    terms, exp, labels = [], [], []
    for l in vmlines:
        t = l.split("\t")
        s, r = C.coq_hex(t[1]), C.coq_hex(t[2])
        terms.append("(vres_class (validate_port %s), vres_str (validate_port %s), class_pinned %s, roundtrip_okb %s %s, "
                     "split_host_port %s)" % (s, s, s, s, r, r))
        exp.append(t[3])
        labels.append("ValidatePort(%r)" % unhex(t[1]))
    return terms, exp, labels


def run_stream(args, run, stats, samples, stride=0):
    """Pipe the Go harness into the model driver; collect mismatches."""
    g = subprocess.Popen([os.path.join(C.BIN, "c20")] + args, stdout=subprocess.PIPE)
    m = subprocess.Popen([os.path.join(C.BIN, "c20_model")], stdin=g.stdout, stdout=subprocess.PIPE,
                         env=C.vm_env(run.seed, stride) if stride else None)
    g.stdout.close()
    out = m.communicate()[0].decode()
    g.wait()
    mism = []
    for line in out.splitlines():
        if line.startswith("MISMATCH"):
            mism.append(line)
        elif line.startswith("VMCASE"):
            VM.append(line)
        elif line.startswith("SUMMARY"):
            for kv in line.split()[1:]:
                k, v = kv.split("=")
                stats[k] = stats.get(k, 0) + int(v)
    if g.returncode != 0 or m.returncode != 0 or "SUMMARY" not in out:
        run.violation("harness-failed", {"args": args, "out": out[-2000:]},
                      "C20 harness or model driver failed to run", True)
    return mism


def handle_mismatches(run, mism):
    for line in mism[:200]:
        t = line.split()
        kind, hin = t[1], t[2]
        s = unhex(hin) if kind != "parse" else hin
        payload = {"input_hex": hin, "input": s, "driver_line": line,
                   "how": "build/bin/c20 -mode corpus -file <file with the hex input> | build/bin/c20_model"}
        if kind == "class":
            pinned = "pinned=true" in line
            if pinned:
                run.violation("class:" + hin, payload,
                              "ValidatePort(%r): error class differs from the one the property documents (%s)" % (s, " ".join(t[3:5])))
            else:
                run.violation("corr-class:" + hin, dict(payload, theorem="correspondence A (validate_port vs ValidatePort)"),
                              "ValidatePort(%r) disagrees with the model on an input whose class the property does not fix" % s, True)
        elif kind == "result":
            if "roundtrip_of_impl=false" in line:
                run.violation("roundtrip:" + hin, payload, "ValidatePort(%r) result does not round-trip: %s" % (s, unhex(t[3].split("=")[1])))
            else:
                run.violation("corr-result:" + hin, dict(payload, theorem="correspondence A (validate_port vs ValidatePort)"),
                              "ValidatePort(%r) result differs from the model's but round-trips" % s, True)
        elif kind == "roundtrip":
            run.violation("roundtrip:" + hin, payload, "ValidatePort(%r) result does not round-trip" % s)
        elif kind == "split":
            run.violation("corr-split:" + hin, dict(payload, theorem="correspondence A (split_host_port vs net.SplitHostPort)"),
                          "model of net.SplitHostPort disagrees with Go on ValidatePort's result", True)
        else:
            run.violation("corr-parse", payload, "unparsable harness line", True)


def run(run):
    del VM[:]
    ok = C.proof_leg(run, PROP, PROOFS, trusted_extra=[
        "hand transcriptions of net.SplitHostPort, net.JoinHostPort, strconv.Atoi (modelled; tied by the differential run)",
        "extraction via ExtrOcamlBasic only; OCaml driver ocaml/c20.ml + util.ml; Go harness cmd/c20"])
    okb, log = C.go_build(["c20"])
    if not okb:
        run.violation("build-go", {"log": log[-3000:]}, "harness does not build against /repo", True)
        return
    oko, log = C.ocaml_build(["c20"])
    if not oko:
        run.violation("build-ocaml", {"log": log[-3000:]}, "model driver does not build", True)
        return
    stats, samples = {}, []
    mism = []
    corpus = os.path.join(C.VERIF, "corpus", "C20", "inputs.txt")
    if os.path.exists(corpus):
        mism += run_stream(["-mode", "corpus", "-file", corpus], run, stats, samples, stride=1)
    n_corpus, n_vm_corpus = stats.get("n", 0), len(VM)
    # anchor drift (ValidatePort changed since the pinned tree): the quick tier takes the thorough tier's exhaustive length
    big = run.tier == "thorough" or run.escalate > 1
    length = 6 if big else 5
    shards = C.NPROC if big else 4
    import concurrent.futures as cf
    with cf.ThreadPoolExecutor(max_workers=shards) as ex:
        futs = [ex.submit(run_stream, ["-mode", "exhaustive", "-len", str(length), "-shard", str(i), "-shards", str(shards)],
                          run, stats, samples, 40000 if big else 4000) for i in range(shards)]
        for f in futs:
            mism += f.result()
    n_exh = stats.get("n", 0) - n_corpus
    nrand = run.scaled(300000) if run.tier == "quick" else 5000000     # anchor drift: escalated budget
    mism += run_stream(["-mode", "random", "-n", str(nrand), "-seed", str(run.seed)], run, stats, samples, nrand // 150)
    handle_mismatches(run, mism)
    # extraction re-validation: the whole corpus + a deterministic sample of the exhaustive and random cases, re-evaluated
    # by Coq's VM against the compiled model
    vm = VM[:n_vm_corpus] + C.vm_thin(VM[n_vm_corpus:], 300, run.seed)
    C.vm_crosscheck(run, "c20", ["Port"], *vm_terms(vm))
    # a few sample lines for the evidence
    rc, out = C.sh([os.path.join(C.BIN, "c20"), "-mode", "random", "-n", "6", "-seed", str(run.seed)])
    for l in out.splitlines():
        t = l.split("\t")
        samples.append({"input": unhex(t[0]), "class": int(t[1]), "result": unhex(t[2])})
    cov = run.coverage
    cov.update({
        "evaluations": stats.get("n", 0),
        "distinct_nontrivial": stats.get("ok", 0) + stats.get("range", 0),
        "rule": "corpus + every string over the 14-symbol alphabet {0,1,6,9,+,-,:,[,],.,%%,a,space,e-acute} up to length %d "
                "(exhaustive=%d) + %d grammar/mutation-generated strings (SplitMix64 seed); non-trivial = accepted or "
                "out-of-range (passes the syntactic checks); distinctness is exact for the exhaustive part, "
                "an over-count for the random part" % (length, n_exh, nrand),
        "samples": samples,
        "exhaustive": False,
        "input_distribution": {k: stats.get(k, 0) for k in ("ok", "empty", "invalid", "range", "pinned")},
        "mismatches": len(mism),
        "traces_validated_against_impl": stats.get("n", 0),
    })
    run.assumptions += ["model of stdlib functions tied only by differential testing",
                        "'+80'-style ports and >int64 digit strings are not fixed by the property text (class_pinned=false)"]


def replay(path):
    """Re-run the single input recorded in a replay file against the current /repo."""
    import json
    import tempfile
    rp = json.load(open(path))
    hin = rp["replay"].get("input_hex")
    if not hin:
        print("replay names a broken obligation, not an input:", rp.get("what"))
        return 1
    okb, log = C.go_build(["c20"])
    oko, log2 = C.ocaml_build(["c20"])
    if not (okb and oko):
        print(log, log2)
        return 1
    with tempfile.NamedTemporaryFile("w", suffix=".txt", delete=False) as f:
        f.write(hin + "\n")
    rc, out = C.sh("%s -mode corpus -file %s | %s" % (os.path.join(C.BIN, "c20"), f.name, os.path.join(C.BIN, "c20_model")))
    os.unlink(f.name)
    print(out)
    if "MISMATCH" in out:
        print("VIOLATION property=C20 replay=%s" % path)
        return 1
    return 0
