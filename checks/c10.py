"""C10 — composite: a child's failure always propagates.  Proof: props/C10.v.
Tie: check B (trace acceptance of failure scenarios after growth reloads) + check A (error classification)."""
from . import common as C
from . import compositelib as L

OCAML = ["composite"]
GO = ["composite"]
PROP = "props/C10.v"
PROOFS = ["proofs/CompositeC10b.v", "proofs/CompositeC10c.v", "proofs/CompositeMonLink.v", "proofs/CompositeProto.v", "proofs/CompositeProgress.v",
          "proofs/CompositeC09.v", "proofs/CompositeMeasure.v", "proofs/CompositeTrace.v", "proofs/CompositeLink2.v",
          "proofs/CompositeC10d.v"] + L.PROOFS_COMMON


def run(run):
    C.proof_leg(run, PROP, PROOFS, trusted_extra=L.TRUSTED)
    if not L.build(run):
        return
    quick = run.tier == "quick"
    fams = [("corpus:corpus/C10/growth-reload-failure.jsonl", 0, 0), ("corpus:corpus/C10/multi-failure-after-growth.jsonl", 0, 0),
            ("corpus:corpus/C10/failure-during-reload.jsonl", 0, 0), ("corpus:corpus/C10/error-on-stop.jsonl", 0, 0),
            ("failreload", 160 if quick else 4000, run.seed + 7), ("stoperr", 120 if quick else 3000, run.seed + 8),
            ("errwin", 15 if quick else 150, run.seed + 9),
            ("c10", 1300 if quick else 20000, run.seed), ("multifail", 40 if quick else 400, run.seed + 5), ("boot", 150 if quick else 2000, run.seed + 1),
            ("c11", 250 if quick else 3000, run.seed + 2)]
    results, cover, summary, scripts, traces = L.run_families(run, fams)
    cnt = L.classify(run, "C10", results, scripts, traces)
    nerr = 8000 if quick else 200000
    sa, mism = L.check_a(run, ["-mode", "errclass", "-n", nerr, "-seed", run.seed])
    for line in mism[:50]:
        t = line.split()
        kind = t[1]
        if kind in ("filter", "result"):
            run.violation("errclass-%s:%s" % (kind, t[-1]), {"driver_line": line},
                          "startRunnable's filter / Run()'s result disagrees with the property on error value %s (%s)"
                          % (t[-1], " ".join(t[2:4])))
        else:
            run.violation("corr-errclass-%s:%s" % (kind, t[-1]),
                          {"driver_line": line, "theorem": "correspondence A (is_cancel / leaves vs errors.Is)"},
                          "model of errors.Is disagrees with Go on %s" % t[-1], True)
    L.fill_coverage(run, results, cover, summary, scripts, cnt, extra_eval=sa.get("errs", 0),
                    rule="distinct = distinct (pool, initial config, director script) among accepted traces; families: "
                         "c10 (failure of every child index after 0..3 growth reloads, simultaneous failures, 11 failing and 11 benign "
                         "error shapes incl. %w chains, errors.Join, custom Unwrap, wrapped context errors), failreload (a child fails while a "
                         "Reload() is in progress: in-place reload blocked inside a sibling's ReloadWithConfig/Reload or parked on a log record, "
                         "membership-changing reload parked before/inside its stopAllRunnables, after its boot, or blocked in its drain behind the "
                         "failing child's goroutine parked before its report, a second Reload() waiting for reloadMu, Run()'s failure teardown parked "
                         "while a Reload() waits, an old child failing when the reload stops it; the state is observed while the reload is still "
                         "held and after everything settled), stoperr (1-3 children that return a real error from Run() in reaction to Stop() or "
                         "cancel, alone and racing Stop()/cancel/Reload(), Run() parked right after its select chose Stop()), errwin, boot "
                         "(Reload/Stop/cancel while booting), c11 (reload histories); check A: generated error trees depth<=6 classified by errors.Is and, for every "
                         "8th, through Run()'s result",
                    extra={"error_trees_checked": sa.get("errs", 0), "error_trees_cancel": sa.get("errs_cancel", 0),
                           "error_trees_observed_through_run": sa.get("errs_observed", 0), "check_a_mismatches": len(mism)})
    run.assumptions += ["children are environment constrained by the contract of coq/model/Composite.v",
                        "a single Run() per Runner instance"]


def replay(path):
    return L.replay("C10", path)
