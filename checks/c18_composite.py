"""C18, composite leg: no goroutine created by the composite outlives a clean termination; reloads and
restarts do not accumulate goroutines.

Proof side: coq/props/C18.v, section "composite leg" (C18_comp_clean, C18_comp_no_blocked_leftover,
C18_comp_children_bounded, C18_comp_workers_scoped; proofs/CompositeCensus.v) - checked by c18.py's
proof_leg since they live in props/C18.v.
Tie: the real census (goroutines whose creator is a function of runnables/composite, read with
runtime.Stack through harness/internal/director.CreatedByLibrary) is recorded at every quiescent
point of the composite scenarios and after Run() returned, and must be the census of some model
state compatible with the observed trace (extracted CompositeMon.kid_census / worker_census).

Called from checks/c18.py as  c18_composite.leg(run)."""
import json
from . import compositelib as L

OCAML = ["composite"]
GO = ["composite"]
PROOFS = ["proofs/CompositeCensus.v", "proofs/CompositeExact.v", "proofs/CompositeProgress.v", "proofs/CompositeC10b.v",
          "proofs/CompositeProto.v", "proofs/CompositeC09.v"] + L.PROOFS_COMMON
THEOREMS = ["C18_comp_clean", "C18_comp_no_blocked_leftover", "C18_comp_children_bounded", "C18_comp_workers_scoped"]


def leg(run):
    cov = {"theorems": THEOREMS, "proof_files": PROOFS}
    run.coverage["composite_leg"] = cov
    if not L.build(run):
        return
    quick = run.tier == "quick"
    fams = [("churn", 60 if quick else 1500, run.seed + 11), ("c11", 200 if quick else 4000, run.seed + 12),
            ("c09", 250 if quick else 5000, run.seed + 13), ("boot", 80 if quick else 1000, run.seed + 14),
            ("c10", 120 if quick else 2000, run.seed + 15), ("stale", 4, run.seed), ("errwin", 10 if quick else 100, run.seed),
            ("multifail", 10 if quick else 100, run.seed)]
    results, cover, summary, scripts, traces = L.run_families(run, fams)
    n_obs = n_cases = bad = 0
    for r in results:
        c = r.get("census", "none")
        script = scripts.get(r["id"])
        sig = L.short(L.op_sig(script)) if script else r["id"]
        payload = {"case": r["id"], "family": r["family"], "script": json.loads(script) if script else None,
                   "observed_trace": traces.get(r["id"]), "model_verdict": r,
                   "how": "build/bin/composite -mode script -file <script> | build/bin/composite_model  (field census=)"}
        if r["outcome"] in ("crashed", "timeout"):
            run.violation("composite:%s:%s:%s" % (r["outcome"], r["family"], sig), payload,
                          "composite scenario %s" % r["outcome"], True)
            continue
        if c.startswith("ok:"):
            n_cases += 1
            n_obs += int(c[3:])
            continue
        if c == "none":
            continue
        bad += 1
        kind = c.split("@")[0]
        if kind == "leak-after-run":
            run.violation("composite:leak-after-run:%s:%s" % (r["family"], sig), payload,
                          "goroutines created by the composite are still alive at final quiescence after Run() returned "
                          "(%s = real kids/workers/other vs. the most any compatible model state has) in case %s" % (c, r["id"]))
        elif kind == "excess":
            run.violation("composite:excess-goroutines:%s:%s" % (r["family"], sig), payload,
                          "at a quiescent point the composite has more goroutines of its own than any model state "
                          "compatible with the trace (%s) in case %s: goroutines accumulate" % (c, r["id"]))
        else:
            run.violation("composite:corr-census:%s" % r["family"],
                          dict(payload, theorem="correspondence: real census = census of a compatible model state"),
                          "the real goroutine census differs from every compatible model state (%s) in case %s" % (c, r["id"]), True)
    rejected = [r for r in results if r["accepted"] == "0"]
    for r in rejected[:20]:
        script = scripts.get(r["id"])
        run.violation("composite:corr-rejected:%s:%s" % (r["family"], r.get("at", "-").split("_")[0]),
                      {"case": r["id"], "script": json.loads(script) if script else None, "observed_trace": traces.get(r["id"]),
                       "model_verdict": r, "theorem": "correspondence B (trace acceptance) for the composite"},
                      "the composite model cannot produce the observed trace of case %s" % r["id"], True)
    cov.update({
        "scenarios": len(results), "scenarios_with_census": n_cases, "census_observations": n_obs,
        "census_disagreements": bad, "traces_accepted": sum(1 for r in results if r["accepted"] == "1"),
        "traces_rejected": len(rejected), "acceptor_inconclusive": sum(1 for r in results if r["accepted"] == "inc"),
        "rule": "real census = (goroutines created by (*Runner).boot, by (*Runner).stopAllRunnables, by anything else in the "
                "library) read from runtime.Stack at every quiescent snapshot (after each director step, also while a reloader is "
                "parked) and after Run() returned; must equal (kid_census, worker_census, 0) of some model state compatible with "
                "the trace so far; families churn (8-15 reloads/restarts, callback failures, failed boot + clean stop), c11, c09 "
                "(parked reloads), boot, c10 (failures), stale, errwin, multifail; scenarios with a nested real composite child "
                "are not compared",
        "samples": [{"case": r["id"], "census": r.get("census")} for r in results[:: max(1, len(results) // 5)][:5]],
    })
    run.assumptions.append("composite leg: goroutines of the finitestate broadcast forwarders (GetStateChan subscribers) are "
                           "outside the composite model; the scenarios do not subscribe")
