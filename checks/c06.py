"""C06 — supervisor; see DESIGN.md section 6.  Proof: props/C06.v.  Tie: trace acceptance (check B)."""
from . import supcommon as S

OCAML = S.OCAML
GO = S.GO
FAMILIES = "state,mixed,finalstate,latesub,subclose,subentry,timeoutfinal,slowstring,fullsub".split(",")
PROP = "props/C06.v"
PROOFS = ["proofs/SupInv.v", "proofs/SupStop.v", "proofs/SupTrig.v", "proofs/SupGate.v", "proofs/SupOnce.v", "proofs/SupReload.v", "proofs/SupState.v", "proofs/SupFinal.v", "proofs/SupSubs.v", "proofs/SupEntry.v"]


def run(run):
    S.run_property(run, "C06", FAMILIES, PROP, PROOFS)


def replay(path):
    return S.replay("C06", path)
