"""Extraction re-validation for the Config.Equal differential of C13 (check A), DESIGN 14.6.
Self-contained so that checks/c13.py needs one line: `vm_http.crosscheck_equal(run)`.

A small seeded sample of the pairs harness/cmd/http generates (all `fields` pairs are too many: a stride of them, plus
random pairs) is given to the extracted model driver build/bin/http_model TWICE, once claiming the implementation said
"equal" and once "different": exactly one of the two runs prints `MISMATCH equal impl=.. model=M spec=S nodup=D`, which
reveals the three answers the extracted code computed (go_config_equal, config_equiv, paths_nodup of both) without any
change to ocaml/http.ml.  Coq's VM then evaluates the same three functions of model/HttpCfg.v on the same pair (the
configurations are printed as Coq terms HERE, independently of the driver's parser) and must agree."""
import os
import subprocess
from . import common as C

HTTP = os.path.join(C.BIN, "http")
MODEL = os.path.join(C.BIN, "http_model")


def coq_route(s):
    n, p = s.split(":")
    return "(Build_route %s %s)" % (C.coq_hex(n), C.coq_hex(p))


def coq_cfg(s):
    a, d, r, w, i, rs = s.split(";")
    return "(Build_config %s (%s)%%Z (%s)%%Z (%s)%%Z (%s)%%Z %s)" % (
        C.coq_hex(a), int(d), int(r), int(w), int(i), C.coq_list([coq_route(x) for x in rs.split(",")] if rs else []))


def model_answers(pairs):
    """[(a, b)] -> {(a, b): (model, spec, nodup)} as computed by the extracted code."""
    inp = "".join("EQ\t%s\t%s\t%d\n" % (a, b, v) for a, b in pairs for v in (0, 1))
    p = subprocess.run([MODEL], input=inp.encode(), stdout=subprocess.PIPE, stderr=subprocess.PIPE)
    out = {}
    for l in p.stdout.decode("utf-8", "replace").splitlines():
        t = l.split("\t")
        h = t[0].split()
        if len(t) == 3 and h[:2] == ["MISMATCH", "equal"]:
            kv = dict(x.split("=") for x in h[2:])
            if (t[1], t[2]) not in out:
                out[(t[1], t[2])] = (kv["model"], kv["spec"], kv["nodup"])
    return out


def crosscheck_equal(run, want=160):
    cases = []
    for args, keep in ((["-family", "equal", "-mode", "fields"], want // 2),
                       (["-family", "equal", "-mode", "random", "-n", "400", "-seed", str(run.seed * 50 + 17)], want // 2)):
        p = subprocess.run([HTTP] + args, stdout=subprocess.PIPE, stderr=subprocess.PIPE, timeout=600)
        ls = [l.split("\t") for l in p.stdout.decode("utf-8", "replace").splitlines() if l.startswith("EQ\t")]
        cases += C.vm_thin([(t[1], t[2]) for t in ls if len(t) == 4], keep, run.seed)
    ans = model_answers(cases)
    terms, exp, labels = [], [], []
    for a, b in cases:
        if (a, b) not in ans:
            continue
        terms.append("let a := %s in let b := %s in (go_config_equal a b, config_equiv a b, paths_nodup (routes a) && paths_nodup (routes b))"
                     % (coq_cfg(a), coq_cfg(b)))
        exp.append("(%s, %s, %s)" % ans[(a, b)])
        labels.append("Config.Equal(%s, %s)" % (a, b))
    return C.vm_crosscheck(run, "http-equal", ["HttpCfg"], terms, exp, labels, min_cases=max(1, len(cases) // 2))
