"""C09 — composite: running children == configured; none survive Run(); no deadlock.  Proof: props/C09.v.
Tie: check B with Stop/cancel/second Reload injected at each step of a reload (the reloader is parked on the
log records that delimit the steps), both Stop styles, real nested composite.Runner children."""
from . import common as C
from . import compositelib as L

OCAML = ["composite"]
GO = ["composite"]
PROP = "props/C09.v"
PROOFS = ["proofs/CompositeC09.v", "proofs/CompositeProgress.v", "proofs/CompositeExact.v", "proofs/CompositeExactMs.v", "proofs/CompositeProto.v",
          "proofs/CompositeMeasure.v", "proofs/CompositeTrace.v", "proofs/CompositeLink2.v"] + L.PROOFS_COMMON


def run(run):
    C.proof_leg(run, PROP, PROOFS, trusted_extra=L.TRUSTED)
    if not L.build(run):
        return
    quick = run.tier == "quick"
    fams = [("corpus:corpus/C09/stop-between-setconfig-and-boot.jsonl", 0, 0),
            ("corpus:corpus/C09/stale-stop-on-restarted-child.jsonl", 0, 0),
            ("corpus:corpus/C09/error-during-reload.jsonl", 0, 0), ("corpus:corpus/C09/duplicate-name-objects.jsonl", 0, 0),
            ("corpus:corpus/C09/membership-multiset.jsonl", 0, 0),
            ("f8", 4, run.seed), ("stale", 4, run.seed), ("errwin", 15 if quick else 150, run.seed), ("multifail", 20 if quick else 200, run.seed + 5),
            ("c11dup", 10 if quick else 50, run.seed + 3),
            ("failreload", 48 if quick else 800, run.seed + 7), ("stoperr", 36 if quick else 600, run.seed + 8),
            ("c09", 1450 if quick else 20000, run.seed), ("boot", 300 if quick else 3000, run.seed + 1),
            ("c11", 400 if quick else 5000, run.seed + 2)]
    results, cover, summary, scripts, traces = L.run_families(run, fams)
    cnt = L.classify(run, "C09", results, scripts, traces)
    for f in run.findings:
        if f["key"] not in [k for k, _ in run.known_hits]:
            run.notes.append("the recorded finding %s was not exhibited by this run (family c11dup, shapes 8 and 9): "
                             "the entry in known_findings.txt may be stale" % f["key"])
    L.fill_coverage(run, results, cover, summary, scripts, cnt,
                    rule="distinct = distinct (pool, initial config, director script) among accepted traces; families: corpus + f8 (the repaired "
                         "stop-between-setconfig-and-boot witness, mock and real nested composite children; must now end unblocked), stale (the "
                         "repaired stale-stop witness: a restarted child parked before Run, then a second restart; must now hold), c09 (a reload that grows/replaces/permutes/keeps the "
                         "membership, the reloader parked on one of 12 log records delimiting its steps, then Stop()/cancel/a second "
                         "Reload()/nothing injected, both Stop styles, 1 in 6 with a real composite.Runner child), errwin (an old child returns a real error when the reload stops it while the reloader is parked at one of its steps: Run's "
                         "failure teardown meets a reload in progress), c11dup (duplicate entry names incl. two distinct runnables with one String()), "
                         "failreload (a child fails while a Reload() is in progress: held inside a child's ReloadWithConfig/Reload, parked before/after "
                         "stopAllRunnables and boot, behind the failing child's parked goroutine, with a second Reload() or Run()'s own teardown holding "
                         "reloadMu), stoperr (1-3 children returning a real error in reaction to Stop()/cancel, racing Stop()/cancel/Reload()), "
                         "boot (Reload/Stop/cancel while Run is booting), c11 (unparked reload histories incl. concurrent callers)")
    run.assumptions += ["every child's Run returns once signalled or cancelled (it may also return earlier, with any result - a failure "
                        "included; only a Run that never returns is excluded): contract of coq/model/Composite.v; "
                        "Stop either non-blocking or blocking until a Run has started and finished",
                        "a single Run() per Runner instance"]


def replay(path):
    return L.replay("C09", path)
