"""Shared machinery of ./check: builds, audit, evidence, findings, reporting."""
import fcntl
import glob
import hashlib
import concurrent.futures as cf
import json
import os
import re
import subprocess
import sys
import time

VERIF = os.path.dirname(os.path.dirname(os.path.abspath(__file__)))
REPO = os.environ.get("VERIF_REPO", "/repo")
BUILD = os.path.join(VERIF, "build")
# binaries built against the tree under test live in a directory of their own per VERIF_REPO: a run on a scratch/mutated
# tree (seeded/runall.py, mutants/) must never exec, or leave behind, binaries another run uses (audit L2).
# The model drivers (<d>_model) do not depend on the tree: they are built once in build/bin and linked into the others.
BIN0 = os.path.join(BUILD, "bin")
REPO_TAG = "" if os.path.realpath(REPO) == "/repo" else hashlib.sha1(os.path.realpath(REPO).encode()).hexdigest()[:10]
BIN = BIN0 if not REPO_TAG else os.path.join(BUILD, "bin-" + REPO_TAG)
COQ = os.path.join(VERIF, "coq")
NPROC = os.cpu_count() or 4

GOENV = dict(os.environ)
GOENV.update({
    "GOFLAGS": "-mod=mod",
    "GOPROXY": "off",
    "GOTOOLCHAIN": "local",
    "GONOSUMDB": "*",
    "GONOSUMCHECK": "1",
    "GOFLAGS_EXTRA": "",
})
GO = "go1.26"

FORBIDDEN = re.compile(
    r"\b(Admitted|admit|give_up|Axiom|Axioms|Parameter|Parameters|Conjecture|Conjectures|"
    r"Admit Obligations|Obligation|Obligations|bypass_check|native_compute|native_cast_no_check|Program|Equations)\b|"
    r"Unset\s+Guard\s+Checking|Unset\s+Positivity\s+Checking|Unset\s+Universe\s+Checking|Unset\s+Kernel\s+Term\s+Sharing|"
    r"type-in-type|impredicative-set|dependent\s+(?:destruction|induction|inversion|rewrite)|"
    # extraction: nothing but `Require Extraction`, `Require ExtrOcamlBasic`, `Extraction Language`, `Extraction "file" names`
    r"Extract\s+(?:Inlined\s+)?Constant|Extract\s+Inductive|Extraction\s+Implicit|Extraction\s+Inline|Extraction\s+NoInline|"
    r"\bExtr(?:Ocaml|OCaml|Haskell)(?!Basic\b)\w*|\bExtrHaskell\w*|"
    # declarations that add to the trusted base without being called Axiom
    r"(?:^|\.\s)\s*(?:(?:Local|Global|Polymorphic|Monomorphic|Private|#\[[^\]]*\])\s+)*"
    r"(?:Primitive|Register|Declare\s+ML\s+Module|Declare\s+Instance|Load|Add\s+(?:Rec\s+)?LoadPath|Add\s+ML\s+Path)\b")

# the only sentences allowed in coq/extract/*.v
EXTRACT_OK = re.compile(
    r"^(?:Require\s+(?:Import\s+)?(?:Extraction|ExtrOcamlBasic)|From\s+(?:Coq|GS)\s+Require\s+Import\s+[\w\s]+|"
    r"Extraction\s+Language\s+OCaml|Extraction\s+\"m_\w+\.ml\"[\s\w.']+)$")

# stdlib axioms: tolerated ONLY when the claim (checks/claims/<Cxx>.json note) names them (HOWTO); none is used today
ALLOWED_AXIOMS = {
    "functional_extensionality_dep", "JMeq_eq", "proof_irrelevance", "classic",
    "Eqdep.Eq_rect_eq.eq_rect_eq", "eq_rect_eq",
}


def axioms_not_allowed(pid, axioms):
    """An axiom printed by Print Assumptions is accepted only if it is a known stdlib axiom AND the property's claim
    note names it.  Returns the offending ones."""
    try:
        note = json.load(open(os.path.join(VERIF, "checks", "claims", pid + ".json"))).get("note", "")
    except (OSError, ValueError):
        note = ""
    bad = []
    for x in axioms:
        short = x.split(".")[-1]
        known = x in ALLOWED_AXIOMS or short in ALLOWED_AXIOMS
        named = re.search(r"\b%s\b" % re.escape(short), note) is not None
        if not (known and named):
            bad.append(x)
    return bad


def sh(cmd, cwd=None, env=None, timeout=None, inp=None):
    """Run a command, return (rc, stdout+stderr)."""
    p = subprocess.run(cmd, cwd=cwd, env=env, input=inp, stdout=subprocess.PIPE,
                       stderr=subprocess.STDOUT, timeout=timeout, shell=isinstance(cmd, str))
    return p.returncode, p.stdout.decode("utf-8", "replace")


class Lock:
    def __init__(self, name):
        os.makedirs(BUILD, exist_ok=True)
        self.path = os.path.join(BUILD, "." + name + ".lock")

    def __enter__(self):
        self.f = open(self.path, "w")
        fcntl.flock(self.f, fcntl.LOCK_EX)
        return self

    def __exit__(self, *a):
        fcntl.flock(self.f, fcntl.LOCK_UN)
        self.f.close()


# --------------------------------------------------------------------------- Coq

def coq_files():
    out = []
    for line in open(os.path.join(COQ, "_CoqProject")):
        line = line.strip()
        if line.endswith(".v"):
            out.append(line)
    return out


def gen_coqproject():
    """_CoqProject is derived from the directory contents (so adding a file needs no shared edit)."""
    dirs = ["lib", "model", "proofs", "props", "gen"]
    lines = ["-Q %s GS" % d for d in dirs]
    for d in dirs:
        for f in sorted(glob.glob(os.path.join(COQ, d, "*.v"))):
            lines.append(os.path.relpath(f, COQ))
    txt = "\n".join(lines) + "\n"
    cp = os.path.join(COQ, "_CoqProject")
    if not os.path.exists(cp) or open(cp).read() != txt:
        open(cp, "w").write(txt)


def coq_build():
    """Full .vo build of the development (no -vos).  Returns (ok, log, failed_files)."""
    with Lock("coq"):
        gen_coqproject()
        mk = os.path.join(COQ, "Makefile")
        cp = os.path.join(COQ, "_CoqProject")
        if not os.path.exists(mk) or os.path.getmtime(mk) < os.path.getmtime(cp):
            rc, out = sh(["coq_makefile", "-f", "_CoqProject", "-o", "Makefile"], cwd=COQ)
            if rc != 0:
                return False, out, ["_CoqProject"]
        # each coqc is capped at 24 GB of address space: a runaway tactic must not take the machine down
        rc, out = sh(["bash", "-c", "ulimit -v 24000000; exec timeout 1500 make -k -j%d" % NPROC], cwd=COQ)
        failed = []
        if rc != 0:
            # a file is "failed" when its .vo is missing or not up to date with respect to ALL its dependencies
            # (make -k leaves the stale .vo of every dependent of a file that no longer compiles): ask make itself
            def stale(f):
                if not os.path.exists(os.path.join(COQ, f + "o")):
                    return True
                return subprocess.run(["make", "-q", f + "o"], cwd=COQ, stdout=subprocess.DEVNULL,
                                      stderr=subprocess.DEVNULL).returncode != 0
            with cf.ThreadPoolExecutor(max_workers=NPROC) as ex:
                fl = coq_files()
                failed = [f for f, s in zip(fl, ex.map(stale, fl)) if s]
            if not failed:
                failed = ["<make>"]
        return rc == 0, out, failed


def coq_flags():
    fl = []
    for line in open(os.path.join(COQ, "_CoqProject")):
        t = line.split()
        if len(t) == 3 and t[0] in ("-Q", "-R"):
            fl += [t[0], t[1], t[2]]
    return fl


def parse_assumptions(out):
    """Names listed by `Print Assumptions` in coqc's output.  A block is `Axioms:` followed by entries
    `name : type` or `name` alone with the type on indented continuation lines; it ends at the next non-indented line
    that is not an entry (`Closed under the global context`, another `Axioms:`, a message).  Returns (names, #blocks)."""
    names, blocks, inside = [], 0, False
    for l in out.splitlines():
        if l.strip() in ("Axioms:", "Section Variables:"):
            inside, blocks = True, blocks + 1
            continue
        if not inside:
            continue
        if l[:1] in (" ", "\t") or not l.strip():
            continue
        m = re.match(r"^([\w.']+)\s*(?::.*)?$", l)
        if m and l.strip() != "Closed under the global context" and not l.startswith(("File ", "Warning", "Error")):
            names.append(m.group(1))
        else:
            inside = False
    return names, blocks


def coq_assumptions(prop_file):
    """Re-check props/Cxx.v with coqc and parse the Print Assumptions output.
    Returns dict(theorems=[...], closed=n, axioms=[...], ok=bool, log=str)."""
    with Lock("coq"):
        rc, out = sh(["timeout", "600", "coqc"] + coq_flags() + [prop_file], cwd=COQ)
    src = open(os.path.join(COQ, prop_file)).read()
    theorems = re.findall(r"^\s*(?:Theorem|Corollary)\s+(\w+)", src, re.M)
    examples = re.findall(r"^\s*Example\s+(\w+)", src, re.M)
    printed = re.findall(r"^\s*Print Assumptions\s+(\w+)", src, re.M)
    closed = out.count("Closed under the global context")
    axioms, blocks = parse_assumptions(out)
    unprinted = [t for t in theorems if t not in printed]
    return {"ok": rc == 0, "theorems": theorems, "examples": examples, "printed": printed,
            "closed": closed, "axioms": sorted(set(axioms)), "axiom_blocks": blocks, "unprinted": unprinted, "log": out}


def strip_comments(txt):
    prev = None
    while prev != txt:       # innermost first, so nested comments go too
        prev = txt
        txt = re.sub(r"\(\*(?:(?!\(\*|\*\)).)*\*\)", lambda m: re.sub(r"[^\n]", " ", m.group(0)), txt, flags=re.S)
    return txt


def audit():
    """Grep the development for forbidden declarations/flags.  Returns list of hits.  Deliberately stricter than needed
    (a word such as Program in an identifier-free position is a hit even where it would be harmless)."""
    hits = []
    for f in sorted(glob.glob(os.path.join(COQ, "**", "*.v"), recursive=True)):
        rel = os.path.relpath(f, VERIF)
        txt = strip_comments(open(f).read())
        # string literals cannot hold a command ("" is the escaped quote); blank them so that table entries such as
        # "Load" in coq/gen/AccessTable.v are not hits
        txt = re.sub(r'"(?:[^"]|"")*"', lambda m: '"' + re.sub(r"[^\n]", "_", m.group(0)[1:-1]) + '"', txt)
        lines = txt.splitlines()
        depth = 0
        for i, line in enumerate(lines, 1):
            if FORBIDDEN.search(line):
                hits.append("%s:%d: %s" % (rel, i, line.strip()))
            if re.match(r"^\s*(?:Local\s+|Global\s+|#\[[^\]]*\]\s*)*(Variable|Variables|Hypothesis|Hypotheses|Context)\b", line):
                # allowed only inside a Section
                if depth + len(re.findall(r"(?:^|\.\s)\s*Section\s+\w+\s*\.", line)) <= 0:
                    hits.append("%s:%d: %s (outside a section)" % (rel, i, line.strip()))
            depth += len(re.findall(r"(?:^|\.\s)\s*Section\s+\w+\s*\.", line))
            depth -= len(re.findall(r"(?:^|\.\s)\s*End\s+\w+\s*\.", line))
            depth = max(depth, 0)   # (a Module's End is not told apart: Modules are not used; erring towards a hit)
        if os.path.basename(os.path.dirname(f)) == "extract":
            raw = strip_comments(open(f).read())
            for sent in re.split(r"\.(?:\s+|$)", raw):
                sent = " ".join(sent.split())
                if sent and not EXTRACT_OK.match(sent):
                    hits.append("%s: sentence not allowed in an extraction file: %s" % (rel, sent[:120]))
    cp = os.path.join(COQ, "_CoqProject")
    for line in open(cp):
        line = line.strip()
        if line and not re.match(r"^-Q (lib|model|proofs|props|gen) GS$", line) and not re.match(r"^[\w/]+\.v$", line):
            hits.append("_CoqProject: line not allowed: %s" % line)
    for extra in ("Makefile.local", "Makefile.local-late", "Makefile.coq.local"):
        if os.path.exists(os.path.join(COQ, extra)):
            hits.append("coq/%s exists (it could add flags such as -type-in-type, -noinit, -indices-matter)" % extra)
    mc = os.path.join(COQ, "Makefile.conf")
    if os.path.exists(mc):
        for m in re.finditer(r"^(COQMF_OTHERFLAGS|COQMF_COQ_SRC_SUBDIRS_EXTRA|COQMF_CMDLINE_COQLIBS)[ \t]*=[ \t]*(\S.*)$", open(mc).read(), re.M):
            hits.append("coq/Makefile.conf: %s = %s" % (m.group(1), m.group(2)))
    return hits


def count_obligations(files):
    """Number of statements (Theorem/Lemma/Corollary/Example) and of Qed/Defined in the files."""
    st = qed = 0
    for f in files:
        p = os.path.join(COQ, f)
        if not os.path.exists(p):
            continue
        txt = open(p).read()
        st += len(re.findall(r"^\s*(?:Local\s+)?(?:Theorem|Lemma|Corollary|Example|Fact|Remark)\s+\w+", txt, re.M))
        qed += len(re.findall(r"\b(?:Qed|Defined)\.", txt))
    return st, qed


# --------------------------------------------------------------------------- extraction / OCaml

def ocaml_build(drivers):
    """For each driver d: extract coq/extract/d.v (-> m_d.ml), build ocaml/d.ml into build/bin/d_model."""
    with Lock("ocaml"):
        ex = os.path.join(COQ, "extract")
        srcs = [os.path.join(COQ, f + "o") for f in coq_files() if f.startswith(("model/", "lib/"))]
        newest_vo = max([os.path.getmtime(s) for s in srcs if os.path.exists(s)] + [0])
        os.makedirs(BIN, exist_ok=True)
        os.makedirs(BIN0, exist_ok=True)
        log = ""
        for d in drivers:
            if BIN != BIN0:
                link = os.path.join(BIN, d + "_model")
                if not os.path.islink(link):
                    if os.path.exists(link):
                        os.unlink(link)
                    os.symlink(os.path.join(BIN0, d + "_model"), link)
            ml = os.path.join(ex, "m_%s.ml" % d)
            exv = os.path.join(ex, d + ".v")
            if not os.path.exists(ml) or os.path.getmtime(ml) < max(newest_vo, os.path.getmtime(exv)):
                fl = coq_flags()
                fl = [os.path.join("..", x) if i % 3 == 1 else x for i, x in enumerate(fl)]
                rc, out = sh(["timeout", "600", "coqc"] + fl + [d + ".v"], cwd=ex)
                if rc != 0:
                    return False, "extraction failed for %s:\n%s" % (d, out)
            exe = os.path.join(BIN0, d + "_model")
            deps = [ml, os.path.join(VERIF, "ocaml", "util.ml"), os.path.join(VERIF, "ocaml", d + ".ml")]
            if os.path.exists(exe) and all(os.path.getmtime(exe) >= os.path.getmtime(x) for x in deps):
                continue
            dd = os.path.join(BUILD, "ocaml", d)
            os.makedirs(dd, exist_ok=True)
            sh(["cp", ml, os.path.join(dd, "model.ml")])
            sh(["cp", ml + "i", os.path.join(dd, "model.mli")])
            sh(["cp", deps[1], deps[2], dd])
            rc, out = sh(["ocamlfind", "ocamlopt", "-O3", "-w", "-a", "model.mli", "model.ml",
                          "util.ml", d + ".ml", "-o", exe], cwd=dd)
            log += out
            if rc != 0:
                return False, "ocaml build failed for %s:\n%s" % (d, out)
        return True, log


# --------------------------------------------------------------------------- extraction re-validation
# DESIGN section 7 item 4 / 14.6: the differential and acceptance checks run the EXTRACTED model (OCaml).  On every run a
# deterministic sample of the cases the drivers evaluated is re-evaluated by Coq's own VM (vm_compute, checked again by the
# kernel at Qed) against the compiled .vo files, and must give the output the OCaml driver printed.  The OCaml side prints
# `VMCASE` lines for the sampled cases (ocaml/util.ml vm_pick, env VM_SAMPLE=<stride>:<offset>); the per-driver printers of
# the INPUT as a Coq term live next to each check (Python, independent of the driver's own parser).

VMDIR = os.path.join(BUILD, "vmcheck")


def vm_env(seed, stride):
    """Environment for a model driver: sample one case in `stride`, offset derived from VERIF_SEED."""
    e = dict(os.environ)
    e["VM_SAMPLE"] = "%d:%d" % (max(1, stride), (seed * 2654435761) % max(1, stride))
    return e


def vm_thin(items, want, seed):
    """Deterministic thinning of a list of sampled cases to at most `want` (keeps order)."""
    if len(items) <= want:
        return list(items)
    k = -(-len(items) // want)
    off = (seed * 40503) % k
    return [x for i, x in enumerate(items) if i % k == off][:want]


def coq_nlist(bs):
    """bytes / list of ints -> Coq term of type list N"""
    return "([" + "; ".join(str(int(b)) for b in bs) + "]%N)"


def coq_hex(h):
    return coq_nlist(bytes.fromhex(h))


def coq_bool(b):
    return "true" if b else "false"


def coq_list(xs):
    return "[" + "; ".join(xs) + "]"


def vm_crosscheck(run, driver, module_imports, terms, expected, labels=None, preamble="", timeout=300, min_cases=1):
    """Extraction re-validation.  terms[i]: Coq term evaluating the MODEL on sampled case i (input printed by the check);
    expected[i]: Coq term of the output the extracted OCaml code produced for it.  Writes build/vmcheck/<pid>_<driver>_cases.v
    (one `Lemma vm_i : term = expected. Proof. vm_compute. reflexivity. Qed.` per case), compiles it against the built
    .vo files.  Any disagreement = violation `extraction-mismatch:<driver>` (no failing input: the trusted layer is wrong)."""
    labels = labels or ["case %d" % i for i in range(len(terms))]
    rec = run.coverage.setdefault("vm_crosscheck", {})
    n = len(terms)
    if n < min_cases or len(expected) != n:
        rec[driver] = {"cases": n, "agree": 0}
        run.violation("vmcheck-failed:" + driver, {"cases": n, "expected": len(expected)},
                      "extraction re-validation of driver %s got %d sampled cases (needs >= %d): the tie between the Coq model "
                      "and the extracted code was not checked" % (driver, n, min_cases), True)
        return False
    os.makedirs(VMDIR, exist_ok=True)
    base = "%s_%s_cases" % (run.pid, re.sub(r"\W", "_", driver))
    head = ["(* generated by checks/common.py vm_crosscheck for ./check %s %s, seed %d: %d sampled cases of driver %s;" % (
                run.pid, run.tier, run.seed, n, driver),
            "   left = the model evaluated by Coq's VM, right = what the extracted OCaml code printed *)",
            "From Coq Require Import List NArith ZArith Bool.",
            "From GS Require Import %s." % " ".join(module_imports),
            "Import ListNotations."] + ([preamble] if preamble else [])
    body = ["Lemma vm_%d : (%s) = (%s). Proof. vm_compute. reflexivity. Qed." % (i, t.replace("\n", " "), e.replace("\n", " "))
            for i, (t, e) in enumerate(zip(terms, expected))]
    path = os.path.join(VMDIR, base + ".v")
    open(path, "w").write("\n".join(head + body) + "\n")
    t0 = time.time()
    with Lock("coq"):
        rc, out = sh(["timeout", str(timeout), "coqc"] + coq_flags() + [path], cwd=COQ)
    secs = round(time.time() - t0, 2)
    rec[driver] = {"cases": n, "agree": n if rc == 0 else 0, "seconds": secs, "file": os.path.relpath(path, VERIF),
                   "cmd": "cd coq && timeout %d coqc -Q lib GS -Q model GS ... ../%s" % (timeout, os.path.relpath(path, VERIF)),
                   "sample": [{"case": labels[i], "model_term": terms[i][:300], "ocaml_output": expected[i][:300]}
                              for i in range(min(2, n))]}
    run.coverage["vm_crosschecked"] = run.coverage.get("vm_crosschecked", 0) + (n if rc == 0 else 0)
    if rc == 0:
        return True
    # which cases?  second pass in diagnostic form (no Qed, every case attempted)
    diag = ['Goal (%s) = (%s). first [ vm_compute; reflexivity | idtac "VMMISMATCH %d"; vm_compute; '
            'match goal with |- ?a = _ => idtac "VMCOQ %d" a end ]. Abort.' % (t.replace("\n", " "), e.replace("\n", " "), i, i)
            for i, (t, e) in enumerate(zip(terms, expected))]
    dpath = os.path.join(VMDIR, base + "_diag.v")
    open(dpath, "w").write("\n".join(head + diag) + "\n")
    with Lock("coq"):
        rc2, out2 = sh(["timeout", str(timeout), "coqc"] + coq_flags() + [dpath], cwd=COQ)
    bad = [int(x) for x in re.findall(r"^VMMISMATCH (\d+)", out2, re.M)]
    coqv = {int(m.group(1)): m.group(2).strip() for m in re.finditer(r"^VMCOQ (\d+) ((?:.|\n)*?)(?=^VM|\Z)", out2, re.M)}
    rec[driver]["agree"] = n - len(bad) if bad and rc2 == 0 else 0
    if bad:
        cases = [{"case": labels[i], "model_term": terms[i], "ocaml_output": expected[i], "coq_vm_output": coqv.get(i, "")[:4000]}
                 for i in bad[:10]]
        run.violation("extraction-mismatch:" + driver, {"driver": driver, "file": path, "mismatching": len(bad), "cases": cases},
                      "Coq's vm_compute evaluation of the model disagrees with the extracted OCaml code (driver %s) on %d of %d "
                      "sampled cases, first: %s — the extraction/driver layer is wrong, the model is no longer tied to what the "
                      "differential check runs" % (driver, len(bad), n, labels[bad[0]]), True)
    else:
        run.violation("vmcheck-failed:" + driver, {"driver": driver, "file": path, "rc": rc, "log_tail": (out + out2)[-3000:]},
                      "extraction re-validation file for driver %s does not compile (rc=%d): %s" % (
                          driver, rc, (out.strip().splitlines() or ["timeout"])[-1][:300]), True)
    return False


def vm_crosscheck_file(run, driver, path, n, timeout=600):
    """The same for a driver that writes its own re-validation file (C07: ocaml/c07.ml --emit-coq prints one
    `Goal <model run on the replayed labels> = <what it observed>. Proof. vm_compute. reflexivity. Qed.` per sampled execution)."""
    rec = run.coverage.setdefault("vm_crosscheck", {})
    if n < 1 or not os.path.exists(path):
        rec[driver] = {"cases": 0, "agree": 0}
        run.violation("vmcheck-failed:" + driver, {"cases": n, "file": path},
                      "extraction re-validation of driver %s got no sampled case: the tie between the Coq model and the extracted "
                      "code was not checked" % driver, True)
        return False
    t0 = time.time()
    with Lock("coq"):
        rc, out = sh(["timeout", str(timeout), "coqc"] + coq_flags() + [path], cwd=COQ)
    rec[driver] = {"cases": n, "agree": n if rc == 0 else 0, "seconds": round(time.time() - t0, 2), "file": os.path.relpath(path, VERIF)}
    run.coverage["vm_crosschecked"] = run.coverage.get("vm_crosschecked", 0) + (n if rc == 0 else 0)
    if rc != 0:
        m = re.search(r'line (\d+), characters', out)
        bad = ""
        if m:
            ls = open(path).read().splitlines()
            i = int(m.group(1)) - 1
            bad = " ".join(ls[max(0, i - 1):i + 1])[:3000]
        run.violation("extraction-mismatch:" + driver, {"driver": driver, "file": path, "log": out[-2000:], "failing_goal": bad,
                                                        "theorem": "extracted OCaml model = Coq model (vm_compute re-evaluation of "
                                                                   "sampled executions)"},
                      "a sampled execution re-evaluated inside Coq (vm_compute) disagrees with what the extracted model driver %s "
                      "computed" % driver, True)
    return rc == 0


# --------------------------------------------------------------------------- Go harness

def go_modfile():
    """The go.mod used for building the harness against VERIF_REPO is GENERATED into the build directory (go build
    -modfile): harness/go.mod (tracked, replace => /repo) is never rewritten, so a run on a scratch tree leaves nothing
    behind.  go.sum sits next to the generated file (the toolchain derives its name from -modfile)."""
    hd = os.path.join(VERIF, "harness")
    d = os.path.join(BUILD, "gomod" + ("-" + REPO_TAG if REPO_TAG else ""))
    os.makedirs(d, exist_ok=True)
    gm = open(os.path.join(hd, "go.mod")).read()
    gm = re.sub(r"replace github.com/robbyt/go-supervisor => \S+", "replace github.com/robbyt/go-supervisor => %s" % REPO, gm)
    mf = os.path.join(d, "go.mod")
    if not os.path.exists(mf) or open(mf).read() != gm:
        open(mf, "w").write(gm)
    sh(["cp", os.path.join(REPO, "go.sum"), os.path.join(d, "go.sum")])
    return mf


def go_build(cmds, race=False):
    """Build harness commands against VERIF_REPO's working tree with the verif tag, into BIN."""
    with Lock("go" + ("-" + REPO_TAG if REPO_TAG else "")):
        hd = os.path.join(VERIF, "harness")
        mf = go_modfile()
        os.makedirs(BIN, exist_ok=True)
        for c in cmds:
            out_name = c + ("_race" if race else "")
            args = [GO, "build", "-modfile=" + mf, "-tags", "verif"]
            if race:
                args.append("-race")
            args += ["-o", os.path.join(BIN, out_name), "./cmd/" + c]
            rc, out = sh(args, cwd=hd, env=GOENV, timeout=900)
            if rc != 0:
                return False, "go build %s failed:\n%s" % (c, out)
        return True, ""


# --------------------------------------------------------------------------- generated Coq inputs (coq/gen/*.v)
# Tracked files, regenerated from the tree under test by the check that owns them (C07 RunnerShape, C08 FsmTable,
# C17 AccessTable) BEFORE its Coq build.  install_gen replaces a file atomically and only when its content changed
# (so make does not rebuild for nothing), keeping the previous content in build/gen.orig/.  At the end of a run with
# VERIF_REPO != /repo the previous content is put back (restore_gen, called from ./check in a `finally`): a mutated
# tree's table never stays behind (audit L1).  With VERIF_REPO == /repo the regenerated file IS the truth for the tree
# and stays.  Leftovers of a killed run are restored at the start of the next one.

GEN_ORIG = os.path.join(BUILD, "gen.orig")


def install_gen(name, tmp_path):
    """Move a freshly generated file into coq/gen/<name>.  Returns True when the content changed."""
    dst = os.path.join(COQ, "gen", name)
    with Lock("coq"):
        os.makedirs(os.path.dirname(dst), exist_ok=True)
        new = open(tmp_path, "rb").read()
        old = open(dst, "rb").read() if os.path.exists(dst) else None
        if old == new:
            os.unlink(tmp_path)
            return False
        if REPO_TAG and old is not None:
            os.makedirs(GEN_ORIG, exist_ok=True)
            keep = os.path.join(GEN_ORIG, name)
            if not os.path.exists(keep):          # the first (= committed / true for /repo) content wins
                open(keep, "wb").write(old)
        stage = dst + ".new"
        open(stage, "wb").write(new)
        os.replace(stage, dst)
        os.unlink(tmp_path)
        return True


def gen_tmp(name):
    os.makedirs(os.path.join(BUILD, "gen.tmp"), exist_ok=True)
    return os.path.join(BUILD, "gen.tmp", "%d-%s" % (os.getpid(), name))


def restore_gen():
    """Put back every coq/gen file a run on a scratch tree replaced (also the leftovers of a killed run)."""
    if not os.path.isdir(GEN_ORIG):
        return []
    done = []
    with Lock("coq"):
        for name in sorted(os.listdir(GEN_ORIG)):
            keep = os.path.join(GEN_ORIG, name)
            dst = os.path.join(COQ, "gen", name)
            data = open(keep, "rb").read()
            if not os.path.exists(dst) or open(dst, "rb").read() != data:
                open(dst + ".new", "wb").write(data)
                os.replace(dst + ".new", dst)
                done.append(name)
            os.unlink(keep)
    return done


# --------------------------------------------------------------------------- anchor drift (DESIGN 3.3)
# harness/cmd/anchors digests the comment-stripped, position-free AST of every Go function a model section mirrors
# (checks/anchors.json: file, functions, owning properties).  checks/anchors.lock.json holds the digests of the pinned tree
# (python3 checks/mkanchors.py).  When a function owned by property X differs from the lock, X's check runs with an
# ESCALATED correspondence budget (run.escalate, a factor) and records run.anchor_drift in its evidence.  A drift is NEVER an
# alarm by itself, and a failure of this machinery is a note, not a violation.

ANCHOR_MAP = os.path.join(VERIF, "checks", "anchors.json")
ANCHOR_LOCK = os.path.join(VERIF, "checks", "anchors.lock.json")
ESCALATE = 4


def anchor_digests():
    """{key: {"digest", "props"}} for VERIF_REPO, or (None, why)."""
    okb, log = go_build(["anchors"])
    if not okb:
        return None, "anchors tool does not build: " + log[-300:]
    rc, out = sh([os.path.join(BIN, "anchors"), "-repo", REPO, "-map", ANCHOR_MAP], timeout=120)
    if rc != 0:
        return None, "anchors tool failed: " + out[-300:]
    try:
        return json.loads(out), ""
    except ValueError as e:
        return None, "anchors tool output unreadable: %r" % e


def anchor_drift(pid):
    """Names (file::function) owned by property pid whose digest differs from the lock (changed, new or gone).
    Returns (list, note)."""
    if not os.path.exists(ANCHOR_LOCK):
        return [], "no checks/anchors.lock.json"
    cur, why = anchor_digests()
    if cur is None:
        return [], why
    try:
        lock = json.load(open(ANCHOR_LOCK)).get("digests", {})
    except (OSError, ValueError) as e:
        return [], "lock unreadable: %r" % e
    drift = []
    for k, v in cur.items():
        if pid in v.get("props", []) and lock.get(k, {}).get("digest") != v["digest"]:
            drift.append(k + (" (new)" if k not in lock else " (absent)" if v["digest"] == "absent" else ""))
    for k, v in lock.items():
        if pid in v.get("props", []) and k not in cur:
            drift.append(k + " (gone)")
    return sorted(drift), ""


# --------------------------------------------------------------------------- findings / reporting

def known_findings():
    """Parse known_findings.txt -> list of dict(kind, property, key, text)."""
    out = []
    p = os.path.join(VERIF, "known_findings.txt")
    if not os.path.exists(p):
        return out
    for line in open(p):
        line = line.strip()
        if not line or line.startswith("#"):
            continue
        m = re.match(r"^(finding|fixed):\s+property=(\w+)\s+(?:key=(\S+)\s+)?(.*)$", line)
        if m:
            out.append({"kind": m.group(1), "property": m.group(2), "key": m.group(3), "text": m.group(4)})
    return out


class Run:
    """One invocation of a check: collects violations, evidence and prints the protocol lines."""

    def __init__(self, pid, tier, seed):
        self.pid, self.tier, self.seed = pid, tier, seed
        self.t0 = time.time()
        self.violations = []      # (key, replay_path, no_input_found, text)
        self.known_hits = []
        self.coverage = {}
        self.assumptions = []
        self.notes = []
        self.findings = [f for f in known_findings() if f["property"] == pid and f["kind"] == "finding"]
        # anchor drift: set by detect_drift() (called by ./check); a check scales its correspondence budget with
        # run.escalate (1 = the functions the property's model mirrors are those of the pinned tree)
        self.anchor_drift = []
        self.escalate = 1

    def detect_drift(self):
        try:
            self.anchor_drift, note = anchor_drift(self.pid)
        except Exception as e:          # never an alarm
            self.anchor_drift, note = [], "anchor drift detection crashed: %r" % e
        if note:
            self.notes.append("anchor drift not evaluated: " + note)
        forced = os.environ.get("VERIF_ESCALATE")
        self.escalate = int(forced) if forced and forced.isdigit() and int(forced) >= 1 else (ESCALATE if self.anchor_drift else 1)
        return self.escalate

    def scaled(self, n):
        """A correspondence budget (number of random cases / scenarios) under the current escalation."""
        return int(n) * self.escalate

    def replay_path(self, tag):
        d = os.path.join(VERIF, "replays")
        os.makedirs(d, exist_ok=True)
        h = hashlib.sha1(tag.encode()).hexdigest()[:10]
        return os.path.join(d, "%s-%s.json" % (self.pid, h))

    def violation(self, key, payload, text, no_input_found=False):
        """Register a violation with its canonical key; known findings are downgraded."""
        for f in self.findings:
            if f["key"] == key:
                if key not in [k for k, _ in self.known_hits]:
                    self.known_hits.append((key, f["text"]))
                return
        path = self.replay_path(key + json.dumps(payload, sort_keys=True, default=str)[:2000])
        with open(path, "w") as fh:
            json.dump({"property": self.pid, "key": key, "what": text,
                       "no_failing_input_found": no_input_found, "seed": self.seed,
                       "tier": self.tier, "replay": payload}, fh, indent=1, default=str)
        self.violations.append((key, path, no_input_found, text))

    def finish(self, level="proof"):
        ev = {
            "property_id": self.pid, "tier": self.tier, "seed": self.seed, "level": level,
            "coverage": self.coverage, "assumptions": self.assumptions,
            "wall_s": round(time.time() - self.t0, 2),
            "violations": len(self.violations),
        }
        if self.notes:
            ev["coverage"]["notes"] = self.notes
        ev["coverage"]["anchor_drift"] = self.anchor_drift
        ev["coverage"]["budget_escalation_factor"] = self.escalate
        ev["coverage"]["known_findings_printed"] = [k for k, _ in self.known_hits]
        ev["coverage"]["violation_keys"] = [v[0] for v in self.violations]
        os.makedirs(os.path.join(VERIF, "evidence"), exist_ok=True)
        with open(os.path.join(VERIF, "evidence", self.pid + ".json"), "w") as fh:
            json.dump(ev, fh, indent=1, default=str)
        for key, text in self.known_hits:
            print("KNOWN-FINDING: property=%s %s [%s]" % (self.pid, text, key))
        seen = set()
        for key, path, nif, text in self.violations:
            if key in seen:
                continue
            if len(seen) >= 8:
                print("# ... %d further violations recorded in the evidence file" % (len(self.violations) - 8))
                break
            seen.add(key)
            print("# %s: %s" % (key, text))
            print("VIOLATION property=%s replay=%s%s" % (self.pid, path, " no-failing-input-found" if nif else ""))
        sys.stdout.flush()
        return 1 if self.violations else 0


def proof_leg(run, prop_file, proof_files, trusted_extra=()):
    """Common proof-side steps: build, audit, Print Assumptions.  Fills run.coverage."""
    ok, log, failed = coq_build()
    hits = audit()
    st, qed = count_obligations([prop_file] + list(proof_files))
    cov = run.coverage
    cov["obligations"] = st
    cov["checker_cmd"] = "make -C coq -j%d (coqc 8.16.1, full .vo build) && coqc props/%s (Print Assumptions)" % (
        NPROC, os.path.basename(prop_file))
    cov["proof_files"] = [prop_file] + list(proof_files)
    tb = ["Coq 8.16.1 kernel (coqc); vm_compute used, native_compute not used",
          "no Axiom/Parameter/Admitted/admit/give_up/Program/Equations, no Extract Constant/Inductive, no ExtrOcaml* but Basic, no "
          "Primitive/Register/Declare ML Module, no extra coqc flags in the development (audited by grep on every run); a stdlib "
          "axiom would be accepted only if the claim's note names it"]
    tb += list(trusted_extra)
    mine = set([prop_file] + [f for f in proof_files])
    # a property is affected by a failed file only if it depends on it (declared files + gen/)
    # a generated file (coq/gen/*.v) affects only the properties that declare it: a table left behind by a run of
    # another property's check on a different tree must not alarm everybody
    relevant = [f for f in failed if f in mine or f in ("<make>", "_CoqProject")]
    missing = [f for f in mine if not os.path.exists(os.path.join(COQ, f + "o"))]
    if relevant or missing:
        failed = sorted(set(relevant + missing))
        cov["discharged"] = 0
        cov["trusted_base"] = tb
        cov["build_failed"] = failed
        run.violation("proof-broken:" + ",".join(failed), {"failed_files": failed, "log_tail": log[-3000:]},
                      "Coq build failed: the theorems of %s are no longer checked (%s)" % (run.pid, ", ".join(failed)),
                      no_input_found=True)
        return False
    if not ok:
        run.notes.append("unrelated Coq files failed to build: %s" % ", ".join(failed))
    if hits:
        cov["discharged"] = 0
        cov["trusted_base"] = tb
        run.violation("audit:" + hits[0], {"hits": hits}, "forbidden declaration in the Coq development", True)
        return False
    a = coq_assumptions(prop_file)
    cov["theorems"] = a["theorems"]
    cov["print_assumptions"] = {"closed_under_global_context": a["closed"], "axioms": a["axioms"],
                                "theorems_printed": len(a["printed"])}
    bad_ax = axioms_not_allowed(run.pid, a["axioms"])
    # every printed theorem is either closed or has an Axioms block all of whose entries are allowed-and-named
    if not a["ok"] or a["unprinted"] or bad_ax or a["closed"] + a["axiom_blocks"] < len(a["printed"]) \
            or (a["axiom_blocks"] and not a["axioms"]):
        cov["discharged"] = 0
        cov["trusted_base"] = tb
        run.violation("assumptions:" + ",".join(bad_ax or a["unprinted"] or ["coqc"]),
                      {"axioms": a["axioms"], "unprinted": a["unprinted"], "log_tail": a["log"][-2000:]},
                      "Print Assumptions check failed for %s" % prop_file, True)
        return False
    tb.append("Print Assumptions: %d/%d theorems closed under the global context; axioms: %s" % (
        a["closed"], len(a["printed"]), ", ".join(a["axioms"]) or "none"))
    cov["discharged"] = st if qed >= st else qed
    cov["trusted_base"] = tb
    return True
