"""C05 — supervisor; see DESIGN.md section 6.  Proof: props/C05.v.  Tie: trace acceptance (check B)."""
from . import supcommon as S

OCAML = S.OCAML
GO = S.GO
FAMILIES = "reload,mixed,big,shorttimers,hupburst".split(",")
PROP = "props/C05.v"
PROOFS = ["proofs/SupInv.v", "proofs/SupStop.v", "proofs/SupTrig.v", "proofs/SupGate.v", "proofs/SupOnce.v", "proofs/SupReload.v", "proofs/SupCount.v"]


def run(run):
    S.run_property(run, "C05", FAMILIES, PROP, PROOFS)


def replay(path):
    return S.replay("C05", path)
