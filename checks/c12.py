"""C12 — HTTP server: Running means reachable and serving; returned means port released (partial).
Proof: props/C12.v.  Tie: check B (reload histories with the ServerCreator hook, real sockets)."""
from . import common as C
from . import httplib as H

OCAML = H.OCAML
GO = H.GO
PROP = "props/C12.v"
PROOFS = H.PROTO_PROOFS + H.MODEL_FILES


def c12_key(p, sc):
    """Canonical key of a failing C12 verdict."""
    if p["prop"] == "c12-running":
        if "stop-issued=true" in p["text"]:
            # the state machine still says Running while Run() is already shutting the server down
            return "running-while-stopping:stop-during-reload"
        return "running-not-serving:" + H.script_shape(sc)
    return p["prop"] + ":" + H.script_shape(sc)


def run(run):
    C.proof_leg(run, PROP, PROOFS, trusted_extra=[
        "PARTIAL: net/http.Server, the kernel socket table and http.ServeMux are MODELLED (abstract network: bind iff "
        "free, Shutdown unbinds, dial iff bound; mux oracle), not verified; tied by check B on real sockets",
        "timing assumption T1: the serve goroutine reaches net.Listen (and sends a bind error) before the first 100 ms "
        "tick of the readiness probe",
        "extraction via ExtrOcamlBasic only; OCaml driver ocaml/http.ml + util.ml; Go harness cmd/http"])
    if not H.build(run):
        return
    res = H.run_hist(run, "C12")
    for p in res["props"]:
        if p["ok"] or not p["prop"].startswith("c12-"):
            continue
        sc = res["scripts"].get(p["script"], {}).get("script", {"name": p["script"]})
        run.violation(c12_key(p, sc),
                      {"script": sc, "verdict": p, "trace": H.trace_of(res, p["script"]), "how": H.REPLAY_HOW},
                      "history %s: %s fails on the implementation's observables: %s" % (p["script"], p["prop"], p["text"]))
    H.report_hist_common(run, res, "C12")
    H.hist_coverage(run, res, "; at every snapshot with state Running (read before and after the observations) the "
                              "harness dials the configured address and issues one request per route of the path universe "
                              "checking the per-route marker header; after Run returned it net.Listen()s on every address "
                              "the runner ever used")
    n_run = sum(1 for p in res["props"] if p["prop"] == "c12-running")
    n_rel = sum(1 for p in res["props"] if p["prop"] == "c12-released")
    run.coverage["running_snapshots_checked"] = n_run
    run.coverage["released_addresses_checked"] = n_rel
    run.coverage["exhaustive"] = False
    run.assumptions += [
        "the model cannot exhibit: TIME_WAIT / SO_REUSEADDR effects, a listener that is bound but whose accept loop is "
        "wedged, spontaneous listener death between two observations, address aliasing (':8080' vs '127.0.0.1:8080'), ':0'",
        "C12_running holds in every Running state since /repo a31573a (shutdown takes r.mutex before Transition(Stopping)); the "
        "old window (Stop()/cancel during a Reload) is kept as C12_running_refuted_legacy / C12_witness_repaired and as a corpus "
        "regression",
        "C12_running_observable_own assumes mux_sound (the ServeMux refuses a repeated pattern)"]


def replay(path):
    return H.replay_hist(path, "C12", ["c12-"])
