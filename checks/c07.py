"""C07 — Stop() returns only after the Run() it targets has returned, in every ordering and cycle.
Proof: props/C07.v over coq/model/Lifecycle.v (step true = the code in /repo) and
coq/model/LifecycleRunner.v (skeleton of the bundled runners).
Tie: (1) lock-step schedule replay of supervisor/lifecycle.StartStop through the `verif` yield
hooks (harness/cmd/c07) against the extracted model (ocaml/c07.ml): all interleavings of k Stop
callers x m Run cycles; (2) the source-shape translator harness/cmd/c07shape regenerates
coq/gen/RunnerShape.v from the repo and C07_runners_shape re-proves that the three bundled
runners are instances of the skeleton; (3) a real-time smoke family drives the three runners."""
import concurrent.futures as cf
import json
import os
import re
import subprocess
import threading
from . import common as C

OCAML = ["c07"]
GO = ["c07", "c07shape"]
PROP = "props/C07.v"
PROOFS = ["proofs/LifecycleInv.v", "proofs/LifecycleStep.v", "proofs/LifecycleMain.v", "proofs/LifecycleMono.v", "proofs/LifecycleMeasure.v",
          "proofs/LifecycleRunnerProofs.v", "model/Lifecycle.v", "model/LifecycleRunner.v", "gen/RunnerShape.v"]
HOOK = "supervisor/lifecycle/verif_on.go (var VerifYield func(point string)) + verifYield calls in startstop.go"
CORPUS = os.path.join(C.VERIF, "corpus", "C07", "schedules.txt")
SHAPE_V = os.path.join(C.COQ, "gen", "RunnerShape.v")
HOW = "build/bin/c07 -mode sched -k <k> -m <m> -sched '<sched>' | build/bin/c07_model --fixed 1"

SHAPE_TEXT = {
    "early-return": "Stop() returned although the Run() it targets has not returned",
    "spans-reset": "Stop() is parked on the doneCh of a later Run cycle that it never signalled, although the Run it "
                   "targeted has returned (its second critical section ran after Started() reset the lifecycle)",
    "blocked-after-run": "Stop() is blocked although the Run() it targets has returned",
    "unsignalled": "Stop() is parked on a Run whose StopCh() is not closed",
    "started-missed": "Stop() is still blocked in <-startedCh although its Run has started",
    "stuck": "Stop() blocks for ever although Run was invoked and exits on signal",
}


def harness(args, model_args, timeout=3000):
    """Pipe the Go harness into the model driver.  Returns (lines, harness_rc, model_rc, stderr)."""
    g = subprocess.Popen([os.path.join(C.BIN, "c07")] + args, stdout=subprocess.PIPE, stderr=subprocess.PIPE)
    m = subprocess.Popen([os.path.join(C.BIN, "c07_model")] + model_args, stdin=g.stdout, stdout=subprocess.PIPE)
    g.stdout.close()
    try:
        out = m.communicate(timeout=timeout)[0].decode()
        err = g.stderr.read().decode()
        g.wait(timeout=60)
    except subprocess.TimeoutExpired:
        g.kill()
        m.kill()
        return [], -9, -9, "timeout"
    return out.splitlines(), g.returncode, m.returncode, err


def raw(args, timeout=600):
    p = subprocess.run([os.path.join(C.BIN, "c07")] + args, stdout=subprocess.PIPE, stderr=subprocess.PIPE, timeout=timeout)
    return p.returncode, p.stdout.decode(), p.stderr.decode()


class Acc:
    def __init__(self):
        self.stats = {}
        self.mism = []
        self.props = []
        self.fail = []
        self.lock = threading.Lock()


def run_family(acc, args, emit=None):
    margs = ["--fixed", "1"]
    if emit:
        margs += ["--emit-coq", emit[0], "--every", str(emit[1])]
    lines, grc, mrc, err = harness(args, margs)
    with acc.lock:
        got = False
        for l in lines:
            if l.startswith("MISMATCH"):
                acc.mism.append(l)
            elif l.startswith("PROP"):
                acc.props.append(l)
            elif l.startswith("SUMMARY"):
                got = True
                for kv in l.split()[1:]:
                    k, v = kv.split("=")
                    acc.stats[k] = acc.stats.get(k, 0) + int(v)
        if grc != 0 or mrc != 0 or not got:
            acc.fail.append({"args": args, "harness_rc": grc, "model_rc": mrc, "stderr": err[-3000:], "out_tail": lines[-5:]})


def field(line, name):
    m = re.search(r"\b%s=(\S+)" % name, line)
    return m.group(1) if m else ""


def sched_of(line):
    i = line.find("sched=")
    return line[i + 6:].strip() if i >= 0 else ""


def report(run, acc):
    """The property failing on the implementation's observations -> violation with the failing schedule;
    any other model/implementation disagreement -> no-failing-input-found."""
    by_shape = {}
    for l in acc.props:
        by_shape.setdefault(l.split()[1], []).append(l)
    for shape, ls in sorted(by_shape.items()):
        ls.sort(key=lambda l: (len(sched_of(l).split()), sched_of(l)))
        for l in ls[:2]:
            run.violation("%s:%s" % (shape, sched_of(l).replace(" ", ".")),
                          {"k": field(l, "k"), "m": field(l, "m"), "sched": sched_of(l), "caller": field(l, "caller"),
                           "driver_line": l, "how": HOW, "occurrences": len(ls)},
                          SHAPE_TEXT.get(shape, shape) + "; schedule: %s (caller %s)" % (sched_of(l), field(l, "caller")))
    seen = set()
    acc.mism.sort(key=lambda l: (len(sched_of(l).split()), sched_of(l)))
    for l in acc.mism:
        kind = l.split()[1]
        if kind in seen:
            continue
        seen.add(kind)
        run.violation("corr-%s:%s" % (kind, sched_of(l).replace(" ", ".")),
                      {"k": field(l, "k"), "m": field(l, "m"), "sched": sched_of(l), "driver_line": l, "how": HOW,
                       "theorem": "lock-step correspondence between lifecycle.StartStop and coq/model/Lifecycle.v (step true); "
                                  "the C07_* theorems are about that model",
                       "occurrences": sum(1 for x in acc.mism if x.split()[1] == kind)},
                      "implementation and model disagree (%s) after schedule: %s" % (kind, sched_of(l)), True)
    for f in acc.fail[:2]:
        panic = "panic:" in f["stderr"] or "fatal error:" in f["stderr"]
        run.violation("harness-crashed" if panic else "harness-failed", f,
                      "C07 harness %s (args %s)" % ("crashed: the code under test panicked" if panic else "or model driver failed to run",
                                                    " ".join(f["args"])), not panic)


def runners(run):
    """Real-time smoke family for the three bundled runners.  Returns (#scenarios, #failed)."""
    rc, out, err = raw(["-mode", "runners"], timeout=600)
    n = bad = 0
    for l in out.splitlines():
        t = l.split(None, 4)
        if len(t) >= 4 and t[0] == "runner":
            n += 1
            if t[3] != "ok":
                bad += 1
                msg = t[4] if len(t) > 4 else ""
                broken = "scenario broken" in msg or "cannot build runner" in msg
                run.violation("runner:%s:%s" % (t[1], t[2]), {"line": l, "how": "build/bin/c07 -mode runners"},
                              "bundled %s runner, scenario %s: %s" % (t[1], t[2], msg), broken)
    if rc != 0 or n == 0:
        run.violation("runners-failed", {"rc": rc, "stderr": err[-2000:]}, "runner smoke family failed to run", True)
    return n, bad


def regen_shape(run):
    """Translator output coq/gen/RunnerShape.v, regenerated from the repo under test BEFORE the Coq build.
    Returns the per-runner facts (list of stderr lines) or None."""
    okb, log = C.go_build(["c07shape"])
    if not okb:
        run.violation("build-go-shape", {"log": log[-3000:]}, "the C07 source-shape translator does not build", True)
        return None
    tmp = C.gen_tmp("RunnerShape.v")
    p = subprocess.run([os.path.join(C.BIN, "c07shape"), "-repo", C.REPO, "-o", tmp],
                       stdout=subprocess.PIPE, stderr=subprocess.PIPE, timeout=120)
    facts = [l for l in p.stderr.decode().splitlines() if l.startswith("shape ")]
    if p.returncode not in (0, 1) or len(facts) != 3 or not os.path.exists(tmp):
        run.violation("shape-translator-failed", {"rc": p.returncode, "stderr": p.stderr.decode()[-2000:]},
                      "harness/cmd/c07shape failed on the repo under test", True)
        return None
    C.install_gen("RunnerShape.v", tmp)      # atomically, only if changed; put back after a run on a scratch tree
    return facts


def run(run):
    facts = regen_shape(run)
    proof_ok = C.proof_leg(run, PROP, PROOFS, trusted_extra=[
        "hand-written model of startstop.go (channels = ids with a closed flag; critical sections atomic); tied by lock-step replay",
        "runner skeleton (LifecycleRunner.v): the runners' own state is abstracted to local stutter steps; that Run()/Stop() of the "
        "three runners are instances of it rests on the go/ast translator harness/cmd/c07shape (coq/gen/RunnerShape.v, "
        "C07_runners_shape) and on the smoke family",
        "yield hooks in /repo behind the `verif` build tag; director + runtime.Stack goroutine statuses (harness/cmd/c07)",
        "extraction via ExtrOcamlBasic only; OCaml driver ocaml/c07.ml + util.ml; a sample of executions is re-evaluated by vm_compute in coqc"])
    shape_broken = bool(facts) and any("=false" in f for f in facts)
    okb, log = C.go_build(["c07"])
    if not okb:
        if "VerifYield" in log or "verifYield" in log:
            run.violation("hook-missing:lifecycle.VerifYield", {"log": log[-3000:], "hook": HOOK, "patch": "hooks/c07-lifecycle.patch"},
                          "the repo under test lacks the C07 yield hook %s (see /verif/hooks/c07-lifecycle.patch); "
                          "the lock-step correspondence cannot be checked" % HOOK, True)
        else:
            run.violation("build-go", {"log": log[-3000:]}, "harness does not build against the repo under test", True)
        return
    oko, log = C.ocaml_build(["c07"])
    if not oko:
        run.violation("build-ocaml", {"log": log[-3000:]}, "model driver does not build", True)
        return
    acc = Acc()
    os.makedirs(C.VMDIR, exist_ok=True)
    xfile = os.path.join(C.VMDIR, "C07_c07_cases.v")
    if os.path.exists(xfile):
        os.unlink(xfile)
    # corpus first (includes the witnesses of the repaired defect F14 as regressions)
    n_corpus = 0
    if os.path.exists(CORPUS):
        for line in open(CORPUS):
            line = line.split("#")[0].strip()
            if not line:
                continue
            k, m, sched = line.split(None, 2)
            run_family(acc, ["-mode", "sched", "-k", k, "-m", m, "-sched", sched])
            n_corpus += 1
    # exhaustive interleavings
    K = 2 if run.tier == "quick" else 3
    M = 2 if run.tier == "quick" else 3
    shards = 4 if run.tier == "quick" else 16
    jobs = []
    for k in range(1, K + 1):
        for m in range(1, M + 1):
            big = (k == K and m == M)
            n = shards if big else 1
            for i in range(n):
                jobs.append((["-mode", "dfs", "-k", str(k), "-m", str(m), "-shard", str(i), "-shards", str(n)],
                             (xfile, 4 if run.tier == "quick" else 60) if (big and i == 0) else None))
    if run.tier == "thorough":
        for (k, m) in ((4, 2), (2, 4), (3, 4), (4, 3)):
            for i in range(shards):
                jobs.append((["-mode", "dfs", "-k", str(k), "-m", str(m), "-shard", str(i), "-shards", str(shards)], None))
    nrand = run.scaled(400) if run.tier == "quick" else 200000     # anchor drift: escalated budget
    if run.tier == "quick" and run.escalate > 1:
        # ... and the next exhaustive family beyond k,m <= 2
        for (k, m) in ((3, 2), (2, 3)):
            for i in range(shards):
                jobs.append((["-mode", "dfs", "-k", str(k), "-m", str(m), "-shard", str(i), "-shards", str(shards)], None))
    rshards = 4 if run.tier == "quick" else 16
    for i in range(rshards):
        jobs.append((["-mode", "random", "-k", "6", "-m", "6", "-n", str(nrand // rshards), "-seed", str(run.seed * 1000 + i)], None))
    with cf.ThreadPoolExecutor(max_workers=min(C.NPROC, 16)) as ex:
        futs = [ex.submit(run_family, acc, a, e) for a, e in jobs]
        for f in futs:
            f.result()
    report(run, acc)
    # kernel re-evaluation of sampled executions (extraction cross-check)
    xok = None
    if proof_ok:
        xok = C.vm_crosscheck_file(run, "c07", xfile, acc.stats.get("emitted", 0))
    n_runner, bad_runner = runners(run)
    if shape_broken:
        # C07_runners_shape no longer holds (props/C07.v failed to build -> reported by proof_leg as a broken
        # obligation).  The search for a concrete failing schedule is the smoke family + the lock-step run above.
        run.notes.append("runner shape facts changed: %s; smoke family found %d failing scenario(s)" % ("; ".join(facts), bad_runner))
        run.violation("runner-shape:" + ",".join(f.split()[1] for f in facts if "=false" in f),
                      {"facts": facts, "theorem": "C07_runners_shape (all_ok RunnerShape.shapes = true); C07_runners_* rest on it",
                       "smoke_failures": bad_runner},
                      "a bundled runner no longer has the Started / defer done / StopCh-in-select / Stop = lc.Stop shape that the "
                      "runner skeleton models: " + "; ".join(f for f in facts if "=false" in f), True)
    st = acc.stats
    samples = []
    rc, out, err = raw(["-mode", "random", "-k", "3", "-m", "3", "-n", "4", "-seed", str(run.seed)])
    samples += out.splitlines()[:4]
    run.coverage.update({
        "evaluations": st.get("n", 0),
        "distinct_nontrivial": st.get("distinct", 0),
        "rule": "corpus (%d schedules) + EVERY maximal interleaving of the critical sections of k Stop() callers with m consecutive "
                "Run cycles for all 1<=k<=%d, 1<=m<=%d%s (satisfied waits taken eagerly, callers enter in index order; each "
                "execution is a fresh set of real goroutines driven through the verif yield hooks) + %d random executions with "
                "k,m<=6 (SplitMix64 seed); distinct = distinct (k,m,label sequence), counted exactly per driver process; "
                "every execution has >=1 Stop and >=1 Run, so none is trivial" % (
                    n_corpus, K, M, " and (4,2),(2,4),(3,4),(4,3)" if run.tier == "thorough" else "", nrand),
        "samples": samples,
        "exhaustive": False,
        "exhaustive_up_to": "k<=%d callers x m<=%d cycles (all interleavings of the critical sections)" % (K, M),
        "model_compared": "step true",
        "labels_replayed": st.get("labels", 0),
        "director_steps": st.get("steps", 0),
        "enabledness_checks": st.get("disabled_checked", 0),
        "blocked_observations": st.get("blockedobs", 0),
        "property_failures_on_impl": len(acc.props),
        "mismatches": len(acc.mism),
        "kernel_rechecked_executions": st.get("emitted", 0),
        "kernel_recheck_ok": xok,
        "runner_shape_facts": facts,
        "runner_smoke_scenarios": n_runner,
        "traces_validated_against_impl": st.get("n", 0),
    })
    run.assumptions += [
        "the model is a hand transcription of startstop.go; it is tied to the code only on the schedules replayed",
        "satisfied channel waits are taken eagerly by the real goroutines (they change no shared state); the model driver inserts "
        "the corresponding internal labels",
        "C07 for the bundled runners: their Run()/Stop() are instances of the skeleton by the syntactic facts of RunnerShape.v "
        "(translator trusted) -- boot/teardown code is abstracted to local steps and is assumed not to touch the lifecycle "
        "(checked: the lc field is used nowhere else) and to terminate (C08-C16 are about that code)"]


def replay(path):
    rp = json.load(open(path))
    r = rp.get("replay", {})
    if not r.get("sched"):
        print("replay names a broken obligation, not a schedule:", rp.get("what"))
        return 1
    okb, log = C.go_build(["c07"])
    oko, log2 = C.ocaml_build(["c07"])
    if not (okb and oko):
        print(log, log2)
        return 1
    lines, grc, mrc, err = harness(["-mode", "sched", "-k", str(r["k"]), "-m", str(r["m"]), "-sched", r["sched"]], ["--fixed", "1"])
    print("\n".join(lines))
    bad = [l for l in lines if l.startswith(("MISMATCH", "PROP"))]
    if bad or grc or mrc:
        print("VIOLATION property=C07 replay=%s" % path)
        return 1
    return 0
