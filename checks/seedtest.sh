#!/bin/bash
# usage: checks/seedtest.sh <patch> <Cxx> [tier]   -- applies a seeded change to /repo, runs the check, reverts
set -u
P=$1; C=$2; T=${3:-quick}
cd /verif
git -C /repo diff --quiet || { echo "/repo not clean"; exit 2; }
git -C /repo apply "$P" || { echo "patch does not apply"; exit 2; }
( cd /repo && go build ./... ) || { git -C /repo checkout -- .; echo "does not build"; exit 2; }
timeout 1800 ./check $C $T > /tmp/seedtest.out 2>&1; rc=$?
git -C /repo checkout -- .
git -C /repo status --short | grep -v '^??' 
echo "rc=$rc"; grep -c "^VIOLATION" /tmp/seedtest.out; grep "^VIOLATION\|^#\|^KNOWN" /tmp/seedtest.out | head -8
