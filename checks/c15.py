"""C15 — middleware chain and ResponseWriter vs the reference interpreter.
Proof: props/C15.v.  Tie: differential check A (Route.ServeHTTP on httptest.ResponseRecorder vs extracted model)."""
import concurrent.futures as cf
import json
import os
import re
import subprocess
import tempfile
from . import common as C

OCAML = ["c15", "c15w"]
GO = ["c15", "c15w"]
PROP = "props/C15.v"
PROOFS = ["proofs/ChainRef.v", "proofs/ChainTrace.v", "proofs/ChainWriter.v", "proofs/ChainMain.v", "model/Chain.v",
          "proofs/RWriterProofs.v", "model/RWriter.v"]

# witness of the defect repaired by /repo commit d237067 (C15_fixed_invalid_status): replayed on every run,
# it must now be accepted (model = implementation) with the property holding on the implementation
WITNESS = "m=GET p=/ f=0 c=REC|U:H1000"
HOW = "build/bin/c15 -mode corpus -file <file with the PROG line> | build/bin/c15_model"


def parse_obs(s):
    d = {}
    for kv in s.split(" "):
        k, _, v = kv.partition("=")
        d[k] = v
    return d


def parse_prog(s):
    t = s.split(" ")
    return {"method": t[0][2:], "path": t[1][2:], "final": t[2][2:] == "1", "hs": t[3][2:].split("|")}


def body_allowed(code):
    return not (100 <= code <= 199 or code in (204, 304))


def property_failures(prog, o):
    """The property C15, evaluated on the IMPLEMENTATION's observables only (no model involved).
    Returns a list of (kind, text)."""
    out = []
    try:
        evs = [e for e in o.get("t", "").split(",") if e]
        enters = [int(e[1:]) for e in evs if e[0] == "E"]
        if enters != list(range(len(enters))):
            out.append(("order", "handlers entered as %s: not registration order 0,1,2.. / a handler ran twice" % enters))
        stopped = None
        for e in evs:
            if e[0] in "nA":
                stopped = stopped or e
            elif e[0] == "E" and stopped:
                out.append(("after-stop", "handler %s was entered after %s (Abort / returned Next)" % (e[1:], stopped)))
                break
        rets = [int(e[1:]) for e in evs if e[0] == "n"]
        if any(a < b for a, b in zip(rets, rets[1:])):
            out.append(("nesting", "returns from Next in order %s: not reverse registration order" % rets))
        code, wrote = int(o["code"]), o["wrote"] == "1"
        st, wr, sz = int(o["st"]), o["wr"] == "1", int(o["sz"])
        nbody = len(o.get("body", "")) // 2
        if wr != wrote:
            out.append(("written", "Written()=%s but the recorder %s a header" % (wr, "received" if wrote else "never received")))
        if wr and wrote and st != code:
            out.append(("status", "Status()=%d but the client received %d" % (st, code)))
        want = nbody if body_allowed(code) else 0
        if wrote and sz != want:
            out.append(("size", "Size()=%d but %d body bytes were accepted (recorder has %d, status %d)" % (sz, want, nbody, code)))
        if not wrote and (sz != 0 or nbody != 0):
            out.append(("size", "Size()=%d, body %d bytes, though nothing was written" % (sz, nbody)))
        # observations: once written, Status() never changes; Size() never decreases
        first, last_sz = None, 0
        for e in evs:
            if e[0] == "O":
                f = e.split(":")
                if f[2] == "1":
                    if first is None:
                        first = int(f[1])
                    elif int(f[1]) != first:
                        out.append(("status-changed", "Status() changed from %d to %s after being written" % (first, f[1])))
                        break
                if int(f[3]) < last_sz:
                    out.append(("size", "Size() decreased"))
                    break
                last_sz = int(f[3])
        # a panic that was recovered (did not escape) with nothing sent before must give 500
        if o.get("esc") == "0" and any(e[0] == "U" for e in evs) and "REC" in prog["hs"]:
            sent_before = False
            for e in evs:
                if e[0] == "U":
                    break
                if e[0] == "O" and e.split(":")[2] == "1":
                    sent_before = True
            if not sent_before and code != 500:
                out.append(("recovered-500", "panic recovered with nothing sent before, but the client received %d, not 500" % code))
            # and nobody is entered after the unwinding started
            seen_u = False
            for e in evs:
                if e[0] == "U":
                    seen_u = True
                elif e[0] == "E" and seen_u:
                    out.append(("after-panic", "handler %s entered after a recovered panic" % e[1:]))
                    break
        # wildcard middleware: a request path outside the prefix is answered 404 and nothing later runs
        path = prog["path"]
        for i, h in enumerate(prog["hs"]):
            if i not in enters:
                break
            if h.startswith("WC:"):
                pfx = h[3:] or "/"
                if not pfx.startswith("/"):
                    pfx = "/" + pfx
                if pfx != "/" and not pfx.endswith("/"):
                    pfx += "/"
                if path.startswith(pfx):
                    path = path[len(pfx):]
                else:
                    if any(j > i for j in enters):
                        out.append(("after-404", "wildcard %r does not match %r but handler %d still ran" % (h, prog["path"], i + 1)))
                    break
    except (KeyError, ValueError, IndexError) as ex:
        out.append(("unparsable", "cannot evaluate the property on %r: %r" % (o, ex)))
    return out


# ----------------------------------------------------------------------------- extraction re-validation
VM = []     # VMCASE lines of the chain driver (sampled programs + the extracted model's result as a Coq term)
VMW = []    # the same for the writer-leg driver


def _kv(s):
    k, v = s.split("=")
    return "(%d%%N, %d%%N)" % (int(k), int(v))


def coq_action(a):
    c, rest = a[0], a[1:]
    if c in "NAR!" and not rest:
        return {"N": "ANext", "A": "AAbort", "R": "AReturn", "!": "APanic"}[c]
    if c == "H":
        return "(AWriteHeader %d%%N)" % int(rest)
    if c == "W":
        return "(AWrite %s)" % C.coq_nlist(rest.encode("latin-1"))
    if c in "SP":
        k, v = rest.split("=")
        return "(%s %d%%N %d%%N)" % ("ASetH" if c == "S" else "AAddH", int(k), int(v))
    if c == "X":
        return "(ADelH %d%%N)" % int(rest)
    raise ValueError("action " + a)


def coq_handler(h):
    def lst(x, f, sep="."):
        return C.coq_list([f(y) for y in x.split(sep)] if x else [])
    if h.startswith("U:"):
        return "(User %s)" % lst(h[2:], coq_action, ",")
    if h == "REC":
        return "Recovery"
    if h.startswith("HDR:"):
        return "(Headers %s)" % lst(h[4:], _kv)
    if h.startswith("OPS:"):
        d, st, ad = h[4:].split("/")
        return "(HeaderOps %s %s %s)" % (lst(d, lambda k: "%d%%N" % int(k)), lst(st, _kv), lst(ad, _kv))
    if h.startswith("ST"):
        return "(State %d%%N)" % int(h[2:])
    if h.startswith("WC:"):
        return "(Wildcard %s)" % C.coq_nlist(h[3:].encode("latin-1"))
    if h in ("LOG", "MET"):
        return "Observer"
    raise ValueError("handler " + h)


def vm_terms(vmlines):
    """Input side printed HERE from the PROG text the harness emitted (independent of ocaml/c15.ml's parser)."""
    terms, exp, labels = [], [], []
    for l in vmlines:
        t = l.split("\t")
        ps = bytes.fromhex(t[1]).decode("latin-1")
        f = ps.split(" ")
        hs = C.coq_list([coq_handler(h) for h in f[3][2:].split("|")])
        terms.append("let hs := %s in let o := exec (exec_fuel hs) hs %s in (forget o, final_aborted hs o)" % (
            hs, C.coq_nlist(f[1][2:].encode("latin-1"))))
        exp.append(t[2])
        labels.append(ps)
    return terms, exp, labels


def coq_wop(o):
    f = [int(x) for x in o[1:].split(":")]
    if o[0] == "H":
        return "(OWH (%d)%%Z %s)" % (f[0], C.coq_bool(f[1] == 1))
    return "(OW (%d)%%Z %s (%d)%%Z %s)" % (f[0], C.coq_bool(f[1] == 1), f[2], C.coq_bool(f[3] == 1))


def vmw_terms(vmlines):
    terms, exp, labels = [], [], []
    for l in vmlines:
        t = l.split("\t")
        terms.append("observe init %s" % C.coq_list([coq_wop(o) for o in t[1].split(";") if o]))
        exp.append(t[2])
        labels.append("writer ops " + t[1])
    return terms, exp, labels


def run_stream(args, run, stats, stride=0):
    """Pipe the Go harness into the model driver; collect mismatch lines."""
    g = subprocess.Popen([os.path.join(C.BIN, "c15")] + args, stdout=subprocess.PIPE)
    m = subprocess.Popen([os.path.join(C.BIN, "c15_model")], stdin=g.stdout, stdout=subprocess.PIPE,
                         env=C.vm_env(run.seed, stride) if stride else None)
    g.stdout.close()
    out = m.communicate()[0].decode("utf-8", "replace")
    g.wait()
    mism = []
    for line in out.splitlines():
        if line.startswith("MISMATCH"):
            mism.append(line)
        elif line.startswith("VMCASE"):
            VM.append(line)
        elif line.startswith("SUMMARY"):
            for kv in line.split()[1:]:
                k, v = kv.split("=")
                stats[k] = stats.get(k, 0) + int(v)
    if g.returncode != 0 or m.returncode != 0 or "SUMMARY" not in out:
        run.violation("harness-failed", {"args": args, "out": out[-2000:]},
                      "C15 harness or model driver failed to run", True)
    return mism


def classify(run, line, only=None):
    """only='prop': report only if the property fails on the implementation; 'corr': only otherwise."""
    t = line.split("\t")
    if len(t) < 5 or t[1] == "parse":
        if only != "prop":
            run.violation("corr-parse", {"driver_line": line[:2000]}, "unparsable harness/driver line", True)
        return only != "prop"
    fields, ps, impl, model = t[1], t[2], t[3], t[4]
    prog = parse_prog(ps)
    fails = property_failures(prog, parse_obs(impl))
    if (only == "prop" and not fails) or (only == "corr" and fails):
        return False
    payload = {"prog": ps, "impl": impl, "model": model, "differs_in": fields, "how": HOW}
    if fails:
        kinds = sorted(set(k for k, _ in fails))
        key = "%s:%s" % ("+".join(kinds), ps)
        run.violation(key, dict(payload, property_failures=fails),
                      "%s  [%s]" % ("; ".join(x for _, x in fails[:3]), ps))
    else:
        run.violation("corr:%s:%s" % (fields, ps),
                      dict(payload, theorem="correspondence A (Route.ServeHTTP vs exec/ref of model/Chain.v); "
                                            "C15_* no longer tied to the code"),
                      "implementation and model disagree on {%s} but the property holds on the observed run  [%s]" % (fields, ps),
                      no_input_found=True)
    return True


def run_corpus_lines(lines):
    """Run PROG lines through harness and driver, return (driver output, harness raw lines)."""
    with tempfile.NamedTemporaryFile("w", suffix=".txt", delete=False) as f:
        f.write("\n".join(lines) + "\n")
    try:
        rc, raw = C.sh([os.path.join(C.BIN, "c15"), "-mode", "corpus", "-file", f.name])
        p = subprocess.run([os.path.join(C.BIN, "c15_model")], input=raw.encode(), stdout=subprocess.PIPE)
        return p.stdout.decode("utf-8", "replace"), raw.splitlines()
    finally:
        os.unlink(f.name)


def witness_leg(run):
    """Replay the witness of the repaired defect: the property must hold on the implementation's observables
    (a disagreement with the model on it is classified like any other)."""
    out, raw = run_corpus_lines([WITNESS])
    if not raw or "\t" not in raw[0]:
        run.violation("harness-failed", {"out": out[-1000:]}, "could not replay the old witness", True)
        return
    ps, impl = raw[0].split("\t")[:2]
    mism = [l for l in out.splitlines() if l.startswith("MISMATCH")]
    for l in mism:
        classify(run, l)
    fails = property_failures(parse_prog(ps), parse_obs(impl))
    if fails and not mism:
        # model and implementation agree on a run on which the property fails: the theorems are about other code
        run.violation("%s:%s" % ("+".join(sorted(set(k for k, _ in fails))), ps),
                      {"prog": ps, "impl": impl, "property_failures": fails, "how": HOW},
                      "%s  [%s]" % ("; ".join(x for _, x in fails[:3]), ps))
    run.coverage["fixed_witness"] = {"prog": ps, "impl": impl, "property_holds": not fails, "model_agrees": not mism}


def writer_leg(run):
    """Wrapper over a scripted underlying writer (model/RWriter.v): differential run + the property evaluated
    on what the scripted writer really received."""
    n = 400000 if run.tier == "thorough" else run.scaled(40000)
    corpus = os.path.join(C.VERIF, "corpus", "C15", "writer_ops.txt")
    outs = []
    if os.path.exists(corpus):
        outs.append(C.sh([os.path.join(C.BIN, "c15w"), "-file", corpus])[1])
    outs.append(C.sh([os.path.join(C.BIN, "c15w"), "-n", str(n), "-seed", str(run.seed)], timeout=900)[1])
    raw = "".join(outs)
    p = subprocess.run([os.path.join(C.BIN, "c15w_model")], input=raw.encode(), stdout=subprocess.PIPE,
                       env=C.vm_env(run.seed, max(1, n // 150)))
    out = p.stdout.decode("utf-8", "replace")
    VMW.extend(l for l in out.splitlines() if l.startswith("VMCASE"))
    how = "echo '<ops>' > f; build/bin/c15w -file f | build/bin/c15w_model"
    pf = [l.split("\t") for l in raw.splitlines() if l.startswith("PROPFAIL")]
    pf.sort(key=lambda t: len(t[1]))
    failing = set()
    for t in pf[:10]:
        failing.add(t[1])
        run.violation("writer:%s" % t[1], {"writer_ops": t[1], "property_failures": t[2], "how": how},
                      "%s  [underlying-writer script %s]" % (t[2], t[1]))
    mm = [l.split("\t") for l in out.splitlines() if l.startswith("MISMATCH")]
    mm.sort(key=lambda t: len(t[2]))
    k = 0
    for t in mm:
        if t[2] in failing or any(x[1] == t[2] for x in pf):
            continue
        run.violation("corr-writer:%s" % t[2], {"writer_ops": t[2], "impl": t[3], "model": t[4], "how": how,
                      "theorem": "correspondence A (responseWriter over a scripted underlying writer vs model/RWriter.v); "
                                 "C15_writer_any_underlying no longer tied to the code"},
                      "wrapper and model/RWriter.v disagree but the getters match what the client received  [%s]" % t[2],
                      no_input_found=True)
        k += 1
        if k >= 10:
            break
    m = re.search(r"SUMMARY n=(\d+) ops=(\d+) mismatches=(\d+)", out)
    if p.returncode != 0 or not m:
        run.violation("harness-failed", {"out": out[-1500:], "raw": raw[-500:]}, "C15 writer-leg harness or driver failed", True)
        return
    kinds = {"short": 0, "partial_error": 0, "zero_error": 0, "wh_panic": 0}
    for l in raw.splitlines()[:20000]:
        if l.startswith("OPS"):
            for o in l.split("\t")[1].split(";"):
                f = o[1:].split(":")
                if o[0] == "W":
                    ln, pn, n_, e = map(int, f)
                    if e and n_ > 0:
                        kinds["partial_error"] += 1
                    elif e:
                        kinds["zero_error"] += 1
                    elif n_ < ln:
                        kinds["short"] += 1
                    if pn:
                        kinds["wh_panic"] += 1
                elif int(f[1]):
                    kinds["wh_panic"] += 1
    run.coverage["writer_leg"] = {"sequences": int(m.group(1)), "wrapper_calls": int(m.group(2)),
                                  "mismatches": int(m.group(3)), "property_failures": len(pf),
                                  "op_kinds_in_first_20000_sequences": kinds,
                                  "rule": "random sequences of 1..7 WriteHeader/Write calls over a scripted underlying writer "
                                          "(short writes, n>0 with error, (0,err), panicking WriteHeader)"}


def run(run):
    C.proof_leg(run, PROP, PROOFS, trusted_extra=[
        "hand model of httptest.ResponseRecorder, net/http.Error and http.DetectContentType (constant text/plain on "
        "lower-case ASCII bodies) — modelled, tied by the differential run",
        "extraction via ExtrOcamlBasic only; OCaml driver ocaml/c15.ml + util.ml; Go harness cmd/c15 "
        "(closures compiled from programs, entry/exit wrappers around the real built-in middlewares, "
        "reflection on ResponseRecorder.wroteHeader); property predicate checks/c15.py:property_failures"])
    okb, log = C.go_build(GO)
    if not okb:
        run.violation("build-go", {"log": log[-3000:]}, "harness does not build against /repo", True)
        return
    oko, log = C.ocaml_build(OCAML)
    if not oko:
        run.violation("build-ocaml", {"log": log[-3000:]}, "model driver does not build", True)
        return
    stats, mism = {}, []
    del VM[:], VMW[:]
    witness_leg(run)
    writer_leg(run)
    corpus = os.path.join(C.VERIF, "corpus", "C15", "programs.txt")
    if os.path.exists(corpus):
        mism += run_stream(["-mode", "corpus", "-file", corpus], run, stats, stride=1)
    n_corpus, n_vm_corpus = stats.get("n", 0), len(VM)
    thorough = run.tier == "thorough"
    shards = C.NPROC if thorough else min(4, C.NPROC)
    jobs = []
    if thorough:
        exh = [("small", 3, 3), ("medium", 3, 2), ("medium", 2, 4)]
        nrand = 16000000
    else:
        exh = [("medium", 3, 2), ("small", 2, 3)]
        nrand = run.scaled(240000)        # anchor drift: escalated budget
    for alpha, hmax, amax in exh:
        for i in range(shards):
            jobs.append(["-mode", "exhaustive", "-alpha", alpha, "-hmax", str(hmax), "-amax", str(amax),
                         "-shard", str(i), "-shards", str(shards)])
    n_exh_jobs = len(jobs)
    for i in range(shards):
        jobs.append(["-mode", "random", "-n", str(nrand // shards), "-seed", str(run.seed), "-shard", str(i)])
    exh_stats, rnd_stats = {}, {}
    with cf.ThreadPoolExecutor(max_workers=shards) as ex:
        futs = [ex.submit(run_stream, a, run, exh_stats if j < n_exh_jobs else rnd_stats, 1500 if not thorough else 60000)
                for j, a in enumerate(jobs)]
        for f in futs:
            mism += f.result()
    for d in (exh_stats, rnd_stats):
        for k, v in d.items():
            stats[k] = stats.get(k, 0) + v
    # shortest programs first: the smallest disagreeing inputs become the replays
    # (a failing input for the property is worth more than a bare disagreement, so those are reported first)
    mism.sort(key=lambda l: len(l.split("\t")[2]) if l.count("\t") >= 2 else 0)
    for only in ("prop", "corr"):
        k = 0
        for line in mism[:20000]:
            if classify(run, line, only):
                k += 1
                if k >= 30:
                    break
    # extraction re-validation (both drivers): corpus + a deterministic sample, re-evaluated by Coq's VM
    C.vm_crosscheck(run, "c15", ["Chain"], *vm_terms(VM[:n_vm_corpus] + C.vm_thin(VM[n_vm_corpus:], 250, run.seed)))
    C.vm_crosscheck(run, "c15w", ["RWriter"], *vmw_terms(C.vm_thin(VMW, 200, run.seed)))
    samples = []
    rc, out = C.sh([os.path.join(C.BIN, "c15"), "-mode", "random", "-n", "5", "-seed", str(run.seed + 7)])
    for l in out.splitlines()[:5]:
        t = l.split("\t")
        if len(t) == 2:
            samples.append({"program": t[0], "observed": t[1]})
    skip = ("n", "mismatches", "exec_ref_diff")
    cov = run.coverage
    cov.update({
        "evaluations": stats.get("n", 0),
        "distinct_nontrivial": stats.get("nontrivial", 0),
        "rule": "witness + corpus + EVERY chain of 1..h handlers (each the recovery middleware or a user handler of 0..a "
                "actions) for (alphabet,h,a) in %s [small={Next,Abort,WriteHeader 404,Write,panic}, medium=small+{return,"
                "Set header}] (%d programs, all distinct) + %d distinct random programs (3/4 mostly-valid stream, 1/4 weird "
                "stream; up to 8 handlers x 6 actions; built-ins recovery/headers/header-ops/state/wildcard/logger/metrics at "
                "random positions; SplitMix64 seed %d). non-trivial = at least 2 handlers entered and at least 6 events; "
                "programs are de-duplicated within each shard" % (
                    exh, exh_stats.get("n", 0), rnd_stats.get("n", 0), run.seed),
        "samples": samples,
        "exhaustive": False,
        "input_distribution": {k: v for k, v in sorted(stats.items()) if k not in skip},
        "input_distribution_random_only": {k: v for k, v in sorted(rnd_stats.items()) if k not in skip},
        "mismatches": len(mism),
        "exec_vs_ref_disagreements_in_extracted_code": stats.get("exec_ref_diff", 0),
        "corpus_cases": n_corpus,
        "traces_validated_against_impl": stats.get("n", 0),
    })
    if stats.get("exec_ref_diff", 0):
        run.violation("extraction-exec-ref", {"count": stats["exec_ref_diff"]},
                      "extracted exec and ref disagree although C15_refines is proved: extraction/driver broken", True)
    run.assumptions += [
        "the client is an httptest.ResponseRecorder (what a real net/http server does with 1xx codes is not observed)",
        "the ghost call log the getter spec is stated on lists the wrapper calls that returned; a WriteHeader that "
        "panicked in net/http (code outside 100..999) is not a status that was written",
        "http.DetectContentType modelled as constant text/plain (unreachable through the wrapper since /repo d237067, kept for faithfulness)",
        "the order/nesting/abort theorems see built-in middlewares only through entry/exit (their Next/Abort calls are "
        "inside the real closures)"]


def replay(path):
    """Re-run the program recorded in a replay file against the current /repo."""
    rp = json.load(open(path))
    ps = rp["replay"].get("prog")
    wops = rp["replay"].get("writer_ops")
    if wops:
        okb, log = C.go_build(GO)
        oko, log2 = C.ocaml_build(OCAML)
        if not (okb and oko):
            print(log, log2)
            return 1
        with tempfile.NamedTemporaryFile("w", suffix=".txt", delete=False) as f:
            f.write(wops + "\n")
        rc, raw = C.sh([os.path.join(C.BIN, "c15w"), "-file", f.name])
        os.unlink(f.name)
        p = subprocess.run([os.path.join(C.BIN, "c15w_model")], input=raw.encode(), stdout=subprocess.PIPE)
        out = p.stdout.decode("utf-8", "replace")
        print(raw + out)
        if "PROPFAIL" in raw or "MISMATCH" in out:
            print("VIOLATION property=C15 replay=%s" % path)
            return 1
        return 0
    if not ps:
        print("replay names a broken obligation, not an input:", rp.get("what"))
        return 1
    okb, log = C.go_build(GO)
    oko, log2 = C.ocaml_build(OCAML)
    if not (okb and oko):
        print(log, log2)
        return 1
    out, raw = run_corpus_lines([ps])
    print("\n".join(raw))
    print(out)
    bad = "MISMATCH" in out
    if raw and "\t" in raw[0]:
        p2, impl = raw[0].split("\t")[:2]
        fails = property_failures(parse_prog(p2), parse_obs(impl))
        for k, x in fails:
            print("PROPERTY FAILS (%s): %s" % (k, x))
        bad = bad or bool(fails)
    if bad:
        print("VIOLATION property=C15 replay=%s" % path)
        return 1
    return 0
