(* C08 correspondence driver.  Reads the lines printed by harness/cmd/fsm on stdin.

   RAW <id> <prog> <subs>
     prog: space-separated  t<to>=<ok> | i<from><to>=<ok> | s<to>=<ok> | g<st> | r<0|1>
           (Transition / TransitionIfCurrentState / SetState with the observed outcome, GetState,
           IsRunning), executed sequentially by one goroutine on a fresh finitestate.Machine
     subs: ';'-separated  lo,hi,ulo,uhi,closed,cancelled,<digits received>[,ms[,rcv]]
           lo..hi bound the number of state changes at registration/read, ulo..uhi at un-registration;
           ms = milliseconds between the cancel and the consumer seeing the close (-1 unknown),
           rcv = number of values the consumer had received when the subscription was cancelled
   RUN <runner> <id> <events> <subs> <res> <state-at-return> <notes>
     events: space-separated code lists (see coq/model/FsmRunners.v: 0,.. machine label of the
           reference subscriber / polls, 1,.. runner label); subs as above with bounds relative to the
           reference subscriber's history (-1 = end); res: 1 nil, 0 error, 2 Run did not return
   STORM <counters> <examples>

   Output: MISMATCH <kind> <id> <details>   and one  SUMMARY k=v ...  line. *)
open Model
open Util

let st_of_int (i : int) : st =
  match i with
  | 0 -> New | 1 -> Booting | 2 -> Running | 3 -> Reloading | 4 -> Stopping | 5 -> Stopped
  | 6 -> Error | _ -> Unknown

let int_of_st (s : st) : int = int_of_n (st_code s)
let digit c = Char.code c - 48
let sts_of_digits (s : string) : st list = List.init (String.length s) (fun i -> st_of_int (digit s.[i]))
let digits_of_sts (l : st list) : string = String.concat "" (List.map (fun s -> string_of_int (int_of_st s)) l)
let split c s = if s = "" then [] else String.split_on_char c s

let counters : (string, int) Hashtbl.t = Hashtbl.create 64
let bump ?(by = 1) k = Hashtbl.replace counters k (by + try Hashtbl.find counters k with Not_found -> 0)
let mism = ref 0
let mismatch kind id detail =
  incr mism;
  bump ("mm_" ^ kind);
  Printf.printf "MISMATCH %s %s %s\n" kind id detail

let distinct : (string, unit) Hashtbl.t = Hashtbl.create 1024

(* one extra subscriber against the history [h] (list of changes) *)
let check_sub id h (spec : string) =
  let fields = split ',' spec in
  (* forwardGrace of internal/finitestate: a cancelled subscriber whose consumer does not read for this
     long loses the values still in flight (model label LFwdAbort, flag [dropped]: outside the hypothesis
     "the consumer keeps up").  The close can then not be seen earlier than one grace after the cancel. *)
  let grace_ms = 100 in
  let close_ms = match fields with _ :: _ :: _ :: _ :: _ :: _ :: _ :: ms :: _ -> (try int_of_string ms with _ -> -1) | _ -> -1 in
  let rcv = match fields with [_; _; _; _; _; _; _; _; r] -> (try Stdlib.max 0 (int_of_string r) with _ -> 0) | _ -> 0 in
  match fields with
  | [lo; hi; ulo; uhi; closed; cancelled; got] | [lo; hi; ulo; uhi; closed; cancelled; got; _]
  | [lo; hi; ulo; uhi; closed; cancelled; got; _; _] ->
    let n = List.length h in
    let fix x = let v = int_of_string x in if v < 0 || v > n then n else v in
    let lo = fix lo and hi = fix hi and ulo = fix ulo and uhi = fix uhi in
    let closed = closed = "1" and cancelled = cancelled = "1" in
    let got = sts_of_digits got in
    bump "subs";
    if closed && not cancelled then mismatch "closed-without-cancel" id spec
    else if cancelled && not closed then mismatch "not-closed" id spec
    else begin
      match classify_stream h got closed (nat_of_int lo) (nat_of_int hi) (nat_of_int ulo) (nat_of_int uhi) with
      | Some g ->
        let g = int_of_nat g in
        if g = 0 then bump "stream_exact"
        else if g = 1 then begin
          bump "stream_dup";
          (* with the candidate repair (a) in the repository (model switch fix_sub) a duplicate is a disagreement too *)
          if fix_sub then mismatch "stream-unexplained" id (Printf.sprintf "duplicate-after-fix got=%s hist=%s %s" (digits_of_sts got) (digits_of_sts h) spec)
        end
        else begin
          bump "stream_stale";
          mismatch "stream-stale" id (Printf.sprintf "gap=%d got=%s hist=%s %s" g (digits_of_sts got) (digits_of_sts h) spec)
        end
      | None ->
        if closed && cancelled && close_ms >= grace_ms
           && classify_slow h got (nat_of_int lo) (nat_of_int hi) (nat_of_int ulo) (nat_of_int uhi)
                (nat_of_int (close_ms / grace_ms)) (nat_of_int rcv)
        then
          (* the expected stream with at most (close_ms / grace) values missing, none of them delivered to the
             wrapped channel before the cancel, and the consumer saw the close >= one grace period after the
             cancel: the consumer did not keep reading (machine load); outside the hypothesis, counted, not a
             disagreement *)
          bump "stream_slow_after_cancel"
        else
          mismatch "stream-unexplained" id (Printf.sprintf "got=%s hist=%s %s" (digits_of_sts got) (digits_of_sts h) spec)
    end
  | [""] | [] -> ()
  | _ -> mismatch "parse" id spec

let check_raw id prog subs =
  bump "raw";
  let cur = ref New and h = ref [] in
  List.iter (fun tok ->
      if tok <> "" then begin
        bump "raw_steps";
        let opcase o okc =
          let ok = okc = '1' in
          match op_result fsm_cfg !cur o with
          | Some t ->
            if not ok then mismatch "raw-op" id (tok ^ " model=ok") else (cur := t; h := t :: !h; bump "raw_ok")
          | None -> if ok then mismatch "raw-op" id (tok ^ " model=fail") else bump "raw_fail"
        in
        match tok.[0] with
        | 't' -> opcase (OTrans (st_of_int (digit tok.[1]))) tok.[3]
        | 's' -> opcase (OSet (st_of_int (digit tok.[1]))) tok.[3]
        | 'i' -> opcase (OTransIf (st_of_int (digit tok.[1]), st_of_int (digit tok.[2]))) tok.[4]
        | 'g' -> if int_of_st !cur <> digit tok.[1] then mismatch "raw-get" id tok
        | 'r' -> if is_running !cur <> (tok.[1] = '1') then mismatch "isrunning" id tok
        | _ -> mismatch "parse" id tok
      end)
    (split ' ' prog);
  let h = List.rev !h in
  List.iter (check_sub id h) (split ';' subs)

let parse_event (s : string) : n list = List.map (fun x -> n_of_int (int_of_string x)) (split ',' s)

let fuel = nat_of_int 20000

let check_run kind id events subs res final notes =
  bump "run";
  bump ("run_" ^ kind);
  List.iter (fun nt -> if nt <> "" then bump ("note_" ^ nt)) (split ',' notes);
  let evs = split ' ' events in
  if not (Hashtbl.mem distinct (kind ^ events)) then (Hashtbl.add distinct (kind ^ events) (); bump "distinct_traces");
  (* reference history *)
  let ref_got = List.filter_map (fun e ->
      match split ',' e with ["0"; "4"; "0"; v] -> Some (st_of_int (int_of_string v)) | _ -> None) evs in
  (match ref_got with
   | New :: h ->
     bump ~by:(List.length h) "changes";
     (match first_bad_step fsm_cfg New h with
      | Some (a, b) -> mismatch "walk" id (Printf.sprintf "edge=%d>%d hist=%s" (int_of_st a) (int_of_st b) (digits_of_sts h))
      | None ->
        match first_undocumented New h with
        | Some (a, b) -> mismatch "walk" id (Printf.sprintf "edge=%d>%d undocumented hist=%s" (int_of_st a) (int_of_st b) (digits_of_sts h))
        | None -> ());
     List.iter (check_sub id h) (split ';' subs)
   | _ -> mismatch "ref-first" id ("ref=" ^ digits_of_sts ref_got));
  (* polls: each GetState / IsRunning observation is checked by the acceptor (labels LGet / LIsRun);
     a pair cannot be compared directly because the runner may move between the two loads *)
  List.iter (fun e -> match split ',' e with ["0"; "7"; _] -> bump "polls" | _ -> ()) evs;
  (* Run()'s result against the state read when it returned *)
  (match res with
   | "2" -> mismatch "hang" id notes
   | _ ->
     let nil = res = "1" in
     bump (if nil then "res_nil" else "res_err");
     let f = st_of_int (int_of_string final) in
     if not (result_okb nil f) then
       mismatch "result" id (Printf.sprintf "%s:%s-with-%d notes=%s" kind (if nil then "nil" else "err") (int_of_st f) notes));
  (* acceptance by the runner model *)
  let trace = List.map parse_event evs in
  let (acc, ok), depth =
    match kind with
    | "composite" -> verdict (composite_accept fuel trace)
    | "http" -> verdict (http_accept fuel trace)
    | _ -> verdict (cluster_accept fuel trace)
  in
  bump ~by:(List.length evs) "events";
  if not ok then bump "inconclusive"
  else if acc then bump "accepted"
  else begin
    let d = int_of_nat depth in
    let at = try List.nth evs d with _ -> "end" in
    mismatch "accept" id (Printf.sprintf "depth=%d/%d at=%s" d (List.length evs) at)
  end

let check_storm info examples =
  Printf.printf "STORM %s\n" info;
  List.iter (fun ex ->
      if String.length ex > 6 && String.sub ex 0 6 = "OTHER:" then mismatch "stream-unexplained" "storm" ex
      else begin
        let names = split ',' ex in
        let st_of_name = function
          | "New" -> New | "Booting" -> Booting | "Running" -> Running | "Reloading" -> Reloading
          | "Stopping" -> Stopping | "Stopped" -> Stopped | "Error" -> Error | _ -> Unknown in
        let got = List.map st_of_name names in
        match got with
        | _ :: h ->
          (* window of the history: the changes the subscriber was sent *)
          let n = nat_of_int (List.length h) in
          (match classify_stream h got false O n n n with
           | Some g when int_of_nat g >= 2 -> bump "storm_stale_confirmed"
           | _ -> bump "storm_unclassified")
        | [] -> ()
      end)
    (split ';' examples)

let () =
  (try
     while true do
       let line = input_line stdin in
       match split_tab line with
       | ["RAW"; id; prog; subs] -> check_raw id prog subs
       | ["RUN"; kind; id; events; subs; res; final; notes] -> check_run kind id events subs res final notes
       | ["RUN"; kind; id; events; subs; res; final] -> check_run kind id events subs res final ""
       | ["STORM"; info; examples] -> check_storm info examples
       | ["STORM"; info] -> check_storm info ""
       | _ -> if line <> "" then mismatch "parse" "-" (String.sub line 0 (min 80 (String.length line)))
     done
   with End_of_file -> ());
  let b = Buffer.create 256 in
  Hashtbl.iter (fun k v -> Buffer.add_string b (Printf.sprintf " %s=%d" k v)) counters;
  Printf.printf "SUMMARY mismatches=%d%s\n" !mism (Buffer.contents b)
