(* C15 correspondence driver.
   stdin lines:   PROG <TAB> OBS      (both produced by harness/cmd/c15)
     PROG = m=<method> p=<path> f=<0|1> c=<h>|<h>|...
            h    = U:<a>,<a>,... | REC | HDR:k=v.k=v | OPS:k.k/k=v.k=v/k=v | ST<v> | WC:<prefix> | LOG | MET
            a    = N | A | R | ! | H<code> | W<letters> | S<k>=<v> | P<k>=<v> | X<k>
            f=1  : the last handler was installed as the http.HandlerFunc of NewRouteFromHandlerFunc
                   (it cannot call IsAborted, so its observations carry '-' in that position)
     OBS  = t=<ev,ev..> esc=<0|1> code=<n> wrote=<0|1> body=<hex> snap=<hdrs> live=<hdrs>
            st=<n> wr=<0|1> sz=<n> ab=<0|1|-> path=<string>
            ev   = E<i> X<i> N<i> n<i> A<i> U<i> O<i>:<status>:<written>:<size>:<aborted>
                   L<i>:<status>:<size> (what logger.New logged)  M<i>:<status> (metrics.New)
            hdrs = k:v.v;k:v sorted by key
   stdout: MISMATCH <TAB> fields <TAB> PROG <TAB> impl OBS <TAB> model OBS     per disagreement
           VMCASE <TAB> hex(PROG) <TAB> (forget (exec ..), final_aborted ..) as a Coq term   only with VM_SAMPLE (util.ml)
           SUMMARY k=v ...                                                      last line *)
open Model
open Util

let mk = Stdlib.ref
let ( ! ) = Stdlib.( ! )
let ( := ) = Stdlib.( := )
let incr = Stdlib.incr

let split c s = if s = "" then [] else String.split_on_char c s

let bytes_of_string (s : string) : n list =
  List.init (String.length s) (fun i -> byte_tab.(Char.code s.[i]))

let string_of_bytes (l : n list) : string =
  String.concat "" (List.map (fun b -> String.make 1 (Char.chr (int_of_n b land 255))) l)

let kv_of (s : string) : n * n =
  match String.split_on_char '=' s with
  | [k; v] -> (n_of_int (int_of_string k), n_of_int (int_of_string v))
  | _ -> failwith ("bad kv " ^ s)

let parse_action (s : string) : action =
  if s = "" then failwith "empty action" else
  let rest = String.sub s 1 (String.length s - 1) in
  match s.[0] with
  | 'N' -> ANext
  | 'A' -> AAbort
  | 'R' -> AReturn
  | '!' -> APanic
  | 'H' -> AWriteHeader (n_of_int (int_of_string rest))
  | 'W' -> AWrite (bytes_of_string rest)
  | 'S' -> let (k, v) = kv_of rest in ASetH (k, v)
  | 'P' -> let (k, v) = kv_of rest in AAddH (k, v)
  | 'X' -> ADelH (n_of_int (int_of_string rest))
  | _ -> failwith ("bad action " ^ s)

let has_prefix p s = String.length s >= String.length p && String.sub s 0 (String.length p) = p
let after p s = String.sub s (String.length p) (String.length s - String.length p)

(* kind: 'U' user, 'B' builtin, 'L' logger, 'M' metrics *)
let parse_handler (s : string) : handler * char =
  if has_prefix "U:" s then (User (List.map parse_action (split ',' (after "U:" s))), 'U')
  else if s = "REC" then (Recovery, 'B')
  else if has_prefix "HDR:" s then (Headers (List.map kv_of (split '.' (after "HDR:" s))), 'B')
  else if has_prefix "OPS:" s then begin
    match String.split_on_char '/' (after "OPS:" s) with
    | [d; st; ad] ->
      (HeaderOps (List.map (fun k -> n_of_int (int_of_string k)) (split '.' d),
                  List.map kv_of (split '.' st), List.map kv_of (split '.' ad)), 'B')
    | _ -> failwith ("bad OPS " ^ s)
  end
  else if has_prefix "ST" s then (State (n_of_int (int_of_string (after "ST" s))), 'B')
  else if has_prefix "WC:" s then (Wildcard (bytes_of_string (after "WC:" s)), 'B')
  else if s = "LOG" then (Observer, 'L')
  else if s = "MET" then (Observer, 'M')
  else failwith ("bad handler " ^ s)

type prog = { meth : string; path : string; final : bool; hs : handler list; kinds : char array; raw : string list }

let parse_prog (s : string) : prog =
  match String.split_on_char ' ' s with
  | [m; p; f; c] when has_prefix "m=" m && has_prefix "p=" p && has_prefix "f=" f && has_prefix "c=" c ->
    let hl = String.split_on_char '|' (after "c=" c) in
    let parsed = List.map parse_handler hl in
    { meth = after "m=" m; path = after "p=" p; final = (after "f=" f = "1");
      hs = List.map Stdlib.fst parsed; kinds = Array.of_list (List.map Stdlib.snd parsed); raw = hl }
  | _ -> failwith "bad prog"

let b2s b = if b then "1" else "0"

let hdrs_str (h : hdrs) : string =
  let l = List.map (fun (k, vs) -> (int_of_n k, List.map int_of_n vs)) h in
  let l = List.sort compare l in
  String.concat ";" (List.map (fun (k, vs) ->
    Printf.sprintf "%d:%s" k (String.concat "." (List.map string_of_int vs))) l)

let ev_str (p : prog) (e : event) : string option =
  let nh = Array.length p.kinds in
  let kind i = if i >= 0 && i < nh then p.kinds.(i) else '?' in
  let lastf i = p.final && i = nh - 1 in
  match e with
  | EEnter i -> Some (Printf.sprintf "E%d" (int_of_z i))
  | EExit i -> Some (Printf.sprintf "X%d" (int_of_z i))
  | EUnwind i -> Some (Printf.sprintf "U%d" (int_of_z i))
  | ENextCall i -> if kind (int_of_z i) = 'U' then Some (Printf.sprintf "N%d" (int_of_z i)) else None
  | ENextRet i -> if kind (int_of_z i) = 'U' then Some (Printf.sprintf "n%d" (int_of_z i)) else None
  | EAbort i -> if kind (int_of_z i) = 'U' then Some (Printf.sprintf "A%d" (int_of_z i)) else None
  | ERecovered (_, _, _) -> None
  | EObs (i, st, wr, sz, ab) ->
    let i = int_of_z i in
    (match kind i with
     | 'U' -> Some (Printf.sprintf "O%d:%d:%s:%d:%s" i (int_of_n st) (b2s wr) (int_of_n sz)
                      (if lastf i then "-" else b2s ab))
     | 'L' -> Some (Printf.sprintf "L%d:%d:%d" i (int_of_n st) (int_of_n sz))
     | 'M' -> Some (Printf.sprintf "M%d:%d" i (int_of_n st))
     | _ -> None)

let rec filter_map f = function
  | [] -> []
  | x :: t -> (match f x with Some y -> y :: filter_map f t | None -> filter_map f t)

(* the model's observation, as the list of (field, value) the harness prints *)
let model_obs (p : prog) : (string * string) list * core outcome =
  let path = bytes_of_string p.path in
  let o = exec (exec_fuel p.hs) p.hs path in
  let fo = forget o in
  match o with
  | Done s | Panicked s ->
    let c = s.m_core in
    let w = c.c_w in
    let esc = (match o with Panicked _ -> true | _ -> false) in
    ([ ("t", String.concat "," (filter_map (ev_str p) c.c_tr));
       ("esc", b2s esc);
       ("code", string_of_int (int_of_n w.rc.r_code));
       ("wrote", b2s w.rc.r_wrote);
       ("body", hex_of_str w.rc.r_body);
       ("snap", hdrs_str (result_hdr w));
       ("live", hdrs_str w.rc.r_hdr);
       ("st", string_of_int (int_of_n (g_status w)));
       ("wr", b2s (g_written w));
       ("sz", string_of_int (int_of_n (g_size w)));
       ("ab", b2s (final_aborted p.hs o));
       ("path", string_of_bytes c.c_path) ], fo)
  | OutOfFuel -> ([ ("t", "OUT-OF-FUEL") ], fo)
  | Stuck -> ([ ("t", "STUCK") ], fo)

(* ---- extraction re-validation: the model's result as a Coq term (util.ml, checks/common.py vm_crosscheck) ---- *)
let coq_hdrs (h : hdrs) : string = coq_list (coq_pair coq_n (coq_list coq_n)) h
let coq_wop = function
  | OpWH c -> "(OpWH " ^ coq_n c ^ ")"
  | OpW l -> "(OpW " ^ coq_n l ^ ")"
let coq_event = function
  | EEnter i -> "(EEnter " ^ coq_z i ^ ")"
  | EExit i -> "(EExit " ^ coq_z i ^ ")"
  | ENextCall i -> "(ENextCall " ^ coq_z i ^ ")"
  | ENextRet i -> "(ENextRet " ^ coq_z i ^ ")"
  | EAbort i -> "(EAbort " ^ coq_z i ^ ")"
  | EUnwind i -> "(EUnwind " ^ coq_z i ^ ")"
  | ERecovered (i, b, c) -> Printf.sprintf "(ERecovered %s %s %s)" (coq_z i) (coq_bool b) (coq_n c)
  | EObs (i, st, wr, sz, ab) ->
    Printf.sprintf "(EObs %s %s %s %s %s)" (coq_z i) (coq_n st) (coq_bool wr) (coq_n sz) (coq_bool ab)
let coq_wstate (w : wstate) : string =
  Printf.sprintf "(mkW (mkWrap %s %s %s) (mkRec %s %s %s %s %s %s) %s)"
    (coq_n w.wr.w_status) (coq_bool w.wr.w_written) (coq_n w.wr.w_size)
    (coq_bool w.rc.r_wrote) (coq_n w.rc.r_code) (coq_nlist w.rc.r_body) (coq_hdrs w.rc.r_hdr)
    (coq_option coq_hdrs w.rc.r_snap) (coq_n w.rc.r_acc) (coq_list coq_wop w.ops)
let coq_core (c : core) : string =
  Printf.sprintf "(mkC %s %s %s)" (coq_wstate c.c_w) (coq_nlist c.c_path) (coq_list coq_event c.c_tr)
let coq_outcome (o : core outcome) : string =
  match o with
  | Done c -> "(Done " ^ coq_core c ^ ")"
  | Panicked c -> "(Panicked " ^ coq_core c ^ ")"
  | OutOfFuel -> "OutOfFuel"
  | Stuck -> "Stuck"
let hex_of_string (s : string) : string =
  String.concat "" (List.init (String.length s) (fun i -> Printf.sprintf "%02x" (Char.code s.[i])))

let parse_obs (s : string) : (string * string) list =
  List.map (fun kv ->
    match String.index_opt kv '=' with
    | Some i -> (String.sub kv 0 i, String.sub kv (i + 1) (String.length kv - i - 1))
    | None -> (kv, "")) (String.split_on_char ' ' s)

let obs_line l = String.concat " " (List.map (fun (k, v) -> k ^ "=" ^ v) l)

(* does the trace (model side) contain ... *)
let count_if f l = List.length (List.filter f l)

let () =
  let n = mk 0 and mism = mk 0 and refdiff = mk 0 in
  let stat = Hashtbl.create 32 in
  let bump k = Hashtbl.replace stat k (1 + (try Hashtbl.find stat k with Not_found -> 0)) in
  let keys = [ "panic_action"; "abort_action"; "double_next"; "write_before_next"; "write_after_next";
               "return_action"; "recovery_mw"; "builtin_mw"; "wildcard_mw"; "chain_cut_short";
               "invalid_code"; "info_code"; "nobody_code"; "final_as_handlerfunc";
               "escaped_panic"; "recovered_panic"; "recovered_after_send"; "aborted_chain";
               "len1"; "len2_3"; "len4_8"; "nontrivial"; "status_after_body"; "ignored_status" ] in
  List.iter (fun k -> Hashtbl.replace stat k 0) keys;
  (try
     while true do
       let line = input_line stdin in
       if line <> "" then begin
         incr n;
         match String.split_on_char '\t' line with
         | [ps; os] ->
           (try
              let p = parse_prog ps in
              let (mo, fo) = model_obs p in
              (* extraction sanity: the two interpreters agree (proved as exec_ref) *)
              if fo <> Model.ref p.hs (bytes_of_string p.path) then incr refdiff;
              if vm_pick !n then
                Printf.printf "VMCASE\t%s\t(%s, %s)\n" (hex_of_string ps) (coq_outcome fo)
                  (coq_bool (final_aborted p.hs (exec (exec_fuel p.hs) p.hs (bytes_of_string p.path))));
              let io = parse_obs os in
              let bad = List.filter (fun (k, v) ->
                  match List.assoc_opt k io with
                  | Some iv -> iv <> v && not (k = "ab" && iv = "-")
                  | None -> true) mo in
              if bad <> [] || List.length io <> List.length mo then begin
                incr mism;
                Printf.printf "MISMATCH\t%s\t%s\t%s\t%s\n"
                  (String.concat "," (List.map Stdlib.fst bad)) ps os (obs_line mo)
              end;
              (* input distribution, measured on the program and on the model's run *)
              let users = filter_map (function User a -> Some a | _ -> None) p.hs in
              let acts = List.concat users in
              let has f = List.exists f acts in
              if has (fun a -> a = APanic) then bump "panic_action";
              if has (fun a -> a = AAbort) then bump "abort_action";
              if has (fun a -> a = AReturn) then bump "return_action";
              if List.exists (fun a -> count_if (fun x -> x = ANext) a >= 2) users then bump "double_next";
              let rec before_next seen = function
                | [] -> false
                | ANext :: _ -> seen
                | (AWrite _ | AWriteHeader _) :: t -> before_next true t
                | _ :: t -> before_next seen t in
              let rec after_next seen = function
                | [] -> false
                | ANext :: t -> after_next true t
                | (AWrite _ | AWriteHeader _) :: t -> seen || after_next seen t
                | _ :: t -> after_next seen t in
              if List.exists (fun a -> before_next false a) users then bump "write_before_next";
              if List.exists (fun a -> after_next false a) users then bump "write_after_next";
              let codes = filter_map (function AWriteHeader c -> Some (int_of_n c) | _ -> None) acts in
              if List.exists (fun c -> c < 100 || c > 999) codes then bump "invalid_code";
              if List.exists (fun c -> c >= 100 && c < 200) codes then bump "info_code";
              if List.exists (fun c -> c = 204 || c = 304) codes then bump "nobody_code";
              if List.mem Recovery p.hs then bump "recovery_mw";
              if Array.exists (fun k -> k <> 'U') p.kinds then bump "builtin_mw";
              if List.exists (function Wildcard _ -> true | _ -> false) p.hs then bump "wildcard_mw";
              if p.final then bump "final_as_handlerfunc";
              let nh = List.length p.hs in
              bump (if nh = 1 then "len1" else if nh <= 3 then "len2_3" else "len4_8");
              (match fo with
               | Done c | Panicked c ->
                 let tr = c.c_tr in
                 (match fo with Panicked _ -> bump "escaped_panic" | _ -> ());
                 if List.exists (function ERecovered (_, _, _) -> true | _ -> false) tr then bump "recovered_panic";
                 if List.exists (function ERecovered (_, true, _) -> true | _ -> false) tr then bump "recovered_after_send";
                 if List.exists (function EAbort _ -> true | _ -> false) tr then bump "aborted_chain";
                 let ne = count_if (function EEnter _ -> true | _ -> false) tr in
                 if ne < nh then bump "chain_cut_short";
                 if ne >= 2 && List.length tr >= 6 then bump "nontrivial";
                 (* WriteHeader calls that came after the first write (ignored by the wrapper) *)
                 (match c.c_w.ops with
                  | OpW _ :: rest when List.exists (function OpWH _ -> true | _ -> false) rest ->
                    bump "status_after_body"
                  | OpWH _ :: rest when List.exists (function OpWH _ -> true | _ -> false) rest ->
                    bump "ignored_status"
                  | _ -> ())
               | _ -> ())
            with Failure m ->
              incr mism;
              Printf.printf "MISMATCH\tparse\t%s\t%s\t%s\n" ps os m)
         | _ -> incr mism; Printf.printf "MISMATCH\tparse\t%s\t-\t-\n" line
       end
     done
   with End_of_file -> ());
  let ks = List.sort compare (Hashtbl.fold (fun k _ acc -> k :: acc) stat []) in
  Printf.printf "SUMMARY n=%d mismatches=%d exec_ref_diff=%d %s\n" !n !mism !refdiff
    (String.concat " " (List.map (fun k -> Printf.sprintf "%s=%d" k (Hashtbl.find stat k)) ks))
