(* C18 cluster-leg driver: goroutine census of the real httpcluster.Runner vs the model census.
   stdin: one trace per line:  T <name> <delay 0|1> <token> <token> ...
     tokens as in harness/cmd/cluster/runner.go plus
       G:<main>,<helpers>,<servers>,<api>,<unknown>   census of a quiescent instant (runtime.Stack)
       RX:<inst>                                      the mock server's Run returned
   stdout:
     ACCEPT name states=n snaps=k / REJECT name depth=d len=n event=<tok> / INCONCLUSIVE name / DISCARD name
     PROPFAIL name <predicate> <detail>     a C18 predicate fails on the IMPLEMENTATION's observables
     MODELPROP name <predicate>             a proved predicate fails on an accepted model state (never)
     SUMMARY k=v ... *)
open Model
open Util

let split c s = String.split_on_char c s

let id_of_x (s : string) : n list =
  if String.length s = 0 || s.[0] <> 'x' then failwith ("bad id " ^ s);
  str_of_hex (String.sub s 1 (String.length s - 1))

let parse_cmap (s : string) : (n list * n option) list =
  if s = "." then []
  else List.map (fun e -> match split ',' e with
      | [k; "-"] -> (id_of_x k, None)
      | [k; c] -> (id_of_x k, Some (n_of_int (int_of_string c)))
      | _ -> failwith ("bad cmap entry " ^ e)) (split ';' s)

let after_colon (tok : string) : string =
  match String.index_opt tok ':' with
  | Some i -> String.sub tok (i + 1) (String.length tok - i - 1)
  | None -> ""

let tag_of tok = match String.index_opt tok ':' with Some i -> String.sub tok 0 i | None -> tok

let nn s = n_of_int (int_of_string s)

let parse_event (tok : string) : gevent option =
  let rest = after_colon tok in
  match tag_of tok with
  | "NB" | "GB" -> None
  | "PD" -> Some GESent
  | "CX" -> Some (GECtxSeen (nn rest))
  | "XS" -> Some (GESelfExit (nn rest))
  | "O" -> Some (GE (EOffer (parse_cmap rest)))
  | "SA" -> Some (GE EStopApi) | "SR" -> Some (GE EStopApiRet)
  | "CA" -> Some (GE ECancel) | "CL" -> Some (GE EClose)
  | "F" ->
    (match split ',' rest with
     | [k; c; i; b] ->
       let b = match b with "r" -> BReady | "n" -> BNever | "e" -> BError | _ -> failwith "beh" in
       Some (GE (EFactory (id_of_x k, nn c, nn i, b)))
     | _ -> failwith "F")
  | "FE" -> (match split ',' rest with [k; c] -> Some (GE (EFactoryErr (id_of_x k, nn c))) | _ -> failwith "FE")
  | "RC" -> Some (GE (ERunCall (nn rest)))
  | "SC" -> Some (GE (EStopCall (nn rest)))
  | "ST" -> Some (GE (EStopRet (nn rest)))
  | "RX" -> Some (GERunRet (nn rest))
  | "N" -> Some (GE (ECount (nn rest)))
  | "S" ->
    Some (GE (EState (match rest with "R" -> CRunning | "L" -> CReloading | "P" -> CStopping | "D" -> CStopped | _ -> COther)))
  | "RR" -> Some (GE ERunReturn)
  | "G" ->
    (match split ',' rest with
     | m :: h :: r :: _ -> Some (GECensus (nn m, nn h, nn r))
     | _ -> failwith "G")
  | _ -> failwith ("event " ^ tok)

(* the property's predicates on what the implementation showed (no model involved) *)
let impl_predicates (name : string) (toks : string list) : int * int =
  let created = Hashtbl.create 16 and stopret = Hashtbl.create 16 and runret = Hashtbl.create 16 in
  let returned = ref false and fails = ref 0 and snaps = ref 0 and maxc = ref 0 in
  let last_g = ref None in
  List.iter (fun tok ->
      let rest = after_colon tok in
      match tag_of tok with
      | "F" -> (match split ',' rest with [_; _; i; _] -> Hashtbl.replace created i () | _ -> ())
      | "ST" -> Hashtbl.replace stopret rest ()
      | "RX" | "XS" -> Hashtbl.replace runret rest ()
      | "RR" -> returned := true
      | "G" ->
        (match List.map int_of_string (split ',' rest) with
         | [m; h; r; api; unk] ->
           incr snaps;
           last_g := Some (m, h, r, api, unk, !returned);
           if m + h + r > !maxc then maxc := m + h + r;
           let sns = Hashtbl.fold (fun i () a -> if Hashtbl.mem stopret i then a else a + 1) created 0 in
           let zomb = Hashtbl.fold (fun i () a -> if Hashtbl.mem runret i then a else a + 1) stopret 0 in
           if unk > 0 then (incr fails; Printf.printf "PROPFAIL %s unknown-goroutine %s\n" name tok);
           if m + h + r > 1 + 2 * sns + zomb then
             (incr fails; Printf.printf "PROPFAIL %s bound-exceeded %s started_not_stopped=%d owed=%d\n" name tok sns zomb);
           if !returned && m + h + r + api + unk > 0 then
             (incr fails; Printf.printf "PROPFAIL %s leak-after-return %s\n" name tok)
         | _ -> ())
      | _ -> ()) toks;
  (match !last_g with
   | Some (_, _, _, _, _, true) -> ()
   | _ -> if !returned then Printf.printf "NOTE %s no-census-after-return\n" name);
  ignore !fails; (!snaps, !maxc)

let () =
  let fuel = match Array.to_list Sys.argv with _ :: f :: _ -> int_of_string f | _ -> 20000 in
  let f = nat_of_int fuel in
  let n = ref 0 and acc = ref 0 and rej = ref 0 and inc = ref 0 and evs = ref 0 and bad = ref 0
  and snaps = ref 0 and disc = ref 0 and maxset = ref 0 and maxc = ref 0 and modelprop = ref 0
  and after_ret = ref 0 in
  let kinds = Hashtbl.create 16 in
  (try
     while true do
       let line = input_line stdin in
       match split ' ' (String.trim line) with
       | "T" :: name :: delay :: toks ->
         incr n;
         (try
            let toks = List.filter (fun t -> t <> "") toks in
            if List.mem "TIMING" toks then (incr disc; Printf.printf "DISCARD %s\n" name)
            else begin
              List.iter (fun t -> let k = tag_of t in
                          Hashtbl.replace kinds k (1 + (try Hashtbl.find kinds k with Not_found -> 0))) toks;
              let kept = List.filter (fun t -> parse_event t <> None) toks in
              let t = List.filter_map parse_event toks in
              evs := !evs + List.length t;
              let (sn, mc) = impl_predicates name toks in
              snaps := !snaps + sn;
              if mc > !maxc then maxc := mc;
              if List.mem "RR" toks && (match List.rev kept with g :: _ -> tag_of g = "G" | [] -> false)
              then incr after_ret;
              let (states, ok) = gaccept (delay = "1") f t in
              let k = List.length states in
              if k > !maxset then maxset := k;
              if not ok then (incr inc; Printf.printf "INCONCLUSIVE %s\n" name)
              else if states = [] then begin
                incr rej;
                let d = int_of_nat (gaccepted_prefix (delay = "1") f t) in
                Printf.printf "REJECT %s depth=%d len=%d event=%s\n" name d (List.length t)
                  (if d < List.length kept then List.nth kept d else "<end>")
              end else begin
                incr acc;
                List.iter (fun g ->
                    if not (clean_okb g) then (incr modelprop; Printf.printf "MODELPROP %s clean\n" name);
                    if not (bound_okb g) then (incr modelprop; Printf.printf "MODELPROP %s bound\n" name)) states;
                Printf.printf "ACCEPT %s states=%d snaps=%d\n" name k sn
              end
            end
          with Failure msg | Invalid_argument msg -> incr bad; Printf.printf "BADTRACE %s %s\n" name msg)
       | _ -> ()
     done
   with End_of_file -> ());
  let kk = Hashtbl.fold (fun k v a -> Printf.sprintf "%s ev_%s=%d" a k v) kinds "" in
  Printf.printf
    "SUMMARY n=%d accepted=%d rejected=%d inconclusive=%d badtrace=%d discarded=%d events=%d snaps=%d after_return=%d maxcensus=%d maxset=%d modelprop=%d%s\n"
    !n !acc !rej !inc !bad !disc !evs !snaps !after_ret !maxc !maxset !modelprop kk
