(* C20 correspondence driver.
   stdin lines:  hex(input) TAB class TAB hex(result) TAB splitok TAB hex(host) TAB hex(port)
     class: 0 ok, 1 ErrEmptyPort, 2 ErrInvalidFormat, 3 ErrPortOutOfRange, 9 other
     split*: net.SplitHostPort(result) as computed by Go (only meaningful for class 0)
   stdout: one line per disagreement:  MISMATCH kind hex(input) details...
           VMCASE hex(input) hex(result) <coq term>   (only with VM_SAMPLE set: the model's outputs for a sampled case,
                  re-evaluated inside Coq by the check — util.ml)
           final line: SUMMARY n=<cases> mismatches=<k> ok=<a> empty=<b> invalid=<c> range=<d> pinned=<p> *)
open Model
open Util

let () =
  let n = ref 0 and mism = ref 0 in
  let cls = Array.make 4 0 in
  let pinned = ref 0 in
  (try
     while true do
       let line = input_line stdin in
       match split_tab line with
       | [hin; c; hres; sok; hh; hp] ->
         incr n;
         let s = str_of_hex hin in
         let ic = int_of_string c in
         let ires = str_of_hex hres in
         let m = validate_port s in
         let mc = int_of_n (vres_class m) in
         let mres = vres_str m in
         cls.(mc) <- cls.(mc) + 1;
         let pin = class_pinned s in
         if pin then incr pinned;
         if vm_pick !n then
           Printf.printf "VMCASE\t%s\t%s\t(%s, %s, %s, %s, %s)\n" hin hres
             (coq_n (vres_class m)) (coq_nlist mres) (coq_bool pin) (coq_bool (roundtrip_okb s ires))
             (coq_option (coq_pair coq_nlist coq_nlist) (split_host_port ires));
         if mc <> ic then begin
           incr mism;
           Printf.printf "MISMATCH class %s impl=%d model=%d pinned=%b\n" hin ic mc pin
         end else if mc = 0 then begin
           (* same class ok: compare result strings, Go's split of the result, and the round trip *)
           if not (str_eqb mres ires) then begin
             incr mism;
             Printf.printf "MISMATCH result %s impl=%s model=%s roundtrip_of_impl=%b\n" hin hres
               (hex_of_str mres) (roundtrip_okb s ires)
           end else begin
             let msplit = split_host_port ires in
             let agree =
               match msplit with
               | Some (h, p) -> sok = "1" && str_eqb h (str_of_hex hh) && str_eqb p (str_of_hex hp)
               | None -> sok = "0"
             in
             if not agree then begin
               incr mism;
               Printf.printf "MISMATCH split %s result=%s go_ok=%s go_host=%s go_port=%s\n" hin hres sok hh hp
             end;
             if not (roundtrip_okb s ires) then begin
               incr mism;
               Printf.printf "MISMATCH roundtrip %s result=%s\n" hin hres
             end
           end
         end
       | _ -> if line <> "" then (incr mism; Printf.printf "MISMATCH parse %s\n" line)
     done
   with End_of_file -> ());
  Printf.printf "SUMMARY n=%d mismatches=%d ok=%d empty=%d invalid=%d range=%d pinned=%d\n"
    !n !mism cls.(0) cls.(1) cls.(2) cls.(3) !pinned
