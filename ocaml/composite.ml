(* Composite correspondence driver (C09, C10, C11).
   usage: composite_model [fix=0|1] [fix11=0|1] [stale=0|1] [lc=0|1] [ms=0|1] [fuel=N] [cap=N states] [budget=seconds per trace] [cover=0|1]
   stdin: the output of harness/cmd/composite:
     CASE id family pool n name:style:exit:rk ...   SCRIPT json   E <event> ...   OUTCOME o   END
     M old new v          (check A, hasMembershipChanged observed through Reload)
     X ic leaves obs | tokens   (check A, error classification)
   stdout: one RESULT line per case, MISMATCH lines for check A, COVER label=count lines, SUMMARY. *)
open Model
open Util

let fix = ref true
let fix11 = ref true
let stale = ref true
let lc = ref true
let ms = ref true
let fuel = ref 20000
let cap = ref 3000
let budget = ref 2.5
let cover = ref true

let toks s = List.filter (fun x -> x <> "") (String.split_on_char ' ' s)

(* ---- error trees ---- *)
let rec parse_err (t : string list) : err * string list =
  match t with
  | "C" :: r -> (Canceled, r)
  | "D" :: r -> (Deadline, r)
  | "W" :: r -> let (e, r') = parse_err r in (Wrap e, r')
  | "J" :: k :: r ->
    let k = int_of_string k in
    let rec go i r acc = if i = 0 then (List.rev acc, r) else let (e, r') = parse_err r in go (i - 1) r' (e :: acc) in
    let (es, r') = go k r [] in (Join es, r')
  | l :: r when String.length l > 1 && l.[0] = 'L' -> (Leaf (n_of_int (int_of_string (String.sub l 1 (String.length l - 1)))), r)
  | _ -> failwith "bad error tokens"

let parse_oerr (t : string list) : oerr =
  match t with
  | ["nil"] -> None
  | _ -> let (e, _) = parse_err t in Some e

let fstate_of = function
  | "New" -> FNew | "Booting" -> FBooting | "Running" -> FRunning | "Reloading" -> FReloading
  | "Stopping" -> FStopping | "Stopped" -> FStopped | "Error" -> FError
  | s -> failwith ("state " ^ s)

let parse_entry s =
  match String.split_on_char ':' s with
  | [c; v] -> (n_of_int (int_of_string c), n_of_int (int_of_string v))
  | _ -> failwith "entry"

let parse_leaves s =
  if s = "-" then [] else List.map (fun x -> n_of_int (int_of_string x)) (String.split_on_char ',' s)

let cls_nil = { rc_nil = true; rc_failed = false; rc_leaves = []; rc_cancel = false }

let parse_event (t : string list) : event option =
  match t with
  | ["ApiCall"; "Run"; k] -> Some (EApiCall (OpRun, nat_of_int (int_of_string k)))
  | ["ApiCall"; "Reload"; k] -> Some (EApiCall (OpReload, nat_of_int (int_of_string k)))
  | ["ApiCall"; "Stop"; k] -> Some (EApiCall (OpStop, nat_of_int (int_of_string k)))
  | ["ApiRet"; "Run"; k; "nil"] -> Some (EApiRet (OpRun, nat_of_int (int_of_string k), cls_nil))
  | ["ApiRet"; "Run"; k; "err"; f; c; l] ->
    Some (EApiRet (OpRun, nat_of_int (int_of_string k),
                   { rc_nil = false; rc_failed = (f = "1"); rc_leaves = parse_leaves l; rc_cancel = (c = "1") }))
  | ["ApiRet"; "Reload"; k] -> Some (EApiRet (OpReload, nat_of_int (int_of_string k), cls_nil))
  | ["ApiRet"; "Stop"; k] -> Some (EApiRet (OpStop, nat_of_int (int_of_string k), cls_nil))
  | ["RunCall"; c] -> Some (ERunCall (n_of_int (int_of_string c)))
  | "RunRet" :: c :: e -> Some (ERunRet (n_of_int (int_of_string c), parse_oerr e))
  | ["StopCall"; c] -> Some (EStopCall (n_of_int (int_of_string c)))
  | ["StopRet"; c] -> Some (EStopRet (n_of_int (int_of_string c)))
  | ["ReloadCfg"; c; v] -> Some (EReloadCfg (n_of_int (int_of_string c), n_of_int (int_of_string v)))
  | ["ReloadPlain"; c] -> Some (EReloadPlain (n_of_int (int_of_string c)))
  | "Callback" :: "some" :: _ :: es -> Some (ECallback (CbSome (List.map parse_entry es)))
  | ["Callback"; "nil"] -> Some (ECallback CbNil)
  | ["Callback"; "err"] -> Some (ECallback CbErr)
  | ["Cancel"] -> Some ECancel
  | ["State"; s] -> Some (EState (fstate_of s))
  | _ -> None

let parse_spec s : cspec =
  match String.split_on_char ':' s with
  | [nm; st; ex; rk] ->
    { c_name = n_of_int (int_of_string nm);
      c_stop = (if st = "U" then UntilRunDone else NonBlocking);
      c_exit = (match ex with "S" -> OnSignal | "F" | "E" | "X" -> Free | _ -> Never);
      c_rk = (match rk with "W" -> RWC | "P" -> RPlain | _ -> RNone) }
  | _ -> failwith "spec"

(* ---- label names (coverage) ---- *)
let label_name (l : label) : string =
  match l with
  | LRunCall -> "RunCall" | LReloadCall _ -> "ReloadCall" | LStopApi _ -> "StopApi" | LCancel -> "Cancel"
  | LState _ -> "State" | LRunBegin -> "RunBegin" | LToRunning -> "ToRunning" | LSelCtx -> "SelCtx"
  | LSelStop -> "SelStop" | LSelErr -> "SelErr" | LTransIf -> "TransIf" | LTearLock -> "TearLock"
  | LToStopped -> "ToStopped" | LRunExit -> "RunExit" | LRunRet _ -> "RunRet"
  | LBootLock ORun -> "BootLock.run" | LBootLock _ -> "BootLock.reload"
  | LBootLaunch ORun -> "BootLaunch.run" | LBootLaunch _ -> "BootLaunch.reload"
  | LStopBegin ORun -> "StopBegin.run" | LStopBegin _ -> "StopBegin.reload"
  | LStopJoin ORun -> "StopJoin.run" | LStopJoin _ -> "StopJoin.reload"
  | LStopCancel ORun -> "StopCancel.run" | LStopCancel _ -> "StopCancel.reload"
  | LCb (ORun, CbSome _) -> "Cb.init.some" | LCb (ORun, _) -> "Cb.init.fail"
  | LCb (_, CbSome _) -> "Cb.reload.some" | LCb (_, _) -> "Cb.reload.fail"
  | LKRun _ -> "KRun" | LKExit (_, _, None) -> "KExit.nil"
  | LKExit (_, _, Some e) -> if is_cancel e then "KExit.cancel" else "KExit.fail"
  | LKSend _ -> "KSend" | LWCall _ -> "WCall" | LWUnblock _ -> "WUnblock" | LWRet _ -> "WRet"
  | LRlLock _ -> "RlLock" | LRlSetInPlace _ -> "RlSetInPlace" | LRlCfg _ -> "RlCfg" | LRlPlain _ -> "RlPlain"
  | LRlSkip _ -> "RlSkip" | LRlSetCfg _ -> "RlSetCfg" | LRlFinish _ -> "RlFinish" | LRlRet _ -> "RlRet"
  | LSSignal _ -> "SSignal" | LSRet _ -> "SRet"

let covtab : (string, int) Hashtbl.t = Hashtbl.create 64
let bump k = Hashtbl.replace covtab k (1 + (try Hashtbl.find covtab k with Not_found -> 0))

(* untrusted witness search on an accepted trace, only to report which labels were exercised *)
let witness (p : params) (evs : event array) : label list option =
  let n = Array.length evs in
  let seen = Hashtbl.create 1024 in
  let budget = ref 60000 in
  let rec go s pos : label list option =
    if pos = n then Some []
    else begin
      let k = (pos, List.map int_of_n (key s)) in
      if Hashtbl.mem seen k || !budget <= 0 then None
      else begin
        Hashtbl.add seen k ();
        decr budget;
        let e = evs.(pos) in
        let rec try_list ls nextpos =
          match ls with
          | [] -> None
          | l :: r ->
            (match step p s l with
             | Some s' -> (match go s' nextpos with Some w -> Some (l :: w) | None -> try_list r nextpos)
             | None -> try_list r nextpos)
        in
        let vs = List.filter (fun l -> match obs l with Some e' -> event_eqb e' e | None -> false) (vis s e) in
        match try_list vs (pos + 1) with
        | Some w -> Some w
        | None -> try_list (List.filter (fun l -> obs l = None) (taus s)) pos
      end
    end
  in
  go init 0

(* ---- a case ---- *)
type case = {
  mutable id : string; mutable family : string; mutable pool : cspec list;
  mutable evs : (event * string) list; mutable blocked : string; mutable lives : int list;
  mutable parks : int; mutable outcome : string; mutable notes : string list;
  mutable cens : (int * int * int * int) list; (* (model events before, kids, workers, other) *)
  mutable helds : (int * int) list; (* (number of model events before the observation, sequence number held) *)
  mutable childstates : int list option (* names listed by GetChildStates() at final quiescence *) }

let count f l = List.length (List.filter f l)

let shape (c : case) (evs : event list) : string =
  if c.blocked = "-" || c.blocked = "" then "-"
  else begin
    let open_reload =
      count (function EApiCall (OpReload, _) -> true | _ -> false) evs
      > count (function EApiRet (OpReload, _, _) -> true | _ -> false) evs in
    let kids = List.mapi (fun i _ -> n_of_int i) c.pool in
    let never_started_stop =
      List.exists (fun ch ->
          count (function EStopCall x -> x = ch | _ -> false) evs
          > count (function EStopRet x -> x = ch | _ -> false) evs
          && count (function ERunCall x -> x = ch | _ -> false) evs = 0) kids in
    if open_reload && never_started_stop then "stop-between-setconfig-and-boot" else "other-deadlock"
  end

let ncases = ref 0 and nacc = ref 0 and nrej = ref 0 and ninc = ref 0
let nparks = ref 0 and nblocked = ref 0 and nevents = ref 0 and nwit = ref 0

let finish (c : case) =
  incr ncases;
  let p = { pool = c.pool; fix_c09 = !fix; fix_c11 = !fix11; fix_stale = !stale; fix_lc = !lc; fix_ms = !ms } in
  let evl = List.rev c.evs in
  let evs = List.map fst evl in
  let n = List.length evs in
  nevents := !nevents + n;
  nparks := !nparks + c.parks;
  let t0 = Sys.time () in
  (* incremental acceptance (accept0/accept1, sound by CompositeBase.accept0_sound/accept1_sound)
     with a frontier cap and a CPU budget per trace: exceeding either = inconclusive, never an alarm *)
  let f = nat_of_int !fuel in
  (* C18: at every quiescent snapshot the real census (kids, workers) must be the census of some
     model state compatible with the trace so far; "other" library-created goroutines must be 0 *)
  let cens_bad = ref [] in
  let check_census s d =
    List.iter (fun (idx, k, w, o) ->
        if idx = d && s <> [] then begin
          let okc = o = 0 && List.exists (fun st -> int_of_nat (kid_census st) = k && int_of_nat (worker_census st) = w) s in
          if not okc then begin
            let mk = List.fold_left (fun a st -> max a (int_of_nat (kid_census st))) 0 s in
            let mw = List.fold_left (fun a st -> max a (int_of_nat (worker_census st))) 0 s in
            cens_bad := (idx, k, w, o, mk, mw) :: !cens_bad
          end
        end) c.cens in
  let rec go (s, ok) d = function
    | [] -> check_census s d; (s, ok, d)
    | e :: rest ->
      check_census s d;
      if List.length s > !cap || Sys.time () -. t0 > !budget then ([], false, d)
      else begin
        let (s', ok') = accept1 p f s e in
        if s' = [] then ([], ok && ok', d) else go (s', ok && ok') (d + 1) rest
      end in
  let (finals, ok, d) = go (accept0 p f) 0 evs in
  let t1 = Sys.time () in
  let acc =
    if finals <> [] then (incr nacc; "1")
    else if not ok then (incr ninc; "inc")
    else (incr nrej; "0") in
  let at = if finals = [] && d < n then String.concat "_" (toks (snd (List.nth evl d))) else "-" in
  let nb = if c.blocked = "-" || c.blocked = "" then 0 else List.length (String.split_on_char ',' c.blocked) in
  if nb > 0 then incr nblocked;
  let v09 = int_of_n (c09_holdsb p evs (nat_of_int nb) (List.map nat_of_int c.lives)) in
  let v10 = int_of_n (c10_holdsb p evs) in
  let v11 = int_of_n (c11_holdsb p evs) in
  (* C11 "holds the configuration most recently returned by its callback", on observables only:
     at a quiescent observation with no Reload in flight, Runner.String() names the newest value *)
  let v11 =
    if v11 <> 0 then v11
    else begin
      let rec take n l = if n = 0 then [] else (match l with [] -> [] | x :: t -> x :: take (n - 1) t) in
      let stale (idx, k) =
        let pre = take idx evs in
        let cbs = count (function ECallback (CbSome _) -> true | _ -> false) pre in
        let opened = count (function EApiCall (OpReload, _) -> true | _ -> false) pre in
        let closed = count (function EApiRet (OpReload, _, _) -> true | _ -> false) pre in
        opened = closed && cbs > 0 && k <> cbs in
      if List.exists stale c.helds then 30 else 0
    end in
  (* C11 "GetChildStates()/String() after Reload returns" (observe_at): at final quiescence GetChildStates()
     lists exactly the names of the stored configuration of SOME model state compatible with the whole trace
     (hand-written, like clause 30) *)
  let v11 =
    if v11 <> 0 || finals = [] then v11
    else match c.childstates with
      | None -> v11
      | Some obs ->
        let names_of_state st =
          List.sort_uniq compare (List.map (fun e -> int_of_n (name_of p (fst e))) (entries_of st)) in
        if List.exists (fun st -> names_of_state st = obs) finals then 0 else 31 in
  let oops = List.exists (fun s -> s.oops) finals in
  if finals <> [] && !cover then begin
    match witness p (Array.of_list evs) with
    | Some w -> incr nwit; List.iter (fun l -> bump (label_name l)) w
    | None -> ()
  end;
  Printf.printf "RESULT %s %s accepted=%s depth=%d/%d at=%s c09=%d c10=%d c11=%d outcome=%s blocked=%s parks=%d shape=%s finals=%d oops=%b ms=%d census=%s\n"
    c.id c.family acc d n at v09 v10 v11 c.outcome (if c.blocked = "" then "-" else c.blocked) c.parks
    (shape c evs) (List.length finals) oops (int_of_float ((t1 -. t0) *. 1000.))
    (let ran = List.exists (function EApiRet (OpRun, _, _) -> true | _ -> false) evs in
     if c.cens = [] then "none"
     else
       let bads = List.rev !cens_bad in
       let final_leak = List.filter (fun (idx, k, w, o, mk, mw) -> ran && idx = n && (k > mk || w > mw || o > 0)) bads in
       match (if final_leak <> [] then final_leak else bads) with
       | [] -> Printf.sprintf "ok:%d" (List.length c.cens)
       | (idx, k, w, o, mk, mw) :: _ ->
         (* more goroutines than any compatible model state allows = a leak; at the final snapshot
            after Run() returned this is the property itself *)
         let leak = k > mk || w > mw || o > 0 in
         Printf.sprintf "%s@%d:impl=%d/%d/%d,model<=%d/%d"
           (if leak && ran && idx = n then "leak-after-run" else if leak then "excess" else "mismatch")
           idx k w o mk mw)

(* ---- check A ---- *)
let nmem = ref 0 and nmem_changed = ref 0 and nmem_dupdiff = ref 0 and nmis = ref 0
let nerr = ref 0 and nerr_cancel = ref 0 and nerr_obs = ref 0

let names_of s = if s = "-" then [] else List.map (fun x -> n_of_int (int_of_string x)) (String.split_on_char ',' s)

let pool4 = List.map (fun i -> { c_name = n_of_int i; c_stop = NonBlocking; c_exit = OnSignal; c_rk = RWC }) [0; 1; 2; 3]

let do_membership o nw v =
  incr nmem;
  let p = { pool = pool4; fix_c09 = false; fix_c11 = !fix11; fix_stale = false; fix_lc = true; fix_ms = !ms } in
  let cf l = List.map (fun x -> (x, N0)) (names_of l) in
  let m = membership_changed p (cf o) (cf nw) in
  if m then incr nmem_changed;
  (* extraction re-validation (util.ml): the model's two answers for a sampled pair, as a Coq term *)
  if vm_pick !nmem then
    Printf.printf "VMCASE\tM\t%s\t%s\t(%s, %s)\n" o nw (coq_bool m) (coq_bool (same_name_set p (cf o) (cf nw)));
  (* pairs on which the code's answer differs from set equality (only possible with duplicates) *)
  if m = same_name_set p (cf o) (cf nw) then incr nmem_dupdiff;
  let iv = (match v with "1" -> Some true | "0" -> Some false | _ -> None) in
  if iv <> Some m then begin
    incr nmis;
    Printf.printf "MISMATCH membership old=%s new=%s impl=%s model=%b\n" o nw v m
  end

let do_errclass ic lv obsv tokens =
  incr nerr;
  let (e, _) = parse_err tokens in
  let mc = is_cancel e in
  if mc then incr nerr_cancel;
  let ml = user_leaves e in
  let il = parse_leaves lv in
  if mc <> (ic = "1") then begin
    incr nmis; Printf.printf "MISMATCH is_cancel impl=%s model=%b err=%s\n" ic mc (String.concat "_" tokens)
  end;
  if List.map int_of_n ml <> List.map int_of_n il then begin
    incr nmis; Printf.printf "MISMATCH leaves impl=%s err=%s\n" lv (String.concat "_" tokens)
  end;
  match obsv with
  | ["-"] -> ()
  | ["F"] -> incr nerr_obs;
    if not mc then begin incr nmis; Printf.printf "MISMATCH filter impl=filtered model=propagates err=%s\n" (String.concat "_" tokens) end
  | ["P"; cls] ->
    incr nerr_obs;
    let r = classify (Some (fail_result (Wrap e))) in
    let expect = Printf.sprintf "err_%d_%d_%s" (if r.rc_failed then 1 else 0) (if r.rc_cancel then 1 else 0)
        (if r.rc_leaves = [] then "-" else String.concat "," (List.map (fun x -> string_of_int (int_of_n x)) r.rc_leaves)) in
    if mc then begin incr nmis; Printf.printf "MISMATCH filter impl=propagated model=filtered err=%s\n" (String.concat "_" tokens) end
    else if cls <> expect then begin
      incr nmis; Printf.printf "MISMATCH result impl=%s model=%s err=%s\n" cls expect (String.concat "_" tokens) end
  | _ -> incr nmis; Printf.printf "MISMATCH errobs %s\n" (String.concat "_" obsv)

let () =
  Array.iter (fun a ->
      match String.split_on_char '=' a with
      | ["fix"; v] -> fix := (v = "1")
      | ["fix11"; v] -> fix11 := (v = "1")
      | ["stale"; v] -> stale := (v = "1")
      | ["lc"; v] -> lc := (v = "1")
      | ["ms"; v] -> ms := (v = "1")
      | ["fuel"; v] -> fuel := int_of_string v
      | ["cap"; v] -> cap := int_of_string v
      | ["budget"; v] -> budget := float_of_string v
      | ["cover"; v] -> cover := (v = "1")
      | _ -> ()) Sys.argv;
  let cur = ref None in
  (try
     while true do
       let line = input_line stdin in
       let t = toks line in
       match t with
       | "CASE" :: id :: fam :: "pool" :: _ :: specs ->
         cur := Some { id; family = fam; pool = List.map parse_spec specs; evs = []; blocked = ""; lives = [];
                       parks = 0; outcome = "?"; notes = []; helds = []; cens = []; childstates = None }
       | "E" :: "Blocked" :: [b] -> (match !cur with Some c -> c.blocked <- b | None -> ())
       | "E" :: "Census" :: [k; w; o] ->
         (match !cur with
          | Some c -> c.cens <- (List.length c.evs, int_of_string k, int_of_string w, int_of_string o) :: c.cens
          | None -> ())
       | "E" :: "Held" :: [k] ->
         (match !cur with Some c -> c.helds <- (List.length c.evs, int_of_string k) :: c.helds | None -> ())
       | "E" :: "Live" :: _ :: [k] -> (match !cur with Some c -> c.lives <- c.lives @ [int_of_string k] | None -> ())
       | "E" :: "Note" :: "childstates" :: rest ->
         (* "child-<name>,child-<name>,..." : the keys of GetChildStates() (one per distinct String()) *)
         (match !cur with
          | Some c ->
            let names = match rest with
              | [] -> []
              | l :: _ -> List.filter_map (fun x ->
                  match String.split_on_char '-' x with ["child"; n] -> (try Some (int_of_string n) with _ -> None) | _ -> None)
                  (String.split_on_char ',' l) in
            c.childstates <- Some (List.sort_uniq compare names)
          | None -> ())
       | "E" :: "Note" :: "park-reached" :: _ -> (match !cur with Some c -> c.parks <- c.parks + 1 | None -> ())
       | "E" :: "Note" :: _ -> ()
       | "E" :: ev ->
         (match !cur with
          | Some c ->
            (match (try parse_event ev with _ -> None) with
             | Some e -> c.evs <- (e, String.concat " " ev) :: c.evs
             | None -> incr nmis; Printf.printf "MISMATCH parse %s %s\n" c.id (String.concat "_" ev))
          | None -> ())
       | ["OUTCOME"; o] -> (match !cur with Some c -> c.outcome <- o | None -> ())
       | ["END"] -> (match !cur with Some c -> finish c; cur := None | None -> ())
       | ["M"; o; nw; v] -> do_membership o nw v
       | "X" :: ic :: lv :: rest ->
         let rec split a = function "|" :: r -> (List.rev a, r) | x :: r -> split (x :: a) r | [] -> (List.rev a, []) in
         let (obsv, tokens) = split [] rest in
         do_errclass ic lv obsv tokens
       | _ -> ()
     done
   with End_of_file -> ());
  Hashtbl.iter (fun k v -> Printf.printf "COVER %s=%d\n" k v) covtab;
  Printf.printf "SUMMARY cases=%d accepted=%d rejected=%d inconclusive=%d parks=%d blocked=%d events=%d witnesses=%d membership=%d membership_changed=%d membership_setdiff=%d errs=%d errs_cancel=%d errs_observed=%d mismatches=%d\n"
    !ncases !nacc !nrej !ninc !nparks !nblocked !nevents !nwit !nmem !nmem_changed !nmem_dupdiff !nerr !nerr_cancel !nerr_obs !nmis
