(* C07 lock-step driver.
   argv: --fixed 0|1   which step function of coq/model/Lifecycle.v the implementation is
                       compared with (0 = code as it is in /repo, 1 = candidate repair)
   stdin (from harness/cmd/c07):
     c07 <K> <M> <tag> init=<obs> <label>=<obs> ... end=<0|1>
       label: a<k> = LSec1 k, b<k> = LSec2 k, r = LRunStart, o = LRunExitOther, d = LDone
       obs  : <callers|->/<cycles|->/<stopch closed 0|1>
              caller: N not entered, s blocked in <-startedCh, P past it (parked before the
              second section), d blocked in <-doneCh, R returned;  cycle: B in select, X left
              the select (not yet done()), F returned
   The model is run on the same labels; after each one the satisfied waits (LWaitStarted,
   LWaitDone, LRunSeeStop) are taken, as the real goroutines do, and the observations compared.
   stdout:
     MISMATCH <kind> step=<i> impl=<obs> model=<obs> sched=<labels so far>      (correspondence)
     PROP <shape> caller=<k> step=<i> span=<model's c_span of that caller> sched=<labels so far>
          shapes (evaluated on the IMPLEMENTATION's observations only):
            early-return       Stop returned, its targeted Run has not
            spans-reset        Stop blocked in <-doneCh, its targeted Run has returned, a later
                               cycle is in progress                     (F14)
            blocked-after-run  Stop blocked although its targeted Run returned (other shapes)
            unsignalled        Stop blocked in <-doneCh of a Run in its select, StopCh() open
            started-missed     Stop blocked in <-startedCh although its Run has started
            stuck              maximal execution ended with a blocked Stop
     SUMMARY n=.. steps=.. labels=.. mismatches=.. props=.. spans=.. blockedobs=.. maximal=..
             distinct=.. disabled_checked=.. *)
open Model
open Util

let fixed = ref false

let label_of_tok (t : string) : label option =
  let num () = nat_of_int (int_of_string (String.sub t 1 (String.length t - 1))) in
  try
    match t.[0] with
    | 'a' -> Some (LSec1 (num ()))
    | 'b' -> Some (LSec2 (num ()))
    | 'r' when t = "r" -> Some LRunStart
    | 'o' when t = "o" -> Some LRunExitOther
    | 'd' when t = "d" -> Some LDone
    | _ -> None
  with _ -> None

let char_of_cobs = function
  | ONotEntered -> 'N' | OBlockedStarted -> 's' | OReadySec2 -> 'P' | OBlockedDone -> 'd' | OReturned -> 'R'
let char_of_robs = function OBody -> 'B' | OExiting -> 'X' | OFinished -> 'F'

let str_of_chars l = let s = String.of_seq (List.to_seq l) in if s = "" then "-" else s

let model_obs (s : state) : string =
  str_of_chars (List.map char_of_cobs (obs_callers s)) ^ "/" ^
  str_of_chars (List.map char_of_robs (obs_cycles s)) ^ "/" ^
  (if obs_stop_closed s then "1" else "0")

(* take every satisfied wait (each is a model label; returns how many were taken) *)
let taus (s : state) (k : int) : state * int =
  let s = ref s and n = ref 0 in
  let try_l l = match step !fixed !s l with Some s' -> s := s'; incr n | None -> () in
  for i = 0 to k - 1 do
    try_l (LWaitStarted (nat_of_int i));
    try_l (LWaitDone (nat_of_int i))
  done;
  try_l LRunSeeStop;
  (!s, !n)

let rec spawn s k = if k = 0 then s else
    match step !fixed s LSpawn with Some s' -> spawn s' (k - 1) | None -> s

let nth_caller s k = List.nth_opt (callers s) k

let () =
  (match Array.to_list Sys.argv with
   | [_; "--fixed"; "1"] -> fixed := true
   | [_; "--fixed"; "0"] -> fixed := false
   | _ -> prerr_endline "usage: c07_model --fixed 0|1"; exit 2);
  let n = ref 0 and steps = ref 0 and labels = ref 0 and mism = ref 0 and props = ref 0 in
  let spans = ref 0 and blockedobs = ref 0 and maximal = ref 0 and disabled_checked = ref 0 in
  let seen = Hashtbl.create 4096 in
  (try
     while true do
       let line = input_line stdin in
       let toks = List.filter (fun x -> x <> "") (String.split_on_char ' ' line) in
       match toks with
       | "c07" :: ks :: ms :: _tag :: rest ->
         incr n;
         let k = int_of_string ks and m = int_of_string ms in
         let s = ref (spawn init k) in
         let target = Array.make (max k 1) (-1) in
         let sched = Buffer.create 64 in
         let stop = ref false in
         let prev_cycles = ref 0 in
         let reported = Hashtbl.create 8 in
         let prop shape c i sp =
           if not (Hashtbl.mem reported (shape, c)) then begin
             Hashtbl.add reported (shape, c) ();
             incr props;
             Printf.printf "PROP %s caller=%d step=%d span=%b k=%d m=%d sched=%s\n" shape c i sp k m
               (String.trim (Buffer.contents sched))
           end in
         let check_obs i lab (impl : string) =
           (* correspondence *)
           let mo = model_obs !s in
           if mo <> impl then begin
             incr mism; stop := true;
             Printf.printf "MISMATCH obs step=%d label=%s impl=%s model=%s fixed=%b k=%d m=%d sched=%s\n" i lab impl mo
               !fixed k m (String.trim (Buffer.contents sched))
           end;
           (* property monitors on the implementation's observations *)
           (match String.split_on_char '/' impl with
            | [cs; cy; sc] ->
              let cs = if cs = "-" then "" else cs and cy = if cy = "-" then "" else cy in
              let ncy = String.length cy in
              prev_cycles := ncy;
              String.iteri (fun c ch ->
                  if ch = 's' || ch = 'd' then incr blockedobs;
                  if c < k && target.(c) >= 0 then begin
                    let t = target.(c) in
                    let tcy = if t < ncy then cy.[t] else 'n' in
                    let sp = match nth_caller !s c with Some cl -> c_span cl | None -> false in
                    let later_active = ref false in
                    String.iteri (fun j x -> if j > t && (x = 'B' || x = 'X') then later_active := true) cy;
                    if ch = 'R' && tcy <> 'F' then prop "early-return" c i sp;
                    if ch = 'd' && tcy = 'F' then
                      prop (if !later_active then "spans-reset" else "blocked-after-run") c i sp;
                    if ch = 's' && tcy = 'F' then prop "blocked-after-run" c i sp;
                    if ch = 's' && tcy <> 'n' && tcy <> 'F' then prop "started-missed" c i sp;
                    if ch = 'd' && tcy = 'B' && sc = "0" then prop "unsignalled" c i sp;
                    if (ch = 'd' || ch = 'P') && tcy = 'n' then prop "early-return" c i sp
                  end) cs
            | _ ->
              incr mism; stop := true;
              Printf.printf "MISMATCH parse step=%d obs=%s\n" i impl)
         in
         (* a director label is enabled on the implementation iff the observation says so
            (N: a, P: b, no cycle in progress: r, B: o, X: d); the model must agree label by
            label, so that impossible schedules are skipped identically on both sides *)
         let check_enabled i (impl : string) =
           match String.split_on_char '/' impl with
           | [cs; cy; _] ->
             let cs = if cs = "-" then "" else cs and cy = if cy = "-" then "" else cy in
             let ncy = String.length cy in
             let lastc = if ncy = 0 then 'F' else cy.[ncy - 1] in
             let chk l impl_en =
               incr disabled_checked;
               let men = enabledb !fixed !s l in
               let men = if l = LRunStart then men && ncy < m else men in
               if men <> impl_en then begin
                 incr mism; stop := true;
                 Printf.printf "MISMATCH enabled step=%d impl=%b model=%b obs=%s fixed=%b k=%d m=%d sched=%s\n" i impl_en men
                   impl !fixed k m (String.trim (Buffer.contents sched))
               end in
             String.iteri (fun c ch ->
                 chk (LSec1 (nat_of_int c)) (ch = 'N');
                 chk (LSec2 (nat_of_int c)) (ch = 'P')) cs;
             chk LRunStart (lastc = 'F' && ncy < m);
             chk LRunExitOther (lastc = 'B');
             chk LDone (lastc = 'X')
           | _ -> ()
         in
         let i = ref 0 in
         List.iter (fun tok ->
             if not !stop then
               match String.index_opt tok '=' with
               | None -> ()
               | Some p ->
                 let lab = String.sub tok 0 p and o = String.sub tok (p + 1) (String.length tok - p - 1) in
                 if lab = "init" then check_obs 0 lab o
                 else if lab = "end" then begin
                   if o = "1" then incr maximal
                 end else begin
                   incr i; incr steps; incr labels;
                   Buffer.add_string sched lab; Buffer.add_char sched ' ';
                   match label_of_tok lab with
                   | None ->
                     incr mism; stop := true;
                     Printf.printf "MISMATCH parse step=%d label=%s\n" !i lab
                   | Some l ->
                     (match l with
                      | LSec1 c ->
                        let c = int_of_nat c in
                        if c < k then target.(c) <- max 0 (!prev_cycles - 1)
                      | _ -> ());
                     (match step !fixed !s l with
                      | None ->
                        incr mism; stop := true;
                        Printf.printf "MISMATCH disabled step=%d label=%s model=%s fixed=%b k=%d m=%d sched=%s\n" !i lab
                          (model_obs !s) !fixed k m (String.trim (Buffer.contents sched))
                      | Some s' ->
                        let (s'', nt) = taus s' k in
                        labels := !labels + nt;
                        s := s'';
                        check_obs !i lab o;
                        if not !stop then check_enabled !i o)
                 end) rest;
         (* end-of-execution: blocked Stop in a maximal execution *)
         (match List.rev rest with
          | e :: last :: _ when e = "end=1" && not !stop ->
            (match String.index_opt last '=' with
             | Some p ->
               let o = String.sub last (p + 1) (String.length last - p - 1) in
               (match String.split_on_char '/' o with
                | cs :: _ when m >= 1 ->
                  String.iteri (fun c ch -> if ch = 's' || ch = 'd' then prop "stuck" c !i false) cs
                | _ -> ())
             | None -> ())
          | _ -> ());
         if List.exists (fun cl -> c_span cl) (callers !s) then incr spans;
         let key = String.trim (Buffer.contents sched) ^ "|" ^ ks ^ "|" ^ ms in
         if not (Hashtbl.mem seen key) then Hashtbl.add seen key ()
       | "runner" :: _ -> ()
       | [] -> ()
       | _ -> incr mism; Printf.printf "MISMATCH parse line=%s\n" line
     done
   with End_of_file -> ());
  Printf.printf "SUMMARY n=%d steps=%d labels=%d mismatches=%d props=%d spans=%d blockedobs=%d maximal=%d distinct=%d disabled_checked=%d\n"
    !n !steps !labels !mism !props !spans !blockedobs !maximal (Hashtbl.length seen) !disabled_checked
