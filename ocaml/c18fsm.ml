(* C18 finitestate-leg driver: goroutine census of real finitestate subscriptions vs the model census.
   stdin: one trace per line:  T <name> <token> <token> ...   (tokens: harness/cmd/c18fsm/main.go)
   stdout:
     ACCEPT name states=n snaps=k / REJECT name depth=d len=n event=<tok> / INCONCLUSIVE name
     PROPFAIL name <predicate> <detail>     a C18 predicate fails on the IMPLEMENTATION's observables
     MODELPROP name c18_okb                 a proved predicate fails on an accepted quiescent model state (never)
     SUMMARY k=v ... *)
open Model
open Util

let split c s = String.split_on_char c s

let after_colon (tok : string) : string =
  match String.index_opt tok ':' with
  | Some i -> String.sub tok (i + 1) (String.length tok - i - 1)
  | None -> ""
let tag_of tok = match String.index_opt tok ':' with Some i -> String.sub tok 0 i | None -> tok

let st_of_int = function
  | 0 -> New | 1 -> Booting | 2 -> Running | 3 -> Reloading | 4 -> Stopping | 5 -> Stopped
  | 6 -> Error | 7 -> Unknown | _ -> failwith "state code"
let st_of_char c = st_of_int (Char.code c - Char.code '0')

let nat s = nat_of_int (int_of_string s)

let parse_event (tok : string) : gevent option =
  let rest = after_colon tok in
  match tag_of tok with
  | "GB" | "STUCK" -> None
  | "SUB" -> Some GESub
  | "RD" -> Some (GERead (nat rest))
  | "CA" -> Some (GECancel (nat rest))
  | "RC" -> Some (GERecvClosed (nat rest))
  | "RV" -> (match split ',' rest with [i; v] -> Some (GERecv (nat i, st_of_int (int_of_string v))) | _ -> failwith "RV")
  | "OR" -> Some (GERet (rest = "1"))
  | "OP" ->
    (match rest.[0] with
     | 't' -> Some (GEOp (OTrans (st_of_char rest.[1])))
     | 's' -> Some (GEOp (OSet (st_of_char rest.[1])))
     | 'i' -> Some (GEOp (OTransIf (st_of_char rest.[1], st_of_char rest.[2])))
     | _ -> failwith "OP")
  | "G" -> (match split ',' rest with f :: c :: b :: _ -> Some (GESnap (nat f, nat c, nat b)) | _ -> failwith "G")
  | "Q" -> (match split ',' rest with f :: c :: b :: _ -> Some (GEQuiet (nat f, nat c, nat b)) | _ -> failwith "Q")
  | _ -> failwith ("event " ^ tok)

(* the property's predicates on what the implementation showed (no model involved) *)
let impl_predicates (name : string) (toks : string list) : int * int * int =
  let made = ref 0 and cancelled = Hashtbl.create 16 and inflight = ref false in
  let snaps = ref 0 and quiet_snaps = ref 0 and maxsubs = ref 0 in
  let fail pred tok detail = Printf.printf "PROPFAIL %s %s %s %s\n" name pred tok detail in
  List.iter (fun tok ->
      let rest = after_colon tok in
      match tag_of tok with
      | "RD" -> incr made; if !made > !maxsubs then maxsubs := !made
      | "CA" -> Hashtbl.replace cancelled rest ()
      | "OP" -> inflight := true
      | "OR" -> inflight := false
      | "G" | "Q" ->
        (* G: every goroutine blocked, timers (5 s broadcast timeout, 100 ms forwarder grace) may be pending;
           Q: taken after a pause longer than the grace with no machine call in flight: nothing may be pending *)
        (match List.map int_of_string (split ',' rest) with
         | [f; c; b; u] ->
           incr snaps;
           let opn = !made - Hashtbl.length cancelled in
           let d = Printf.sprintf "open=%d made=%d cancelled=%d call_in_flight=%b" opn !made (Hashtbl.length cancelled) !inflight in
           if u > 0 then fail "unknown-goroutine" tok d;
           if f < opn then fail "forwarder-missing" tok d;
           if c < opn then fail "cleanup-missing" tok d;
           if tag_of tok = "Q" then begin
             incr quiet_snaps;
             if f > opn then fail "forwarder-leak" tok d;
             if c > opn then fail "cleanup-leak" tok d
           end;
           if (not !inflight) && b > 0 then fail "sender-leak" tok d;
           if (not !inflight) && b = 0 && c > opn then fail "cleanup-leak" tok d
         | _ -> ())
      | _ -> ()) toks;
  (!snaps, !quiet_snaps, !maxsubs)

let () =
  let fuel = match Array.to_list Sys.argv with _ :: f :: _ -> int_of_string f | _ -> 20000 in
  let f = nat_of_int fuel in
  let n = ref 0 and acc = ref 0 and rej = ref 0 and inc = ref 0 and evs = ref 0 and bad = ref 0
  and snaps = ref 0 and qsnaps = ref 0 and maxset = ref 0 and modelprop = ref 0 and subsmade = ref 0
  and quiet_final = ref 0 in
  let kinds = Hashtbl.create 16 in
  (try
     while true do
       let line = input_line stdin in
       match split ' ' (String.trim line) with
       | "T" :: name :: toks ->
         incr n;
         (try
            let toks = List.filter (fun t -> t <> "") toks in
            List.iter (fun t -> let k = tag_of t in
                        Hashtbl.replace kinds k (1 + (try Hashtbl.find kinds k with Not_found -> 0))) toks;
            let kept = List.filter (fun t -> parse_event t <> None) toks in
            let t = List.filter_map parse_event toks in
            evs := !evs + List.length t;
            let (sn, qs, ms) = impl_predicates name toks in
            snaps := !snaps + sn; qsnaps := !qsnaps + qs; subsmade := !subsmade + ms;
            let (states, ok) = gaccept f t in
            let k = List.length states in
            if k > !maxset then maxset := k;
            if not ok then (incr inc; Printf.printf "INCONCLUSIVE %s\n" name)
            else if states = [] then begin
              incr rej;
              let d = int_of_nat (gaccepted_prefix f t) in
              Printf.printf "REJECT %s depth=%d len=%d event=%s\n" name d (List.length t)
                (if d < List.length kept then List.nth kept d else "<end>")
            end else begin
              incr acc;
              List.iter (fun g ->
                  if g_quiet g then begin
                    incr quiet_final;
                    if not (g_c18_ok g) then (incr modelprop; Printf.printf "MODELPROP %s c18_okb\n" name)
                  end) states;
              Printf.printf "ACCEPT %s states=%d snaps=%d\n" name k sn
            end
          with Failure msg | Invalid_argument msg -> incr bad; Printf.printf "BADTRACE %s %s\n" name msg)
       | _ -> ()
     done
   with End_of_file -> ());
  let kk = Hashtbl.fold (fun k v a -> Printf.sprintf "%s ev_%s=%d" a k v) kinds "" in
  Printf.printf
    "SUMMARY n=%d accepted=%d rejected=%d inconclusive=%d badtrace=%d events=%d snaps=%d quiet_snaps=%d subscriptions=%d quiet_final_states=%d maxset=%d modelprop=%d%s\n"
    !n !acc !rej !inc !bad !evs !snaps !qsnaps !subsmade !quiet_final !maxset !modelprop kk
