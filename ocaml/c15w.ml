(* C15 writer-leg correspondence driver.
   stdin lines:  OPS <TAB> op;op;...  <TAB> obs;obs;...
     op  = H<code>:<p>            WriteHeader(code), underlying panics iff p=1
         | W<len>:<p>:<n>:<e>     Write(len bytes); implicit WriteHeader panics iff p=1; underlying Write returns (n, e)
     obs = <out>/<status>/<written>/<size>     out = u | p | w<n>:<e>
   stdout: MISMATCH <TAB> index <TAB> ops <TAB> impl obs <TAB> model obs ; SUMMARY n=.. ops=.. *)
open Model
open Util

let parse_op (s : string) : op =
  let body = String.sub s 1 (String.length s - 1) in
  let f = List.map int_of_string (String.split_on_char ':' body) in
  match s.[0], f with
  | 'H', [c; p] -> OWH (z_of_int c, p = 1)
  | 'W', [l; p; n; e] -> OW (z_of_int l, p = 1, z_of_int n, e = 1)
  | _ -> failwith ("bad op " ^ s)

let show_obs (o : obs) : string =
  let out = match o.o_out with
    | OutUnit -> "u" | OutPanic -> "p"
    | OutWrite (n, e) -> Printf.sprintf "w%d:%d" (int_of_z n) (if e then 1 else 0) in
  Printf.sprintf "%s/%d/%d/%d" out (int_of_z o.o_status) (if o.o_written then 1 else 0) (int_of_z o.o_size)

(* extraction re-validation: the model's observations as a Coq term (util.ml, checks/common.py vm_crosscheck) *)
let coq_obs (o : obs) : string =
  let out = match o.o_out with
    | OutUnit -> "OutUnit" | OutPanic -> "OutPanic"
    | OutWrite (n, e) -> Printf.sprintf "(OutWrite %s %s)" (coq_z n) (coq_bool e) in
  Printf.sprintf "(mkObs %s %s %s %s)" out (coq_z o.o_status) (coq_bool o.o_written) (coq_z o.o_size)

let () =
  let n = Stdlib.ref 0 and nops = Stdlib.ref 0 and mism = Stdlib.ref 0 in
  (try
     while true do
       let line = input_line stdin in
       match split_tab line with
       | ["OPS"; ops; impl] ->
         Stdlib.incr n;
         let opl = List.map parse_op (List.filter (fun x -> x <> "") (String.split_on_char ';' ops)) in
         nops := Stdlib.( ! ) nops + List.length opl;
         let model = String.concat ";" (List.map show_obs (observe init opl)) in
         if vm_pick (Stdlib.( ! ) n) then
           Printf.printf "VMCASE\t%s\t%s\n" ops (coq_list coq_obs (observe init opl));
         if model <> impl then begin
           Stdlib.incr mism;
           Printf.printf "MISMATCH\t%d\t%s\t%s\t%s\n" (Stdlib.( ! ) n) ops impl model
         end
       | _ -> ()
     done
   with End_of_file -> ());
  Printf.printf "SUMMARY n=%d ops=%d mismatches=%d\n" (Stdlib.( ! ) n) (Stdlib.( ! ) nops) (Stdlib.( ! ) mism)
