(* C16 correspondence driver.
   cluster_model planner   stdin: one planner operation per line (see harness/cmd/cluster/planner.go)
       op TAB arg TAB input-dump TAB desired-dump TAB output-dump
     stdout: MISMATCH TAB op TAB <line>         model result differs from the implementation's
             BUILD TAB inmodel=b TAB planok=b TAB coll=<xhex|-> TAB <line>
                                                 a buildPendingEntries case whose implementation result is
                                                 outside the model's result set and/or is not a correct plan
             VMCASE TAB <line> TAB <coq term>   only with VM_SAMPLE: the model's result for a sampled operation (util.ml)
             SUMMARY k=v ...
   cluster_model runner [fuel]   stdin: one trace per line:  T <name> <delay 0|1> <event> <event> ...
     stdout: ACCEPT name states=n / REJECT name depth=k len=n event=<tok> / INCONCLUSIVE name
             VMCASE TAB T TAB name TAB delay TAB events TAB (|states|, conclusive, accepted prefix)   only with VM_SAMPLE
             SUMMARY k=v ... *)
open Model
open Util

let id_of_x (s : string) : n list =
  if String.length s = 0 || s.[0] <> 'x' then failwith ("bad id " ^ s);
  str_of_hex (String.sub s 1 (String.length s - 1))

let x_of_id (k : n list) : string = "x" ^ hex_of_str k

let split c s = String.split_on_char c s

let parse_entry (s : string) : (n list * entry) =
  match split ',' s with
  | [k; i; c; rt; a] ->
    let cfg = int_of_string c in
    if cfg < 0 then failwith "nil config";
    let rt = if rt = "-" then None else Some (n_of_int (int_of_string rt)) in
    let act = match a with "n" -> ANone | "s" -> AStart | "x" -> AStop | _ -> failwith "bad action" in
    (id_of_x k, { e_id = id_of_x i; e_cfg = n_of_int cfg; e_rt = rt; e_act = act })
  | _ -> failwith ("bad entry " ^ s)

let parse_emap (s : string) : (n list * entry) list =
  if s = "." then [] else List.map parse_entry (split ';' s)

let parse_cmap (s : string) : (n list * n option) list =
  if s = "." then []
  else List.map (fun e -> match split ',' e with
      | [k; "-"] -> (id_of_x k, None)
      | [k; c] -> (id_of_x k, Some (n_of_int (int_of_string c)))
      | _ -> failwith ("bad cmap entry " ^ e)) (split ';' s)

let sorted_ids (l : n list list) : string list = List.sort compare (List.map x_of_id l)

(* ---- extraction re-validation: model values as Coq terms (util.ml, checks/common.py vm_crosscheck) ---- *)
let coq_entry (e : entry) : string =
  Printf.sprintf "(mkE %s %s %s %s)" (coq_nlist e.e_id) (coq_n e.e_cfg) (coq_option coq_n e.e_rt)
    (match e.e_act with ANone -> "ANone" | AStart -> "AStart" | AStop -> "AStop")
let coq_emap (m : (n list * entry) list) : string = coq_list (coq_pair coq_nlist coq_entry) m

(* ------------------------------------------------------------------ planner *)

let planner () =
  let n = ref 0 and builds = ref 0 and colliding = ref 0 and multi = ref 0 and notin = ref 0
  and planfail = ref 0 and planfail_known = ref 0 and opmis = ref 0 and parse = ref 0
  and hyg_multi = ref 0 and fullset = ref 0 and printed = ref 0 and capped = ref 0 in
  let ops = Hashtbl.create 16 in
  let distinct = Hashtbl.create 100000 in
  let bump op = Hashtbl.replace ops op (1 + (try Hashtbl.find ops op with Not_found -> 0)) in
  let mismatch op line = incr opmis; if !opmis <= 100 then Printf.printf "MISMATCH\t%s\t%s\n" op line in
  (try
     while true do
       let line = input_line stdin in
       if line <> "" then begin
         incr n;
         try
           match split_tab line with
           | [op; arg; sin; sdes; sout] ->
             bump op;
             if vm_pick !n then begin
               let term =
                 match op with
                 | "new" -> coq_emap (new_entries (parse_cmap sin))
                 | "build" ->
                   let cur = parse_emap sin and des = parse_emap sdes in
                   Printf.sprintf "(%s, %s, %s)" (coq_emap (build_pending repaired (keys cur) cur des))
                     (coq_bool (hygienicb (ids_of cur des)))
                     (coq_bool (if sout = "nil" then false else plan_okb cur des (parse_emap sout)))
                 | "actions" ->
                   let (ts, tp) = pending_actions (parse_emap sin) in
                   Printf.sprintf "(%s, %s)" (coq_list coq_nlist ts) (coq_list coq_nlist tp)
                 | "commit" -> coq_emap (commit (parse_emap sin))
                 | "remove" -> coq_emap (remove_entry (id_of_x arg) (parse_emap sin))
                 | "setrt" ->
                   (match split ',' arg with
                    | [k; i] -> coq_option coq_emap (set_runtime (id_of_x k) (n_of_int (int_of_string i)) (parse_emap sin))
                    | _ -> failwith "bad setrt arg")
                 | "clrrt" -> coq_option coq_emap (clear_runtime (id_of_x arg) (parse_emap sin))
                 | "count" -> coq_nat (count (parse_emap sin))
                 | _ -> failwith "unknown op" in
               Printf.printf "VMCASE\t%s\t%s\n" line term
             end;
             (match op with
              | "new" ->
                let m = new_entries (parse_cmap sin) in
                if sout = "nil" || not (emap_eqb m (parse_emap sout)) then mismatch op line
              | "build" ->
                incr builds;
                Hashtbl.replace distinct (sin ^ "|" ^ sdes) ();
                let cur = parse_emap sin and des = parse_emap sdes in
                let ids = ids_of cur des in
                let hyg = hygienicb ids in
                let r = if sout = "nil" then None else Some (parse_emap sout) in
                let full = (not hyg) || (!builds land 15 = 0) in
                (* more than 6 current keys (never on the unchanged tree): 7! orders are not enumerated *)
                let big = List.length cur > 6 in
                if big then incr capped;
                let set =
                  if big then [build_pending repaired (keys cur) cur des;
                               build_pending repaired (List.rev (keys cur)) cur des]
                  else if full then (incr fullset; build_pending_set cur des)
                  else [build_pending repaired (keys cur) cur des] in
                if not hyg then begin
                  incr colliding;
                  if List.length (dedup_maps set) > 1 then incr multi
                end else if full && List.length (dedup_maps set) > 1 then incr hyg_multi;
                let inmodel = match r with Some r -> in_result_set r set | None -> false in
                let planok = match r with Some r -> plan_okb cur des r | None -> false in
                if not inmodel then incr notin;
                if not planok then begin
                  incr planfail;
                  if inmodel && not hyg then incr planfail_known
                end;
                if (not inmodel) || (not planok) then begin
                  incr printed;
                  if !printed <= 60 || not inmodel then
                    Printf.printf "BUILD\tinmodel=%b\tplanok=%b\tcoll=%s\t%s\n" inmodel planok
                      (match collision ids with Some x -> x_of_id x | None -> "-") line
                end
              | "actions" ->
                let (ts, tp) = pending_actions (parse_emap sin) in
                let want = "start:" ^ String.concat "," (sorted_ids ts) ^ "|stop:" ^ String.concat "," (sorted_ids tp) in
                if want <> sout then mismatch op line
              | "commit" ->
                if sout = "nil" || not (emap_eqb (commit (parse_emap sin)) (parse_emap sout)) then mismatch op line
              | "remove" ->
                let k = id_of_x arg in
                if sout = "nil" || not (emap_eqb (remove_entry k (parse_emap sin)) (parse_emap sout)) then mismatch op line
              | "setrt" ->
                (match split ',' arg with
                 | [k; i] ->
                   (match set_runtime (id_of_x k) (n_of_int (int_of_string i)) (parse_emap sin) with
                    | None -> if sout <> "nil" then mismatch op line
                    | Some m -> if sout = "nil" || not (emap_eqb m (parse_emap sout)) then mismatch op line)
                 | _ -> failwith "bad setrt arg")
              | "clrrt" ->
                (match clear_runtime (id_of_x arg) (parse_emap sin) with
                 | None -> if sout <> "nil" then mismatch op line
                 | Some m -> if sout = "nil" || not (emap_eqb m (parse_emap sout)) then mismatch op line)
              | "count" ->
                if int_of_nat (count (parse_emap sin)) <> int_of_string sout then mismatch op line
              | _ -> failwith "unknown op")
           | _ -> failwith "field count"
         with Failure msg | Invalid_argument msg ->
           incr parse; if !parse <= 20 then Printf.printf "MISMATCH\tparse(%s)\t%s\n" msg line
       end
     done
   with End_of_file -> ());
  let opc op = try Hashtbl.find ops op with Not_found -> 0 in
  Printf.printf
    "SUMMARY n=%d builds=%d distinct_builds=%d colliding=%d multi=%d notinmodel=%d planfail=%d planfail_known=%d opmismatch=%d parse=%d hyg_multi=%d fullset=%d capped=%d new=%d actions=%d commit=%d setrt=%d clrrt=%d remove=%d count=%d\n"
    !n !builds (Hashtbl.length distinct) !colliding !multi !notin !planfail !planfail_known !opmis !parse
    !hyg_multi !fullset !capped (opc "new") (opc "actions") (opc "commit") (opc "setrt") (opc "clrrt") (opc "remove") (opc "count")

(* ------------------------------------------------------------------ runner *)

let after_colon (tok : string) : string =
  match String.index_opt tok ':' with
  | Some i -> String.sub tok (i + 1) (String.length tok - i - 1)
  | None -> ""

let parse_event (tok : string) : event =
  let nn s = n_of_int (int_of_string s) in
  let tag = match String.index_opt tok ':' with Some i -> String.sub tok 0 i | None -> tok in
  let rest = after_colon tok in
  match tag with
  | "O" -> EOffer (parse_cmap rest)
  | "SA" -> EStopApi | "SR" -> EStopApiRet | "CA" -> ECancel | "CL" -> EClose
  | "F" ->
    (match split ',' rest with
     | [k; c; i; b] ->
       let b = match b with "r" -> BReady | "n" -> BNever | "e" -> BError | _ -> failwith "beh" in
       EFactory (id_of_x k, nn c, nn i, b)
     | _ -> failwith "F")
  | "FE" -> (match split ',' rest with [k; c] -> EFactoryErr (id_of_x k, nn c) | _ -> failwith "FE")
  | "RC" -> ERunCall (nn rest) | "SC" -> EStopCall (nn rest) | "ST" -> EStopRet (nn rest)
  | "N" -> ECount (nn rest)
  | "S" ->
    EState (match rest with "R" -> CRunning | "L" -> CReloading | "P" -> CStopping | "D" -> CStopped | "?Error" -> CError | _ -> COther)
  | "RR" -> ERunReturn
  | _ -> failwith ("event " ^ tok)

let pc_name = function
  | PIdle -> "idle" | PStop _ -> "stop" | PDelay _ -> "delay" | PStart _ -> "start"
  | PWait _ -> "wait" | PFailStop _ -> "failstop" | PFin -> "fin" | PRet -> "ret"

let runner fuel =
  let n = ref 0 and acc = ref 0 and rej = ref 0 and inc = ref 0 and evs = ref 0 and bad = ref 0
  and maxset = ref 0 in
  let f = nat_of_int fuel in
  (try
     while true do
       let line = input_line stdin in
       match split ' ' (String.trim line) with
       | "T" :: name :: delay :: toks ->
         incr n;
         (try
            let toks = List.filter (fun t -> t <> "") toks in
            let t = List.map parse_event toks in
            evs := !evs + List.length t;
            let (states, ok) = accept (delay = "1") f t in
            let k = List.length states in
            if k > !maxset then maxset := k;
            (* extraction re-validation (util.ml): the acceptor's verdict for a sampled trace, as a Coq term *)
            if vm_pick !n then
              Printf.printf "VMCASE\tT\t%s\t%s\t%s\t(%s, %s, %s)\n" name delay (String.concat " " toks)
                (coq_nat (nat_of_int k)) (coq_bool ok) (coq_nat (accepted_prefix (delay = "1") f t));
            if not ok then (incr inc; Printf.printf "INCONCLUSIVE %s\n" name)
            else if states = [] then begin
              incr rej;
              let d = int_of_nat (accepted_prefix (delay = "1") f t) in
              Printf.printf "REJECT %s depth=%d len=%d event=%s\n" name d (List.length t)
                (if d < List.length toks then List.nth toks d else "<end>")
            end else begin
              incr acc;
              Printf.printf "ACCEPT %s states=%d pcs=%s\n" name k
                (String.concat "," (List.sort_uniq compare (List.map (fun s -> pc_name s.s_pc) states)))
            end
          with Failure msg | Invalid_argument msg -> incr bad; Printf.printf "BADTRACE %s %s\n" name msg)
       | _ -> ()
     done
   with End_of_file -> ());
  Printf.printf "SUMMARY n=%d accepted=%d rejected=%d inconclusive=%d badtrace=%d events=%d maxset=%d\n"
    !n !acc !rej !inc !bad !evs !maxset

let () =
  match Array.to_list Sys.argv with
  | _ :: "planner" :: _ -> planner ()
  | _ :: "runner" :: rest -> runner (match rest with f :: _ -> int_of_string f | [] -> 20000)
  | _ -> prerr_endline "usage: cluster_model planner|runner [fuel]"; exit 2
