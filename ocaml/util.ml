(* Shared helpers for the correspondence drivers (trusted glue). *)
open Model

let rec pos_of_int (n : int) : positive =
  if n = 1 then XH
  else if n land 1 = 0 then XO (pos_of_int (n lsr 1))
  else XI (pos_of_int (n lsr 1))

let n_of_int (n : int) : n = if n = 0 then N0 else Npos (pos_of_int n)

let rec int_of_pos (p : positive) : int =
  match p with XH -> 1 | XO q -> 2 * int_of_pos q | XI q -> 2 * int_of_pos q + 1

let int_of_n (n : n) : int = match n with N0 -> 0 | Npos p -> int_of_pos p

let rec nat_of_int (n : int) : nat = if n <= 0 then O else S (nat_of_int (n - 1))
let rec int_of_nat (n : nat) : int = match n with O -> 0 | S m -> 1 + int_of_nat m

let z_of_int (n : int) : z =
  if n = 0 then Z0 else if n > 0 then Zpos (pos_of_int n) else Zneg (pos_of_int (-n))
let int_of_z (x : z) : int =
  match x with Z0 -> 0 | Zpos p -> int_of_pos p | Zneg p -> - (int_of_pos p)

(* bytes table so that 580k strings do not rebuild positives *)
let byte_tab : n array = Array.init 256 n_of_int

let str_of_hex (h : string) : n list =
  let len = String.length h / 2 in
  let rec go i acc =
    if i < 0 then acc
    else go (i - 1) (byte_tab.(int_of_string ("0x" ^ String.sub h (2 * i) 2)) :: acc)
  in
  go (len - 1) []

let hex_of_str (s : n list) : string =
  String.concat "" (List.map (fun b -> Printf.sprintf "%02x" (int_of_n b)) s)

let split_tab (line : string) : string list = String.split_on_char '\t' line

(* ---- extraction re-validation (checks/common.py vm_crosscheck, DESIGN 14.6) ----
   With VM_SAMPLE=<stride>:<offset> in the environment a driver prints, for every case whose running index i has
   i mod stride = offset, one line  VMCASE <TAB> raw input fields ... <TAB> the model's outputs as COQ TERMS.
   The check re-evaluates the model on the same inputs inside coqc (vm_compute) and demands syntactic equality. *)
let (vm_n, vm_off) : int * int =
  match Sys.getenv_opt "VM_SAMPLE" with
  | Some s ->
    (match String.split_on_char ':' s with
     | [a; b] -> (try (int_of_string a, int_of_string b) with _ -> (0, 0))
     | [a] -> (try (int_of_string a, 0) with _ -> (0, 0))
     | _ -> (0, 0))
  | None -> (0, 0)
let vm_pick (i : int) : bool = vm_n > 0 && i mod vm_n = vm_off mod vm_n

let coq_bool (b : bool) : string = if b then "true" else "false"
let coq_n (x : n) : string = Printf.sprintf "%d%%N" (int_of_n x)
let coq_z (x : z) : string = Printf.sprintf "(%d)%%Z" (int_of_z x)
let coq_nat (x : nat) : string = Printf.sprintf "%d%%nat" (int_of_nat x)
let coq_list (f : 'a -> string) (l : 'a list) : string = "[" ^ String.concat "; " (List.map f l) ^ "]"
let coq_nlist (l : n list) : string = "([" ^ String.concat "; " (List.map (fun b -> string_of_int (int_of_n b)) l) ^ "]%N)"
let coq_option (f : 'a -> string) (o : 'a option) : string =
  match o with None -> "None" | Some x -> "(Some " ^ f x ^ ")"
let coq_pair (f : 'a -> string) (g : 'b -> string) ((a, b) : 'a * 'b) : string = "(" ^ f a ^ ", " ^ g b ^ ")"
