(* Supervisor correspondence driver (check B): feeds each observed event log to the extracted
   trace acceptor.  stdin: scenarios as printed by harness/cmd/sup.  stdout: MISMATCH lines and
   one SUMMARY line. *)
open Model
open Util

let fuel = nat_of_int (try int_of_string (Sys.getenv "SUP_FUEL") with _ -> 2500)

let parse_caps (s : string) : rspec list =
  if s = "" then [] else
  List.map (fun c ->
      let b i = c.[i] = '1' in
      { stateable = b 0; reloadable = b 1; rsender = b 2; ssender = b 3;
        stop_style = (if b 4 then StopUntilRunDone else StopNonBlocking);
        run_exit = (match c.[5] with 's' -> ExitOnSignal | 'f' -> ExitFree | _ -> ExitNever);
        held_sub = (String.length c > 6 && c.[6] = '1') })
    (String.split_on_char ',' s)

let kv (tok : string) : string * string =
  match String.index_opt tok '=' with
  | Some i -> (String.sub tok 0 i, String.sub tok (i + 1) (String.length tok - i - 1))
  | None -> (tok, "")

let parse_smap (s : string) : nat option list =
  if s = "" then [] else
  List.map (fun x -> if x = "-" then None else Some (nat_of_int (int_of_string x))) (String.split_on_char ',' s)

let parse_op (ws : string list) : op option =
  match ws with
  | ["Shutdown"] -> Some OpShutdown
  | ["ReloadAll"] -> Some OpReloadAll
  | ["Sig"; "int"] -> Some (OpSignal SigInt)
  | ["Sig"; "term"] -> Some (OpSignal SigTerm)
  | ["Sig"; "hup"] -> Some (OpSignal SigHup)
  | ["Sig"; "other"] -> Some (OpSignal SigOther)
  | _ -> None

let n = nat_of_int
let i_ = int_of_string

type parsed = Ev of event | Skip | Special of string

let parse_event (line : string) : parsed =
  match String.split_on_char ' ' line with
  | "EV" :: "RunCall" :: [i] -> Ev (ERunCall (n (i_ i)))
  | "EV" :: "RunRet" :: i :: ["nil"] -> Ev (ERunRet (n (i_ i), None))
  | "EV" :: "RunRet" :: i :: "err" :: id :: [c] -> Ev (ERunRet (n (i_ i), Some (n (i_ id), c = "1")))
  | "EV" :: "StopCall" :: [i] -> Ev (EStopCall (n (i_ i)))
  | "EV" :: "StopRet" :: [i] -> Ev (EStopRet (n (i_ i)))
  | "EV" :: "ReloadCall" :: [i] -> Ev (EReloadCall (n (i_ i)))
  | "EV" :: "ReloadRet" :: [i] -> Ev (EReloadRet (n (i_ i)))
  | "EV" :: "Poll" :: i :: [b] -> Ev (EPoll (n (i_ i), b = "1"))
  | "EV" :: "PollBegin" :: [i] -> Ev (EPollBegin (n (i_ i)))
  | "EV" :: "Emit" :: i :: [x] -> Ev (EEmit (n (i_ i), n (i_ x)))
  | "EV" :: "TrigR" :: [i] -> Ev (ETrigR (n (i_ i)))
  | "EV" :: "TrigS" :: [i] -> Ev (ETrigS (n (i_ i)))
  | "EV" :: "Call" :: k :: rest ->
    (match parse_op rest with Some o -> Ev (ECall (n (i_ k), o)) | None -> Special line)
  | "EV" :: "Ret" :: k :: rest ->
    (match parse_op rest with Some o -> Ev (ERet (n (i_ k), o)) | None -> Special line)
  | "EV" :: ["ParentCancel"] -> Ev EParentCancel
  | "EV" :: ["RunEnter"] -> Ev ERunEnter
  | "EV" :: ["Entered"] -> Ev EEntered
  | "EV" :: "RunReturn" :: ["nil"] -> Ev (ERunReturn ResNil)
  | "EV" :: "RunReturn" :: ["timeout"] -> Ev (ERunReturn ResTimeout)
  | "EV" :: "RunReturn" :: "err" :: [id] -> Ev (ERunReturn (ResErr (n (i_ id))))
  | "EV" :: "Subscribe" :: [c] -> Ev (ESubscribe (n (i_ c)))
  | "EV" :: "SubRecv" :: c :: [m] -> Ev (ESubRecv (n (i_ c), parse_smap m))
  | "EV" :: "SubCancel" :: [c] -> Ev (ESubCancel (n (i_ c)))
  | "EV" :: "SubClosed" :: [c] -> Ev (ESubClosed (n (i_ c)))
  | "EV" :: "Snap" :: toks ->
    let tbl = List.map kv toks in
    let g k = try List.assoc k tbl with Not_found -> "" in
    let bl = if g "blocked" = "" then [] else List.map (fun x -> n (i_ x)) (String.split_on_char '+' (g "blocked")) in
    Ev (ESnap { sn_blocked = bl; sn_smap = parse_smap (g "smap"); sn_run_returned = (g "ret" = "1");
                sn_gor = n (i_ (g "gor")) })
  | "EV" :: "SubRel" :: [i] -> Ev (ESubRel (n (i_ i)))
  | "EV" :: ["Quiet"] -> Ev EQuiet
  | "EV" :: ["NoQuiesce"] -> Skip
  | _ -> Special line

let rec take k l = if k <= 0 then [] else match l with [] -> [] | x :: t -> x :: take (k - 1) t

let () =
  let scen = ref 0 and mism = ref 0 and events = ref 0 and incon = ref 0 and specials = ref 0 in
  let snaps = ref 0 in
  let fam_counts = Hashtbl.create 8 in
  let propfail : (string, int) Hashtbl.t = Hashtbl.create 8 in
  let accepted = ref 0 and kinds = Hashtbl.create 32 in
  let cur_hdr = ref "" and cur_cfg = ref None and cur_evs = ref [] and cur_lines = ref [] and cur_special = ref [] in
  let finish () =
    match !cur_cfg with
    | None -> ()
    | Some cfg ->
      incr scen;
      let evs = List.rev !cur_evs and lines = List.rev !cur_lines in
      events := !events + List.length evs;
      List.iter (fun sp -> incr specials; incr mism; Printf.printf "MISMATCH special %s :: %s\n" !cur_hdr sp) (List.rev !cur_special);
      let mon name f = if not (f cfg evs) then begin
          Hashtbl.replace propfail name (1 + try Hashtbl.find propfail name with Not_found -> 0);
          Printf.printf "PROPFAIL %s %s\n" name !cur_hdr end in
      mon "C01.order" c01_order; mon "C01.exactly_once" c01_exactly_once; mon "C01.not_before" c01_not_before;
      mon "C03.gate" c03_gate; mon "C03.once" c03_once; mon "C03.pending" c03_pending;
      mon "C01.cancel_after" c01_cancel_after;
      mon "C04" c04_holdsb; mon "C04.cause" c04_needs_cause; mon "C04.nil" c04_nil; mon "C04.reports" c04_reports;
      mon "C05.shape" c05_shape; mon "C05.no_dup" c05_no_dup; mon "C05.lower" c05_lower; mon "C06" c06_holdsb; mon "C06.final" c06_final; mon "C06.sub_entry" c06_sub_entry;
      mon "C18.final" c18_holdsb; mon "C18.bounded" c18_bounded;
      List.iter (fun l -> match String.split_on_char ' ' l with
          | _ :: k :: _ -> Hashtbl.replace kinds k (1 + try Hashtbl.find kinds k with Not_found -> 0)
          | _ -> ()) lines;
      (* acceptance; a snapshot rejected on the goroutine census ALONE is reported and then replaced by the
         model's own census, so that later disagreements of the same scenario (which may belong to other
         properties) are not masked by it *)
      let rec accept_loop (evs : event list) (budget : int) (first : bool) =
      let d = int_of_nat (sup_depth cfg fuel evs) in
      if d >= List.length evs then (if first then incr accepted) else begin
        (* either rejected or out of fuel: distinguish *)
        let (_, ok) = sup_frontier cfg fuel (take d evs) in
        if not ok then (if first then incr incon)
        else begin
          if first then incr mism;
          let patched = ref None in
          let diag = match List.nth evs d with
            | ESnap o -> let (sts, _) = sup_accept cfg fuel (take d evs) in
              let dg = int_of_nat (snap_diagnosis cfg sts o) in
              if dg = 5 then begin
                let mx = snap_census_max cfg sts o in
                patched := Some (List.mapi (fun i e -> if i = d then ESnap { o with sn_gor = mx } else e) evs);
                Printf.sprintf " snapdiag=5 census_impl=%d census_model_max=%d" (int_of_nat o.sn_gor) (int_of_nat mx)
              end
              else Printf.sprintf " snapdiag=%d" dg
            | _ -> "" in
          Printf.printf "MISMATCH reject %s :: at=%d%s event=%s\n" !cur_hdr d diag (List.nth lines d);
          if Sys.getenv_opt "SUP_DEBUG" <> None then begin
            let (sts, _) = sup_accept cfg fuel (take d evs) in
            Printf.printf "DEBUG frontier=%d\n" (List.length sts);
            List.iteri (fun i st ->
                if i < 6 then begin
                  let sn = snapshot_of st in
                  let q = quiescent cfg st in
                  let en = List.filter (fun l -> step0 cfg st l <> None) (taus_nt cfg st @ autos cfg st) in
                  let nm (l : label) = match l with
                    | LRunEntered -> "RunEntered" | LLaunch _ -> "Launch" | LGateDecide _ -> "GateDecide" | LGateErr _ -> "GateErr" | LGateCtx _ -> "GateCtx"
                    | LReapErr -> "ReapErr" | LReapCtx -> "ReapCtx" | LReapSig -> "ReapSig" | LMainShutdown -> "MainShutdown"
                    | LErrSend _ -> "ErrSend" | LSdCancel -> "SdCancel" | LSdWgDone -> "SdWgDone" | LRmAccept _ -> "RmAccept"
                    | LRmCtx -> "RmCtx" | LRmExit -> "RmExit" | LSdmExit -> "SdmExit" | LStmExit -> "StmExit"
                    | LTrigRecvR _ -> "TrigRecvR" | LTrigRecvS _ -> "TrigRecvS" | LMonSub _ -> "MonSub" | LMonRecv _ -> "MonRecv"
                    | LMonBcast _ -> "MonBcast" | LSigPut _ -> "SigPut" | LCallerCtx _ -> "CallerCtx" | LSubUnreg _ -> "SubUnreg"
                    | LSubDo _ -> "SubDo" | LCallerGo _ -> "CallerGo" | LRunCall _ -> "RunCall" | LStopCall _ -> "StopCall"
                    | LReloadCall _ -> "ReloadCall" | LRet _ -> "Ret" | LMainReturn _ -> "MainReturn" | _ -> "other" in
                  Printf.printf "DEBUG   enabled: %s\n" (String.concat " " (List.map nm en));
                  Printf.printf "DEBUG state %d: quiescent=%b enabled=%d gor=%d blocked=[%s] smap=[%s] ret=%b\n" i q
                    (List.length en) (int_of_nat sn.sn_gor)
                    (String.concat "+" (List.map (fun x -> string_of_int (int_of_nat x)) sn.sn_blocked))
                    (String.concat "," (List.map (function None -> "-" | Some x -> string_of_int (int_of_nat x)) sn.sn_smap))
                    sn.sn_run_returned
                end) sts
          end;
          (match !patched with
           | Some evs' when budget > 0 -> accept_loop evs' (budget - 1) false
           | _ -> ())
        end
      end
      in
      accept_loop evs 6 true
  in
  (try
     while true do
       let line = input_line stdin in
       if String.length line >= 4 && String.sub line 0 4 = "SCN " then begin
         cur_hdr := line;
         let toks = List.map kv (String.split_on_char ' ' line) in
         let g k = try List.assoc k toks with Not_found -> "" in
         let fam = g "family" in
         Hashtbl.replace fam_counts fam (1 + try Hashtbl.find fam_counts fam with Not_found -> 0);
         cur_cfg := Some { specs = parse_caps (g "caps"); startup_may_fire = (g "su" = "1");
                           shutdown_may_fire = (g "sd" = "1") };
         cur_evs := []; cur_lines := []; cur_special := []
       end else if line = "END" then (finish (); cur_cfg := None)
       else if String.length line >= 3 && String.sub line 0 3 = "EV " then begin
         match parse_event line with
         | Ev e -> (match e with ESnap _ -> incr snaps | _ -> ());
           cur_evs := e :: !cur_evs; cur_lines := line :: !cur_lines
         | Skip -> ()
         | Special s -> cur_special := s :: !cur_special
       end
     done
   with End_of_file -> ());
  let fams = Hashtbl.fold (fun k v acc -> Printf.sprintf "%s fam_%s=%d" acc k v) fam_counts "" in
  let ks = Hashtbl.fold (fun k v acc -> Printf.sprintf "%s ev_%s=%d" acc k v) kinds "" in
  let pf = Hashtbl.fold (fun k v acc -> Printf.sprintf "%s pf_%s=%d" acc k v) propfail "" in
  Printf.printf "SUMMARY scenarios=%d accepted=%d events=%d mismatches=%d inconclusive=%d specials=%d snaps=%d%s%s%s\n"
    !scen !accepted !events !mism !incon !specials !snaps fams ks pf
