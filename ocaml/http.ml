(* Correspondence driver for C12/C13/C14/C19 (model: HttpCfg, HttpServer, HttpDrain).
   stdin: the lines printed by harness/cmd/http (tab separated, first field = record type)
     EQ  cfgA cfgB impl                          Config.Equal differential
     CR  id kind where routes oracle class accepted observed      C19 crash cases
     NC  id step addr routes opts oracle result  C19 NewConfig differential: one construction step of a chain
         (opts: d/r/w/i<ns> timeouts, c<k> = WithConfigCopy(product k of the same case), n = no modelled field;
          result: the product's encoding or "rejected")
     H   id cfgs init events                     reload history (event trace for the acceptor)
     DR  id drain gap band slack ds ok t flags trigger             C14 drain outcome
     (other lines, e.g. PROP..., are ignored here; the check module reads them itself)
   stdout: MISMATCH <kind> ... lines, FINDING ... lines (C19 predicted+observed crashes),
           ACC ... lines (one per history), final SUMMARY k=v ... *)
open Model
open Util

let z_of_string (s : string) : z =
  let v = Int64.of_string s in
  if v = 0L then Z0
  else
    let rec pos (x : int64) : positive =
      (* x > 0, unsigned interpretation for min_int handled by caller *)
      if x = 1L then XH
      else if Int64.logand x 1L = 0L then XO (pos (Int64.shift_right_logical x 1))
      else XI (pos (Int64.shift_right_logical x 1))
    in
    if v > 0L then Zpos (pos v)
    else if v = Int64.min_int then Zneg (XO (pos (Int64.shift_right_logical v 1)))
    else Zneg (pos (Int64.neg v))

let split c s = if s = "" then [] else String.split_on_char c s

let parse_route (s : string) : route =
  match String.split_on_char ':' s with
  | [n; p] -> { rname = str_of_hex n; rpath = str_of_hex p }
  | _ -> failwith ("route " ^ s)

let parse_cfg (s : string) : config =
  match String.split_on_char ';' s with
  | [a; d; r; w; i; rs] ->
    { addr = str_of_hex a; drain = z_of_string d; read_to = z_of_string r; write_to = z_of_string w;
      idle_to = z_of_string i; routes = List.map parse_route (split ',' rs) }
  | _ -> failwith ("cfg " ^ s)

let fsm_of_int = function
  | 0 -> FNew | 1 -> FBooting | 2 -> FRunning | 3 -> FReloading | 4 -> FStopping | 5 -> FStopped
  | 6 -> FError | _ -> FUnknown

let sres_of_int = function 0 -> SOk | 1 -> STimeout | 2 -> SFail | _ -> SNotRunning
let rres_of_int = function
  | 0 -> ROk | 1 -> RBootErr | 2 -> RHttpErr | 3 -> RTransErr | n -> RStop (sres_of_int (n - 4))

let tail s k = String.sub s k (String.length s - k)
let nat_tail s k = nat_of_int (int_of_string (tail s k))

let parse_event (cfgs : config array) (tok : string) : event =
  let pre2 = if String.length tok >= 2 then String.sub tok 0 2 else tok in
  match pre2 with
  | "RC" -> ERunCall
  | "RR" -> ERunRet (rres_of_int (int_of_string (tail tok 2)))
  | "SC" -> EStopCall (nat_tail tok 2)
  | "SR" -> EStopRet (nat_tail tok 2)
  | "XX" -> ECancel
  | "LC" -> EReloadCall (nat_tail tok 2)
  | "LR" -> EReloadRet (nat_tail tok 2)
  | "CB" ->
    (match tail tok 2 with
     | "E" -> ECallback CbErr
     | "O" -> ECallback CbErrOld
     | "N" -> ECallback CbNil
     | k -> ECallback (CbCfg cfgs.(int_of_string k)))
  | "SH" -> EShutdownCall (nat_tail tok 2)
  | "SD" ->
    (match String.split_on_char ':' (tail tok 2) with
     | [i; r] -> EShutdownRet (nat_of_int (int_of_string i), sres_of_int (int_of_string r))
     | _ -> failwith tok)
  | "CR" ->
    (match String.split_on_char ':' (tail tok 2) with
     | [i; k] -> ECreate (nat_of_int (int_of_string i), cfgs.(int_of_string k))
     | _ -> failwith tok)
  | "PA" -> ECrash
  | "LF" -> ELasFail (nat_tail tok 2)
  | "LX" -> ELasClosed (nat_tail tok 2)
  | "FB" -> EForeignBind (str_of_hex (tail tok 2))
  | "FF" -> EForeignFree (str_of_hex (tail tok 2))
  | "ST" -> EState (fsm_of_int (int_of_string (tail tok 2)))
  | "DL" ->
    (match String.split_on_char ':' (tail tok 2) with
     | [a; b] -> EDial (str_of_hex a, b = "1")
     | _ -> failwith tok)
  | "SV" ->
    (match String.split_on_char ':' (tail tok 2) with
     | [a; t] ->
       let ent s = match String.split_on_char '=' s with
         | [p; "-"] -> (str_of_hex p, None)
         | [p; m] -> (str_of_hex p, Some (str_of_hex m))
         | _ -> failwith tok in
       EServe (str_of_hex a, List.map ent (split ',' t))
     | _ -> failwith tok)
  | "CN" -> ECensus (nat_tail tok 2)
  | "QQ" -> EQuiesce
  | _ -> failwith ("event " ^ tok)

let fuel = nat_of_int 4000

let () =
  let n = ref 0 and mism = ref 0 in
  let eq_n = ref 0 and eq_true = ref 0 and eq_nodup = ref 0 and eq_spec_diff = ref 0 in
  let cr_n = ref 0 and cr_crash = ref 0 and cr_find = ref 0 in
  let nc_n = ref 0 and nc_copy = ref 0 and nc_rej = ref 0 in
  let products : (string, (int * config option) list) Hashtbl.t = Hashtbl.create 64 in
  let h_n = ref 0 and h_acc = ref 0 and h_incon = ref 0 and h_events = ref 0 and h_states = ref 0 in
  let dr_n = ref 0 in
  (try
     while true do
       let line = input_line stdin in
       match split_tab line with
       | ["EQ"; a; b; impl] ->
         incr n; incr eq_n;
         let ca = parse_cfg a and cb = parse_cfg b in
         let m = go_config_equal ca cb in
         let i = impl = "1" in
         if m then incr eq_true;
         let nodup = paths_nodup ca.routes && paths_nodup cb.routes in
         if nodup then incr eq_nodup;
         let spec = config_equiv ca cb in
         if m <> i then begin
           incr mism;
           (* does the implementation also disagree with the SPECIFICATION on a duplicate-free pair? *)
           Printf.printf "MISMATCH equal impl=%b model=%b spec=%b nodup=%b\t%s\t%s\n" i m spec nodup a b
         end else if nodup && m <> spec then begin
           (* impossible by C13_equal_iff; cross-check of the extraction *)
           incr mism; incr eq_spec_diff;
           Printf.printf "MISMATCH equal-spec model=%b spec=%b\t%s\t%s\n" m spec a b
         end
       | ["RQ"; a; b; impl] ->
         incr n; incr eq_n;
         let ra = parse_route a and rb = parse_route b in
         let m = route_equal ra rb in
         if m then incr eq_true;
         if m <> (impl = "1") then begin
           incr mism;
           Printf.printf "MISMATCH route-equal impl=%s model=%b spec=%b nodup=true\t%s\t%s\n" impl m
             (ra.rname = rb.rname && ra.rpath = rb.rpath) a b
         end
       | ["CR"; id; kind; where; rs; orc; cls; acc; observed] ->
         incr n; incr cr_n;
         let routes = List.map parse_route (split ',' rs) in
         let oracle = fun _ -> orc = "1" in
         let pc = if kind = "composite" then false else predicts_crash validated_now oracle routes in
         let pa = if kind = "composite" then true else new_config_ok validated_now oracle routes in
         let crashed = observed = "crash" in
         if crashed then incr cr_crash;
         (* a crash is reported first, with its input, whatever else disagrees *)
         if pc && crashed then begin
           incr cr_find;
           Printf.printf "FINDING mux-panic:%s %s where=%s\n" cls id where
         end else if crashed then begin
           incr mism;
           Printf.printf "MISMATCH crash-unpredicted %s kind=%s where=%s class=%s\n" id kind where cls
         end else if observed = "handler-panic" then begin
           incr mism;
           Printf.printf "MISMATCH handler-panic %s kind=%s where=%s class=%s\n" id kind where cls
         end else if (acc = "1") <> pa then begin
           incr mism;
           Printf.printf "MISMATCH accept %s kind=%s where=%s impl_accepted=%s model_accepted=%b class=%s\n" id kind where acc pa cls
         end else if pc && not crashed then begin
           incr mism;
           Printf.printf "MISMATCH crash-missing %s kind=%s where=%s class=%s observed=%s\n" id kind where cls observed
         end else if observed = "hang" || observed = "none" then begin
           incr mism;
           Printf.printf "MISMATCH %s %s kind=%s where=%s\n" observed id kind where
         end
       | ["NC"; id; step; a; rs; opts; orc; result] ->
         incr n; incr nc_n;
         let prev = try Hashtbl.find products id with Not_found -> [] in
         let routes = List.map parse_route (split ',' rs) in
         let oracle = fun _ -> orc = "1" in
         let bad = ref false in
         let opt_of s =
           let v () = z_of_string (tail s 1) in
           match s.[0] with
           | 'd' -> ODrain (v ()) | 'r' -> ORead (v ()) | 'w' -> OWrite (v ()) | 'i' -> OIdle (v ())
           | 'c' -> incr nc_copy;
             (match (try List.assoc (int_of_string (tail s 1)) prev with Not_found -> None) with
              | Some c -> OCopy (Some c)
              | None -> bad := true; ONone)   (* a copy of a product the model refused: reported at that step *)
           | _ -> ONone in
         let ol = List.map opt_of (split ',' opts) in
         let m = new_config validated_now oracle (str_of_hex a) routes ol in
         Hashtbl.replace products id ((int_of_string step, m) :: prev);
         let i = if result = "rejected" then None else Some (parse_cfg result) in
         if m = None then incr nc_rej;
         let same = match m, i with
           | None, None -> true
           | Some x, Some y -> config_eqb x y
           | _, _ -> false in
         if not same && not !bad then begin
           incr mism;
           Printf.printf "MISMATCH newconfig %s step=%s impl=%s model=%s class=%s\n" id step
             (if i = None then "rejected" else "accepted") (if m = None then "rejected" else "accepted")
             (match m, i with Some _, Some _ -> "fields" | _ -> if orc = "1" then "ok-routes" else "bad-routes")
         end
       | ["H"; id; cfgs; init; evs] ->
         incr n; incr h_n;
         let cfgs = Array.of_list (List.map parse_cfg (split '|' cfgs)) in
         let c0 = cfgs.(int_of_string init) in
         let toks = split ' ' evs in
         let tr = List.map (parse_event cfgs) toks in
         h_events := !h_events + List.length tr;
         let mux = fun _ -> true in
         let (sts, complete) = http_accept stop_locked_now validated_now mux fuel c0 tr in
         h_states := !h_states + List.length sts;
         if sts = [] then begin
           incr mism;
           let d = int_of_nat (http_depth stop_locked_now validated_now mux fuel c0 tr) in
           let next = try List.nth toks d with _ -> "?" in
           Printf.printf "MISMATCH hist %s depth=%d/%d next=%s\n" id d (List.length toks) next
         end else if not complete then begin
           incr h_incon; Printf.printf "ACC %s inconclusive\n" id
         end else begin
           incr h_acc; Printf.printf "ACC %s ok events=%d states=%d\n" id (List.length tr) (List.length sts)
         end
       | ["DR"; id; drain; gap; band; slack; ds; ok; t; fl; trig] ->
         incr n; incr dr_n;
         let ni s = n_of_int (int_of_string s) in
         let dsl = List.map ni (split ',' ds) and fll = List.map (fun s -> s = "1") (split ',' fl) in
         if not (drain_check (ni drain) (ni gap) (ni band) (ni slack) dsl (ok = "1") (ni t) fll) then begin
           incr mism;
           Printf.printf "MISMATCH drain %s trigger=%s drain=%s gap=%s ds=%s ok=%s t=%s flags=%s\n" id trig drain gap ds ok t fl
         end else if not (sres_allowed (z_of_string drain) (if ok = "1" then SOk else STimeout)) then begin
           (* protocol model (HttpServer.sres_allowed): with DrainTimeout <= 0 stopServer reports the timeout, whatever
              Shutdown returned - an idle server included *)
           incr mism;
           Printf.printf "MISMATCH drain-result %s trigger=%s drain=%s ds=%s ok=%s: the protocol model allows only the timeout for DrainTimeout <= 0\n" id trig drain ds ok
         end
       | _ -> ()
     done
   with End_of_file -> ());
  Printf.printf
    "SUMMARY n=%d mismatches=%d eq=%d eq_true=%d eq_nodup=%d cr=%d cr_crash=%d cr_findings=%d hist=%d hist_acc=%d hist_inconclusive=%d hist_events=%d hist_states=%d drain=%d nc=%d nc_copies=%d nc_rejected=%d validated=%d\n"
    !n !mism !eq_n !eq_true !eq_nodup !cr_n !cr_crash !cr_find !h_n !h_acc !h_incon !h_events !h_states !dr_n
    !nc_n !nc_copy !nc_rej
    (if validated_now then 1 else 0)
