(* Extraction of the composite model, its trace acceptor and the executable property predicates.
   Only ExtrOcamlBasic is used: nat, positive, N stay Coq datatypes. *)
Require Extraction.
Require ExtrOcamlBasic.
From Coq Require Import ZArith.
From GS Require Import Errs Composite CompositeMon.
Extraction Language OCaml.
Extraction "m_composite.ml"
  accept accept0 accept1 depth kid_census worker_census C09_holdsb C10_holdsb C11_holdsb membership_changed same_name_set
  is_cancel wraps leaves classify fail_result user_leaves
  step obs taus vis init key event_eqb
  Z.of_N. (* Z.of_N only so that ocaml/util.ml (shared) finds the type z *)
