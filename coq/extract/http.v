(* Extraction of the HTTP-runner models for the correspondence driver ocaml/http.ml.
   Only ExtrOcamlBasic is used: nat, positive, N, Z stay Coq datatypes. *)
Require Extraction.
Require ExtrOcamlBasic.
From GS Require Import HttpCfg HttpServer HttpDrain.
Extraction Language OCaml.
Extraction "m_http.ml"
  route_equal go_config_equal config_equiv paths_nodup config_eqb new_config_ok new_config
  http_accept http_depth validated_now stop_locked_now predicts_crash fsm_code
  drain_check sres_allowed.
