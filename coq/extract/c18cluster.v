(* Extraction of the cluster census model and its acceptor for the C18 cluster-leg driver.
   Only ExtrOcamlBasic is used: nat, positive, N stay Coq datatypes. *)
Require Extraction.
Require ExtrOcamlBasic.
From Coq Require Import ZArith.
From GS Require Import Cluster ClusterLTS ClusterGo.
Extraction Language OCaml.
Extraction "m_c18cluster.ml"
  gaccept gaccepted_prefix census settledb zombies clean_okb bound_okb started_not_stopped helpers main_alive
  obliged g_s g_run g_cx g_rc g_self s_pc s_live s_stopping
  Z.of_N. (* Z.of_N only so that ocaml/util.ml (shared) finds the type z *)
