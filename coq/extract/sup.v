Require Extraction.
Require ExtrOcamlBasic.
From GS Require Import LTS Supervisor SupAccept.
Extraction Language OCaml.
From Coq Require Import ZArith.
Extraction "m_sup.ml" Z.add sup_accept sup_depth sup_frontier init step step0 taus taus_nt autos quiescent census snapshot_of.
