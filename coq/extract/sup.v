Require Extraction.
Require ExtrOcamlBasic.
From GS Require Import LTS Supervisor SupAccept SupProps.
Extraction Language OCaml.
From Coq Require Import ZArith.
Extraction "m_sup.ml" Z.add sup_accept sup_depth sup_frontier init step step0 taus taus_nt autos quiescent census snapshot_of snap_diagnosis snap_census_max
  c01_holdsb c01_order c01_exactly_once c01_not_before c03_holdsb c03_gate c03_once c03_pending c01_cancel_after c04_holdsb c04_needs_cause c04_nil c04_reports c05_holdsb c05_shape c05_no_dup c05_lower
  c06_holdsb c06_final c06_sub_entry c18_holdsb c18_bounded.
