(* Extraction of the C08 models for the correspondence driver (ocaml/fsm.ml).
   Only ExtrOcamlBasic is used: nat, positive, N stay Coq datatypes. *)
Require Extraction.
Require ExtrOcamlBasic.
From Coq Require Import ZArith.
From GS Require Import Fsm FsmTable FsmRunners.
Extraction Language OCaml.
Extraction "m_fsm.ml"
  fsm_cfg st_code op_result walk_okb is_running result_okb classify_stream classify_slow expected_stream
  composite_accept http_accept cluster_accept verdict first_undocumented first_bad_step fix_sub
  Z.of_N. (* Z.of_N only so that the shared ocaml/util.ml (which mentions type z) links *)
