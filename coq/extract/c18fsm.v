(* Extraction of the finitestate census model and its acceptor for the C18 finitestate-leg driver.
   Only ExtrOcamlBasic is used: nat, positive, N stay Coq datatypes. *)
Require Extraction.
Require ExtrOcamlBasic.
From Coq Require Import ZArith.
From GS Require Import Fsm FsmTable FsmGo.
Extraction Language OCaml.
Extraction "m_c18fsm.ml"
  gaccept gaccepted_prefix g_quiet g_c18_ok forwarders cleaners senders open_subs census gm fix_fwd
  Z.of_N. (* Z.of_N only so that ocaml/util.ml (shared) finds the type z *)
