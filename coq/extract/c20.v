(* Extraction of the executable models for the correspondence drivers.
   Only ExtrOcamlBasic is used: nat, positive, N, Z stay Coq datatypes. *)
Require Extraction.
Require ExtrOcamlBasic.
From GS Require Import Port.
Extraction Language OCaml.
Extraction "m_c20.ml"
  validate_port vres_class vres_str roundtrip_okb split_host_port norm_colon atoi
  str_eqb class_pinned.
