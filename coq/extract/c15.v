(* Extraction of the C15 chain/writer model for the correspondence driver.
   Only ExtrOcamlBasic is used: nat, positive, N, Z stay Coq datatypes. *)
Require Extraction.
Require ExtrOcamlBasic.
From GS Require Import Chain.
Extraction Language OCaml.
Extraction "m_c15.ml"
  exec ref exec_fuel forget final_aborted
  g_status g_written g_size result_hdr
  enters nextrets is_stop
  spec_written spec_status spec_size.
