(* Extraction of the lifecycle model for the C07 lock-step driver (ExtrOcamlBasic only). *)
Require Extraction.
Require ExtrOcamlBasic.
From Coq Require Import NArith ZArith.
From GS Require Import Lifecycle.
Extraction Language OCaml.
Extraction "m_c07.ml"
  init step run caller_obs cyc_obs obs_callers obs_cycles obs_stop_closed is_tau
  f14_schedule helpful enabledb cyc_at callers cycles c_span c_pc c_tgt cy_pc gen
  N.of_nat Z.of_N. (* the last two only so that ocaml/util.ml finds positive, n, z *)
