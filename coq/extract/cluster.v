(* Extraction of the cluster planner model and the protocol acceptor for the C16 drivers.
   Only ExtrOcamlBasic is used: nat, positive, N stay Coq datatypes. *)
Require Extraction.
Require ExtrOcamlBasic.
From Coq Require Import ZArith.
From GS Require Import Cluster ClusterLTS ClusterGo ClusterMon.
Extraction Language OCaml.
Extraction "m_cluster.ml"
  repaired new_entries build_pending build_pending_set in_result_set emap_eqb dedup_maps plan_okb
  hygienicb collision ids_of keys pending_actions commit set_runtime clear_runtime remove_entry count
  id_eqb gaccept gaccepted_prefix c16_monitor live_okb g_s g_run g_cx g_self s_pc s_entries s_live s_stopping
  Z.of_N. (* Z.of_N only so that ocaml/util.ml (shared) finds the type z *)
