(* Extraction of the C15 writer-leg model (wrapper over an arbitrary underlying writer).
   Only ExtrOcamlBasic is used: nat, positive, N, Z stay Coq datatypes. *)
Require Extraction.
Require ExtrOcamlBasic.
From Coq Require Import ZArith NArith.
From GS Require Import RWriter.
Extraction Language OCaml.
Extraction "m_c15w.ml" observe init step run g_status g_written g_size body_bytes first_status count_wh sent
  Z.add N.add Nat.add.
