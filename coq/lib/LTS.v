(* Labelled transition systems with the schedule as an explicit argument, the
   invariant-lifting lemma, and the observable-trace acceptor used by the
   correspondence checks (DESIGN.md sections 2 and 3.2).

   Everything is parameterised inside a Section (no axioms): a model instantiates
   [step], [obs], [taus], [vis] and [key]. *)
From Coq Require Import List NArith Bool.
Import ListNotations.

Section LTS.
  Variables state label event : Type.
  Variable step : state -> label -> option state.
  (* the observable event a label produces (None = internal) *)
  Variable obs : label -> option event.

  Fixpoint run (s : state) (ls : list label) : option state :=
    match ls with
    | [] => Some s
    | l :: t => match step s l with Some s' => run s' t | None => None end
    end.

  Definition reachable (s0 s : state) : Prop := exists ls, run s0 ls = Some s.

  Fixpoint obs_trace (ls : list label) : list event :=
    match ls with
    | [] => []
    | l :: t => match obs l with Some e => e :: obs_trace t | None => obs_trace t end
    end.

  Lemma run_app s ls1 ls2 :
    run s (ls1 ++ ls2) = match run s ls1 with Some s' => run s' ls2 | None => None end.
  Proof.
    revert s; induction ls1 as [|l ls1 IH]; intros s; [reflexivity|].
    cbn [app run]. destruct (step s l); [apply IH|reflexivity].
  Qed.

  Lemma obs_trace_app ls1 ls2 : obs_trace (ls1 ++ ls2) = obs_trace ls1 ++ obs_trace ls2.
  Proof.
    induction ls1 as [|l ls1 IH]; [reflexivity|].
    cbn [app obs_trace]. destruct (obs l); [cbn [app]; f_equal|]; exact IH.
  Qed.

  (* an invariant preserved by every step holds after every schedule *)
  Lemma run_inv (Inv : state -> Prop) :
    (forall s l s', Inv s -> step s l = Some s' -> Inv s') ->
    forall ls s s', Inv s -> run s ls = Some s' -> Inv s'.
  Proof.
    intros Hstep ls; induction ls as [|l ls IH]; intros s s' Hs Hr.
    - injection Hr as <-. exact Hs.
    - cbn [run] in Hr. destruct (step s l) as [s1|] eqn:E; [|discriminate].
      eapply IH; [eapply Hstep; eassumption|exact Hr].
  Qed.

  Lemma reachable_inv (Inv : state -> Prop) s0 :
    Inv s0 -> (forall s l s', Inv s -> step s l = Some s' -> Inv s') ->
    forall s, reachable s0 s -> Inv s.
  Proof. intros H0 Hs s [ls Hr]. eapply run_inv; eassumption. Qed.

  (* an invariant relating consecutive states (history-style): preserved relation *)
  Lemma run_rel (R : state -> state -> Prop) :
    (forall s, R s s) -> (forall a b c, R a b -> R b c -> R a c) ->
    (forall s l s', step s l = Some s' -> R s s') ->
    forall ls s s', run s ls = Some s' -> R s s'.
  Proof.
    intros Hr Ht Hs ls; induction ls as [|l ls IH]; intros s s' H.
    - injection H as <-. apply Hr.
    - cbn [run] in H. destruct (step s l) as [s1|] eqn:E; [|discriminate].
      eapply Ht; [eapply Hs; exact E|apply IH; exact H].
  Qed.

  (* ---------------------------------------------------------------- *)
  (* Acceptor                                                          *)

  (* candidate internal labels of a state, candidate labels producing a given event *)
  Variable taus : state -> list label.
  Variable vis : state -> event -> list label.
  Variable event_eqb : event -> event -> bool.
  Hypothesis event_eqb_eq : forall a b, event_eqb a b = true -> a = b.
  (* a key used only for deduplication (soundness does not depend on it) *)
  Variable key : state -> list N.

  (* -- a small unbalanced search tree keyed by list N, for the visited set -- *)
  Fixpoint key_cmp (a b : list N) : comparison :=
    match a, b with
    | [], [] => Eq
    | [], _ :: _ => Lt
    | _ :: _, [] => Gt
    | x :: a', y :: b' => match N.compare x y with Eq => key_cmp a' b' | c => c end
    end.

  Inductive tree := Leaf | Node (l : tree) (k : list N) (r : tree).

  (* insert; returns (new tree, was it new?) *)
  Fixpoint tinsert (k : list N) (t : tree) : tree * bool :=
    match t with
    | Leaf => (Node Leaf k Leaf, true)
    | Node l k' r =>
      match key_cmp k k' with
      | Eq => (t, false)
      | Lt => let (l', b) := tinsert k l in (Node l' k' r, b)
      | Gt => let (r', b) := tinsert k r in (Node l k' r', b)
      end
    end.

  Definition succs_tau (s : state) : list state :=
    flat_map (fun l => match obs l with
                       | None => match step s l with Some s' => [s'] | None => [] end
                       | Some _ => []
                       end) (taus s).

  (* add the states of [cands] not yet seen to the work list *)
  Fixpoint add_new (cands : list state) (seen : tree) (acc : list state) : tree * list state :=
    match cands with
    | [] => (seen, acc)
    | s :: t => let (seen', isnew) := tinsert (key s) seen in
                add_new t seen' (if isnew then s :: acc else acc)
    end.

  (* breadth-first closure under internal labels; [fuel] bounds the number of expansions;
     returns the closed set and whether fuel sufficed *)
  Fixpoint closure (fuel : nat) (work : list state) (seen : tree) (acc : list state)
    : list state * bool :=
    match work with
    | [] => (acc, true)
    | s :: rest =>
      match fuel with
      | O => (acc, false)
      | S f =>
        let (seen', fresh) := add_new (succs_tau s) seen [] in
        closure f (rest ++ fresh) seen' (s :: acc)
      end
    end.

  Definition close (fuel : nat) (S0 : list state) : list state * bool :=
    let (seen, init) := add_new S0 Leaf [] in
    closure fuel init seen [].

  Definition succs_vis (e : event) (s : state) : list state :=
    flat_map (fun l => match obs l with
                       | Some e' => if event_eqb e' e
                                    then match step s l with Some s' => [s'] | None => [] end
                                    else []
                       | None => []
                       end) (vis s e).

  (* the states compatible with a trace; the boolean is false if some closure ran out of fuel *)
  Fixpoint accept_from (fuel : nat) (S0 : list state) (t : list event) : list state * bool :=
    let (C, ok) := close fuel S0 in
    match t with
    | [] => (C, ok)
    | e :: t' =>
      let (R, ok') := accept_from fuel (flat_map (succs_vis e) C) t' in
      (R, ok && ok')
    end.

  (* how far a trace is accepted: number of events consumed before the set became empty *)
  Fixpoint accept_depth (fuel : nat) (S0 : list state) (t : list event) : nat :=
    let (C, _) := close fuel S0 in
    match C with
    | [] => O
    | _ =>
      match t with
      | [] => O
      | e :: t' =>
        match flat_map (succs_vis e) C with
        | [] => O
        | S1 => S (accept_depth fuel S1 t')
        end
      end
    end.

  (* ---- soundness: every state in the answer is reached by a schedule with that trace ---- *)

  Definition reach_tr (s0 : state) (t : list event) (s : state) : Prop :=
    exists ls, run s0 ls = Some s /\ obs_trace ls = t.

  Definition all_reach (s0 : state) (t : list event) (S : list state) : Prop :=
    forall s, In s S -> reach_tr s0 t s.

  Lemma reach_tr_tau s0 t s l s' :
    reach_tr s0 t s -> obs l = None -> step s l = Some s' -> reach_tr s0 t s'.
  Proof.
    intros (ls & Hr & Ho) Hl Hs. exists (ls ++ [l]). split.
    - rewrite run_app, Hr. cbn [run]. now rewrite Hs.
    - rewrite obs_trace_app, Ho. cbn [obs_trace]. rewrite Hl. apply app_nil_r.
  Qed.

  Lemma reach_tr_vis s0 t s l e s' :
    reach_tr s0 t s -> obs l = Some e -> step s l = Some s' -> reach_tr s0 (t ++ [e]) s'.
  Proof.
    intros (ls & Hr & Ho) Hl Hs. exists (ls ++ [l]). split.
    - rewrite run_app, Hr. cbn [run]. now rewrite Hs.
    - rewrite obs_trace_app, Ho. cbn [obs_trace]. now rewrite Hl.
  Qed.

  Lemma succs_tau_sound s0 t s : reach_tr s0 t s -> all_reach s0 t (succs_tau s).
  Proof.
    intros Hs s' Hin. unfold succs_tau in Hin. apply in_flat_map in Hin as (l & _ & Hin).
    destruct (obs l) eqn:Ho; [contradiction|].
    destruct (step s l) as [s1|] eqn:Es; [|contradiction].
    destruct Hin as [<-|[]]. eapply reach_tr_tau; eassumption.
  Qed.

  Lemma add_new_sound s0 t cands seen acc :
    all_reach s0 t cands -> all_reach s0 t acc ->
    all_reach s0 t (snd (add_new cands seen acc)).
  Proof.
    revert seen acc; induction cands as [|c cands IH]; intros seen acc Hc Ha; [exact Ha|].
    cbn [add_new]. destruct (tinsert (key c) seen) as [seen' isnew].
    apply IH.
    - intros s Hin. apply Hc. now right.
    - destruct isnew; [|exact Ha]. intros s [<-|Hin]; [apply Hc; now left|now apply Ha].
  Qed.

  Lemma closure_sound s0 t fuel : forall work seen acc,
    all_reach s0 t work -> all_reach s0 t acc ->
    all_reach s0 t (fst (closure fuel work seen acc)).
  Proof.
    induction fuel as [|f IH]; intros work seen acc Hw Ha.
    - destruct work; exact Ha.
    - destruct work as [|s rest]; [exact Ha|]. cbn [closure].
      pose proof (add_new_sound s0 t (succs_tau s) seen []
                    (succs_tau_sound s0 t s (Hw s (or_introl eq_refl)))
                    (fun _ (H : In _ []) => match H with end)) as Hf.
      destruct (add_new (succs_tau s) seen []) as [seen' fresh]. cbn [snd] in Hf.
      apply IH.
      + intros x Hx. apply in_app_or in Hx as [Hx|Hx]; [apply Hw; now right|now apply Hf].
      + intros x [<-|Hx]; [apply Hw; now left|now apply Ha].
  Qed.

  Lemma close_sound s0 t fuel S0 : all_reach s0 t S0 -> all_reach s0 t (fst (close fuel S0)).
  Proof.
    intros H. unfold close.
    pose proof (add_new_sound s0 t S0 Leaf [] H (fun _ (F : In _ []) => match F with end)) as Hi.
    destruct (add_new S0 Leaf []) as [seen init]. cbn [snd] in Hi.
    apply closure_sound; [exact Hi|intros _ []].
  Qed.

  Lemma succs_vis_sound s0 t e S0 :
    all_reach s0 t S0 -> all_reach s0 (t ++ [e]) (flat_map (succs_vis e) S0).
  Proof.
    intros H s' Hin. apply in_flat_map in Hin as (s & Hs & Hin).
    unfold succs_vis in Hin. apply in_flat_map in Hin as (l & _ & Hin).
    destruct (obs l) as [e'|] eqn:Ho; [|contradiction].
    destruct (event_eqb e' e) eqn:Ee; [|contradiction].
    apply event_eqb_eq in Ee; subst e'.
    destruct (step s l) as [s1|] eqn:Es; [|contradiction].
    destruct Hin as [<-|[]]. eapply reach_tr_vis; [apply H; exact Hs|exact Ho|exact Es].
  Qed.

  Lemma accept_from_sound s0 fuel : forall t pre S0,
    all_reach s0 pre S0 -> all_reach s0 (pre ++ t) (fst (accept_from fuel S0 t)).
  Proof.
    induction t as [|e t IH]; intros pre S0 H.
    - cbn [accept_from]. pose proof (close_sound s0 pre fuel S0 H) as Hc.
      destruct (close fuel S0) as [C ok]. rewrite app_nil_r. exact Hc.
    - cbn [accept_from]. pose proof (close_sound s0 pre fuel S0 H) as Hc.
      destruct (close fuel S0) as [C ok]. cbn [fst] in Hc.
      pose proof (IH (pre ++ [e]) (flat_map (succs_vis e) C) (succs_vis_sound s0 pre e C Hc)) as Hn.
      destruct (accept_from fuel (flat_map (succs_vis e) C) t) as [R ok']. cbn [fst] in *.
      now rewrite <- app_assoc in Hn.
  Qed.

  (* the acceptor's answer: every state it returns is reached by some schedule whose
     observable trace is exactly the given one *)
  Theorem accepts_sound s0 fuel t s :
    In s (fst (accept_from fuel [s0] t)) ->
    exists ls, run s0 ls = Some s /\ obs_trace ls = t.
  Proof.
    intros Hin.
    apply (accept_from_sound s0 fuel t [] [s0]); [|exact Hin].
    intros x [<-|[]]. exists []. now split.
  Qed.

  (* hence any property of all schedules' traces holds of every accepted trace *)
  Corollary accepted_trace_property s0 fuel t (P : list event -> Prop) :
    (forall ls s, run s0 ls = Some s -> P (obs_trace ls)) ->
    fst (accept_from fuel [s0] t) <> [] -> P t.
  Proof.
    intros HP Hne. destruct (fst (accept_from fuel [s0] t)) as [|s R] eqn:E; [congruence|].
    destruct (accepts_sound s0 fuel t s) as (ls & Hr & <-); [rewrite E; now left|].
    eapply HP; exact Hr.
  Qed.
End LTS.

Arguments run {state label} step s ls.
Arguments reachable {state label} step s0 s.
Arguments obs_trace {label event} obs ls.
