(* Error values as trees, mirroring what Go's errors package can observe:
     Leaf id     a sentinel created with errors.New (identity = id)
     Canceled    context.Canceled
     Deadline    context.DeadlineExceeded
     Wrap e      fmt.Errorf("...: %w", e) or a custom type with Unwrap() error
     Join es     errors.Join(es...) / fmt.Errorf with several %w / Unwrap() []error
   errors.Is(e, target) for a sentinel target walks the whole tree, hence [wraps].
   Stdlib only (extracts with ExtrOcamlBasic). *)
From Coq Require Import List NArith Bool.
Import ListNotations.

Inductive err : Type :=
| Leaf (id : N)
| Canceled
| Deadline
| Wrap (e : err)
| Join (es : list err).

(* errors.Is(e, context.Canceled) || errors.Is(e, context.DeadlineExceeded) *)
Fixpoint is_cancel (e : err) : bool :=
  match e with
  | Leaf _ => false
  | Canceled => true
  | Deadline => true
  | Wrap x => is_cancel x
  | Join es => (fix any (l : list err) : bool :=
                  match l with [] => false | x :: t => is_cancel x || any t end) es
  end.

(* errors.Is(e, sentinel id) *)
Fixpoint wraps (e : err) (id : N) : bool :=
  match e with
  | Leaf x => N.eqb x id
  | Canceled => false
  | Deadline => false
  | Wrap x => wraps x id
  | Join es => (fix any (l : list err) : bool :=
                  match l with [] => false | x :: t => wraps x id || any t end) es
  end.

(* all sentinel ids in the tree, left to right *)
Fixpoint leaves (e : err) : list N :=
  match e with
  | Leaf x => [x]
  | Canceled => []
  | Deadline => []
  | Wrap x => leaves x
  | Join es => (fix all (l : list err) : list N :=
                  match l with [] => [] | x :: t => leaves x ++ all t end) es
  end.

Fixpoint err_eqb (a b : err) : bool :=
  match a, b with
  | Leaf x, Leaf y => N.eqb x y
  | Canceled, Canceled => true
  | Deadline, Deadline => true
  | Wrap x, Wrap y => err_eqb x y
  | Join xs, Join ys =>
    (fix go (l : list err) (m : list err) : bool :=
       match l, m with
       | [], [] => true
       | x :: l', y :: m' => err_eqb x y && go l' m'
       | _, _ => false
       end) xs ys
  | _, _ => false
  end.

(* an error value as a Go function returns it: nil or a tree *)
Definition oerr := option err.

Definition oerr_eqb (a b : oerr) : bool :=
  match a, b with
  | None, None => true
  | Some x, Some y => err_eqb x y
  | _, _ => false
  end.

(* "nil or a cancellation error": what startRunnable filters out *)
Definition benign (e : oerr) : bool :=
  match e with None => true | Some x => is_cancel x end.

(* the sentinel ids reserved by the models *)
Definition id_runnable_failed : N := 0%N.   (* composite.ErrRunnableFailed *)
Definition id_internal : N := 1%N.          (* any library-internal error the harness has no sentinel for *)

(* generic boolean list equality, used by the event comparisons of the models *)
Fixpoint list_eqb {A} (eqb : A -> A -> bool) (l m : list A) : bool :=
  match l, m with
  | [], [] => true
  | x :: l', y :: m' => eqb x y && list_eqb eqb l' m'
  | _, _ => false
  end.

Fixpoint mem_N (x : N) (l : list N) : bool :=
  match l with [] => false | y :: t => N.eqb x y || mem_N x t end.
