(* C19 - the hand-written justification of every panic-capable expression of runnables/httpserver and its
   middleware packages, reviewed against the source in /repo.  A site of coq/gen/HttpPanicSites.v that no rule
   covers makes [sites_ok] compute to false: a new index / slice / assertion / dereference has to be classified
   by a human (and until then the dynamic leg of ./check C19 searches for an input that makes it panic).

   Reading guide: R pkg func kind expr need why note.  pkg / func "" = any.  [need] = lexical conditions the
   site must carry (the translator records them; removing the guard from the source removes the condition from
   the site and the rule stops matching).  See model/HttpPanic.v for the meaning and the strength of each [why]. *)
From Coq Require Import String List.
From GS Require Import HttpPanic.
Import ListNotations.
Open Scope string_scope.
Open Scope list_scope.

Definition R := mkPRule.
Definition H := "httpserver".

(* ---- the sites that are not plain dereferences ---- *)
Definition pol_core : list prule := [
  (* getMux: mux.Handle(route.Path, &route) panics on an invalid or conflicting pattern.  THE site of C19: every
     path to it (boot from Run and from Reload) goes through NewConfig, which registers the same ordered pattern
     list on a scratch mux first.  Proved: C19_http_repaired, C19_constructor_validates. *)
  R H "Config.getMux" PCallApi "(*net/http.ServeMux).Handle" [] WValidated "patterns validated by NewConfig (boot rebuilds the config through it)";
  (* the trial registration itself: under recover, index from the range loop *)
  R H "validateRoutePatterns" PCallApi "(*net/http.ServeMux).Handle" ["deferred recover()"] WRecovered "the panic is turned into the constructor's error";
  R H "validateRoutePatterns" PIndex "routes[i]" ["i in range routes"] WGuard "index produced by ranging over the same slice";
  (* Next(): for rp.index < len(rp.handlers) { rp.handlers[rp.index](rp) } - upper bound lexical; lower bound: index
     starts at -1, is incremented before the loop and only ever incremented or set to len by Abort (model/Chain.v) *)
  R H "RequestProcessor.Next" PIndex "rp.handlers[rp.index]" ["rp.index < len(rp.handlers)"] WGuard "loop condition; index >= 0 by Chain.v's reading of Next/Abort";
  R H "RequestProcessor.Next" PCallFuncValue "rp.handlers[rp.index]" [] WOutOfGrammar "a nil HandlerFunc among a route's middlewares (newRoute checks only that the list is not empty)";
  (* functional options: a nil option panics inside the constructor, before anything is accepted *)
  R H "NewConfig" PCallFuncValue "opt" [] WOutOfGrammar "a nil ConfigOption panics in NewConfig itself";
  R H "NewRunner" PCallFuncValue "opt" [] WOutOfGrammar "a nil Option panics in NewRunner itself";
  R "httpserver/middleware/headers" "NewWithOperations" PCallFuncValue "operation" [] WOutOfGrammar "a nil HeaderOperation panics in the middleware constructor";
  R H "Config.createServer" PCallFuncValue "creator" [] WLocal "replaced by DefaultServerCreator when nil, two lines above";
  R H "Runner.getConfig" PCallFuncValue "r.configCallback" [] WCtor "NewRunner refuses a runner without a callback";
  R H "Runner.reloadConfig" PCallFuncValue "r.configCallback" [] WCtor "NewRunner refuses a runner without a callback";
  R H "Runner.Run" PCallFuncValue "done" [] WExternal "returned by lifecycle.StartStop.Started";
  R H "Runner.Run" PCallFuncValue "runCancel" [] WExternal "returned by context.WithCancel";
  R H "Runner.serverReadinessProbe" PCallFuncValue "cancel" [] WExternal "returned by context.WithTimeout";
  R H "Runner.stopServer$1" PCallFuncValue "shutdownCancel" [] WExternal "returned by context.WithTimeout";
  R "httpserver/middleware/recovery" "New$4" PCallFuncValue "logger" [] WLocal "a local closure, assigned a no-op or a logging function above";
  R "httpserver/middleware/state" "New$1" PCallFuncValue "stateProvider" ["stateProvider != nil"] WGuard "nil check";
  (* boot re-arms the shutdown guard: overwriting a sync.Once whose Do is running would make that Do unlock an
     unlocked mutex (a fatal error, not even a panic).  boot and stopServer both run only under r.mutex. *)
  R H "Runner.boot" POnceRearm "r.serverCloseOnce = sync.Once{}" [] WSerialised "boot and stopServer run under r.mutex";
  (* the serve goroutine reports a ListenAndServe failure: blocks while the buffer is full, panics only on a closed channel *)
  R H "Runner.boot$1" PSend "r.serverErrors" [] WNeverClosed "no close() anywhere in these packages";
  (* maps written right after they were made *)
  R H "Routes.Equal" PMapWrite "routeMap[route.Path]" [] WFresh "make(map) in the same function";
  R "httpserver/middleware/headers" "CORS" PMapWrite "corsHeaders[""Access-Control-Allow-Credentials""]" [] WFresh "a map literal of the same function";
  R "httpserver/middleware/headers" "WithSet$1" PMapWrite "ops.setHeaders[key]" [] WLocal "made non-nil by the if-statement before it";
  R "httpserver/middleware/headers" "WithSetRequest$1" PMapWrite "ops.setRequestHeaders[key]" [] WLocal "made non-nil by the if-statement before it";
  (* the wrapper forwards WriteHeader: net/http panics on a status code outside 100..999; the code is the user's
     handler's choice, not configuration (model/RWriter.v covers a panicking underlying WriteHeader, C15) *)
  R H "responseWriter.WriteHeader" PCallApi "(net/http.ResponseWriter).WriteHeader" [] WOutOfGrammar "status code chosen by the handler"
].

(* ---- nil dereferences (selector or method call through a pointer / interface that is not the receiver) ---- *)
Definition D pkg fn e need w note := R pkg fn PDeref e need w note.

Definition pol_deref : list prule := [
  (* the runner's own references: set by NewRunner before the value is returned, never reset *)
  D H "" "r.logger" [] WCtor "slog.Default() in NewRunner; WithLogHandler replaces it only by a non-nil handler's logger";
  D H "" "r.fsm" [] WCtor "NewRunner fails when the FSM cannot be created";
  D H "" "r.lc" [] WCtor "lifecycle.New() in NewRunner";
  D H "" "r" [] WCtor "the freshly allocated Runner of NewRunner, to which it applies the options";
  D H "" "c" [] WCtor "the freshly allocated Config of NewConfig, to which it applies the options";
  D H "WithConfigCopy$1" "dst" [] WCtor "the freshly allocated Config of NewConfig";
  D H "WithConfigCopy$1" "src" ["src != nil"] WGuard "nil check";
  D H "WithLogHandler$1" "handler" ["handler != nil"] WGuard "nil check";
  D H "NewRunner" "fsmLogger" [] WExternal "(*slog.Logger).WithGroup returns non-nil";
  D H "NewRunner" "slog.Default()" [] WExternal "slog.Default returns non-nil";
  D H "Runner.shutdown" "logger" [] WExternal "(*slog.Logger).WithGroup returns non-nil";
  (* optional values, each behind its nil check *)
  D H "Config.Equal" "other" ["other != nil"] WGuard "nil check (early return)";
  D H "Runner.String" "cfg" ["cfg != nil"] WGuard "nil check";
  D H "Runner.boot" "originalCfg" ["originalCfg != nil"] WGuard "nil check (early return ErrRetrieveConfig)";
  D H "Runner.boot" "serverCfg" ["err == nil"] WGuard "NewConfig returns a config or an error";
  D H "Runner.boot" "tcpAddr" ["ok"] WGuard "comma-ok assertion on r.server";
  D H "Runner.boot" "tcpAddr.Addr()" ["tcpAddr.Addr() != nil"] WGuard "nil check";
  D H "Runner.boot$1" "server" ["server != nil"] WGuard "nil check (the goroutine returns: LServeSkip)";
  D H "Runner.reloadConfig" "newConfig" ["newConfig != nil"] WGuard "nil check (ErrConfigCallbackNil)";
  D H "Runner.stopServer$1" "cfg" ["cfg != nil"] WGuard "nil check (default drain timeout otherwise)";
  D H "Runner.stopServer$1" "r.server" ["r.server != nil"] WGuard "nil check (ErrServerNotRunning): LStopSkip";
  D H "Runner.serverReadinessProbe" "conn" ["err == nil"] WGuard "DialContext returns a connection or an error";
  (* standard-library values *)
  D H "Runner.Run" "runCtx" [] WExternal "context.WithCancel";
  D H "Runner.serverReadinessProbe" "dialer" [] WFresh "&net.Dialer{} of the same function";
  D H "Runner.serverReadinessProbe" "probeCtx" [] WExternal "context.WithTimeout";
  D H "Runner.serverReadinessProbe" "ticker" [] WExternal "time.NewTicker";
  D H "Runner.stopServer$1" "shutdownCtx" [] WExternal "context.WithTimeout";
  D H "Config.getMux" "mux" [] WExternal "http.NewServeMux";
  D H "validateRoutePatterns" "mux" [] WExternal "http.NewServeMux";
  D H "DefaultServerCreator" "cfg" [] WCtor "createServer passes its own receiver; a user calling it with nil is outside the grammar";
  (* the embedded writer of the response wrapper *)
  D H "responseWriter.Write" "rw.ResponseWriter" [] WCtor "newResponseWriter wraps the writer net/http handed to ServeHTTP";
  D H "responseWriter.WriteHeader" "rw.ResponseWriter" [] WCtor "newResponseWriter wraps the writer net/http handed to ServeHTTP";
  (* request handling: what a HandlerFunc is given *)
  D "" "" "rp" [] WCtor "allocated by Route.ServeHTTP; a HandlerFunc is only invoked by RequestProcessor.Next with its receiver";
  D "" "" "req" [] WExternal "net/http passes a non-nil *http.Request; Route.ServeHTTP stores it";
  D "" "" "request" [] WExternal "net/http passes a non-nil *http.Request; Route.ServeHTTP stores it";
  D "" "" "req.URL" [] WExternal "a server request has a non-nil URL";
  D "" "" "writer" [] WCtor "newResponseWriter in Route.ServeHTTP (a middleware's SetWriter(nil) is outside the grammar)";
  D "" "" "rp.Writer()" [] WCtor "newResponseWriter in Route.ServeHTTP (a middleware's SetWriter(nil) is outside the grammar)";
  D "httpserver/middleware/headers" "" "ops" [] WCtor "&headerOperations{} of NewWithOperations, to which it applies the operations";
  D "httpserver/middleware/logger" "New" "slog.Default()" [] WExternal "slog.Default returns non-nil";
  D "httpserver/middleware/logger" "New" "slog.New(handler)" [] WExternal "slog.New returns non-nil";
  D "httpserver/middleware/logger" "New$1" "logger" [] WExternal "(*slog.Logger).WithGroup returns non-nil";
  D "httpserver/middleware/recovery" "New$2" "slogger" [] WExternal "slog.New returns non-nil"
].

Definition http_panic_policy : list prule := pol_core ++ pol_deref.
