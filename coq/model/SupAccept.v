(* The generic trace acceptor (lib/LTS.v) instantiated with the supervisor model. *)
From Coq Require Import List NArith Bool.
From GS Require Import LTS Supervisor.
Import ListNotations.

Definition sup_accept (c : config) (fuel : nat) (t : list event) : list state * bool :=
  accept_from state label event (step c) obs (taus c) (vis c) event_eqb key fuel [init c] t.

(* number of events consumed before the set of compatible model states became empty *)
Definition sup_depth (c : config) (fuel : nat) (t : list event) : nat :=
  accept_depth state label event (step c) obs (taus c) (vis c) event_eqb key fuel [init c] t.

(* size of the compatible set after a trace (diagnostics / coverage) *)
Definition sup_frontier (c : config) (fuel : nat) (t : list event) : nat * bool :=
  let (S, ok) := sup_accept c fuel t in (length S, ok).
