(* The generic trace acceptor (lib/LTS.v) instantiated with the supervisor model. *)
From Coq Require Import List NArith Bool.
From GS Require Import LTS Supervisor.
Import ListNotations.

Definition sup_accept (c : config) (fuel : nat) (t : list event) : list state * bool :=
  accept_from state label event (step c) obs (taus c) (vis c) event_eqb key fuel [init c] t.

(* number of events consumed before the set of compatible model states became empty *)
Definition sup_depth (c : config) (fuel : nat) (t : list event) : nat :=
  accept_depth state label event (step c) obs (taus c) (vis c) event_eqb key fuel [init c] t.

(* size of the compatible set after a trace (diagnostics / coverage) *)
Definition sup_frontier (c : config) (fuel : nat) (t : list event) : nat * bool :=
  let (S, ok) := sup_accept c fuel t in (length S, ok).

(* which part of a rejected snapshot disagrees with every compatible quiescent model state:
   0 = some state matches fully (not a snapshot problem), 1 = no compatible state is quiescent,
   2 = blocked callers, 3 = state map, 4 = Run-returned flag, 5 = goroutine census only *)
Definition snap_diagnosis (c : config) (S : list state) (o : snapshot) : nat :=
  let qs := filter (quiescent c) S in
  match qs with
  | [] => 1
  | _ =>
    if existsb (fun s => snapshot_eqb (snapshot_of s) o) qs then 0
    else if negb (existsb (fun s => natlist_eqb (sn_blocked (snapshot_of s)) (sn_blocked o)) qs) then 2
    else if negb (existsb (fun s => natlist_eqb (sn_blocked (snapshot_of s)) (sn_blocked o)
                                    && smap_eqb (sn_smap (snapshot_of s)) (sn_smap o)) qs) then 3
    else if negb (existsb (fun s => natlist_eqb (sn_blocked (snapshot_of s)) (sn_blocked o)
                                    && smap_eqb (sn_smap (snapshot_of s)) (sn_smap o)
                                    && Bool.eqb (sn_run_returned (snapshot_of s)) (sn_run_returned o)) qs) then 4
    else 5
  end.

(* for a snapshot rejected on the census alone (diagnosis 5): the largest census among the compatible
   quiescent model states that agree with the snapshot on everything else.  An implementation census
   above it is a goroutine the model (hence the C18_sup theorems) says cannot exist after this history. *)
Definition snap_census_max (c : config) (S : list state) (o : snapshot) : nat :=
  fold_left Nat.max
    (map (fun s => sn_gor (snapshot_of s))
       (filter (fun s => quiescent c s
                         && natlist_eqb (sn_blocked (snapshot_of s)) (sn_blocked o)
                         && smap_eqb (sn_smap (snapshot_of s)) (sn_smap o)
                         && Bool.eqb (sn_run_returned (snapshot_of s)) (sn_run_returned o)) S)) 0.
