(* Executable model of supervisor/lifecycle/startstop.go (StartStop: Started / done / Stop / StopCh).

   Channels are fresh natural-number ids with a closed flag (membership in [closed]); id 0 is
   the nil channel (never closed, a receive on it blocks for ever).  The state holds the five
   fields of the Go struct ([stopCh startedCh doneCh stopped] -- [mu] is implicit: the two
   critical sections of Stop and the one of Started contain no blocking operation and are
   atomic labels), a ghost generation counter [gen] (number of resets performed by Started), an
   unbounded table of Stop callers and the table of Run cycles.

   [step fx] is the transition function.  [fx = true] is the code as it is in /repo (since fix
   b0569e6 the generation is a real field, read in both critical sections of Stop, and Stop
   returns at once when it moved); all C07 theorems are about [step true].  [fx = false] is the
   code before that fix (the generation is then only a ghost), kept for the legacy refutation
   C07_legacy_signalled_progress_refuted.  The two differ in exactly one place: the [LSec2] case
   when [gen s <> c_tgt c].

   Cycles are consecutive (the property's quantifier): [LRunStart] is enabled only when no
   cycle is in progress.  Cycle number r (0-based, chronological) is [cyc_at (cycles s) r]; it is
   the Run of generation r.  NotStarted = no entry yet.  Stdlib only; extracts with
   ExtrOcamlBasic. *)
From Coq Require Import List Arith Bool.
Import ListNotations.

Definition chan := nat.

(* program counter of one Stop() call *)
Inductive spc :=
| Enter                    (* spawned, Stop() not yet entered *)
| AfterSec1 (c : chan)     (* first critical section done; about to wait / waiting on startedCh = c *)
| PastStarted              (* <-startedCh returned; second critical section not yet executed *)
| AfterSec2 (d : chan)     (* second critical section done; about to wait / waiting on doneCh = d *)
| Returned.

(* c_tgt: the generation current at the first critical section (the local variable [gen] of
          Stop; a ghost in the legacy code).  It names the Run this Stop targets.
   c_span: ghost, set only by the legacy step function when the second critical section ran in a
          later generation than the first one (the shape of F14); never set by [step true]. *)
Record caller := mkCaller { c_pc : spc; c_tgt : nat; c_span : bool }.

Inductive rpc := Body | Exiting | Finished.
(* cy_done: the doneCh made by this cycle's Started(); cy_stop: the stopCh its select reads *)
Record cyc := mkCyc { cy_done : chan; cy_stop : chan; cy_pc : rpc }.

Record state := mkState {
  next : chan;                 (* fresh-id supply *)
  closed : list chan;          (* ids of closed channels *)
  stopCh : chan; startedCh : chan; doneCh : chan; stopped : bool;
  gen : nat;
  callers : list caller;
  cycles : list cyc            (* newest first *)
}.

Definition init : state := mkState 3 [] 1 2 0 false 0 [] [].

Inductive label :=
| LSpawn                      (* a new goroutine is about to call Stop() *)
| LSec1 (k : nat)             (* Stop, first critical section *)
| LWaitStarted (k : nat)      (* <-startedCh returns *)
| LSec2 (k : nat)             (* Stop, second critical section *)
| LWaitDone (k : nat)         (* <-doneCh returns; Stop() returns *)
| LRunStart                   (* Run(): the critical section of Started() *)
| LRunSeeStop                 (* Run's select takes the <-StopCh() case *)
| LRunExitOther               (* Run leaves its select for another reason (ctx, error) *)
| LDone.                      (* the deferred done(): close(doneCh); Run returns *)

Definition chan_in (c : chan) (l : list chan) : bool := existsb (Nat.eqb c) l.
Definition is_closed (s : state) (c : chan) : bool := chan_in c (closed s).

Fixpoint upd {A} (l : list A) (k : nat) (x : A) : list A :=
  match l, k with
  | [], _ => []
  | _ :: t, O => x :: t
  | a :: t, S k' => a :: upd t k' x
  end.

(* cycle number r of a newest-first table *)
Fixpoint cyc_at (l : list cyc) (r : nat) : option cyc :=
  match l with
  | [] => None
  | c :: t => if r =? length t then Some c else cyc_at t r
  end.

Definition with_callers (s : state) (cs : list caller) : state :=
  mkState (next s) (closed s) (stopCh s) (startedCh s) (doneCh s) (stopped s) (gen s) cs (cycles s).
Definition with_cycles (s : state) (cy : list cyc) : state :=
  mkState (next s) (closed s) (stopCh s) (startedCh s) (doneCh s) (stopped s) (gen s) (callers s) cy.
Definition with_closed (s : state) (cl : list chan) : state :=
  mkState (next s) cl (stopCh s) (startedCh s) (doneCh s) (stopped s) (gen s) (callers s) (cycles s).
(* if !l.stopped { l.stopped = true; close(l.stopCh) } *)
Definition signal (s : state) : state :=
  if stopped s then s
  else mkState (next s) (stopCh s :: closed s) (stopCh s) (startedCh s) (doneCh s) true (gen s)
               (callers s) (cycles s).

Definition run_idle (cy : list cyc) : bool :=
  match cy with
  | [] => true
  | c :: _ => match cy_pc c with Finished => true | _ => false end
  end.

(* Started(): doneCh := make; lock; if l.doneCh != nil && closed(l.doneCh) { reset };
   l.doneCh = doneCh; close(l.startedCh) unless closed; unlock *)
Definition started (s : state) : state :=
  let d := next s in
  let reset := negb (doneCh s =? 0) && is_closed s (doneCh s) in
  let stop' := if reset then S d else stopCh s in
  let started' := if reset then S (S d) else startedCh s in
  let stopped' := if reset then false else stopped s in
  let gen' := if reset then S (gen s) else gen s in
  let next' := if reset then S (S (S d)) else S d in
  let closed' := if chan_in started' (closed s) then closed s else started' :: closed s in
  mkState next' closed' stop' started' d stopped' gen' (callers s)
          (mkCyc d stop' Body :: cycles s).

Definition step (fx : bool) (s : state) (l : label) : option state :=
  match l with
  | LSpawn => Some (with_callers s (callers s ++ [mkCaller Enter 0 false]))
  | LSec1 k =>
      match nth_error (callers s) k with
      | Some (mkCaller Enter _ _) =>
          let s1 := signal s in
          Some (with_callers s1 (upd (callers s) k (mkCaller (AfterSec1 (startedCh s)) (gen s) false)))
      | _ => None
      end
  | LWaitStarted k =>
      match nth_error (callers s) k with
      | Some (mkCaller (AfterSec1 c) g sp) =>
          if is_closed s c then Some (with_callers s (upd (callers s) k (mkCaller PastStarted g sp)))
          else None
      | _ => None
      end
  | LSec2 k =>
      match nth_error (callers s) k with
      | Some (mkCaller PastStarted g sp) =>
          if gen s =? g then
            Some (with_callers s (upd (callers s) k (mkCaller (AfterSec2 (doneCh s)) g false)))
          else if fx then
            (* the generation moved, the targeted Run has returned: return *)
            Some (with_callers s (upd (callers s) k (mkCaller Returned g false)))
          else
            (* legacy code: picks up the doneCh of a later cycle *)
            Some (with_callers s (upd (callers s) k (mkCaller (AfterSec2 (doneCh s)) g true)))
      | _ => None
      end
  | LWaitDone k =>
      match nth_error (callers s) k with
      | Some (mkCaller (AfterSec2 d) g sp) =>
          if is_closed s d then Some (with_callers s (upd (callers s) k (mkCaller Returned g sp)))
          else None
      | _ => None
      end
  | LRunStart => if run_idle (cycles s) then Some (started s) else None
  | LRunSeeStop =>
      match cycles s with
      | mkCyc d st Body :: t =>
          if is_closed s st then Some (with_cycles s (mkCyc d st Exiting :: t)) else None
      | _ => None
      end
  | LRunExitOther =>
      match cycles s with
      | mkCyc d st Body :: t => Some (with_cycles s (mkCyc d st Exiting :: t))
      | _ => None
      end
  | LDone =>
      match cycles s with
      | mkCyc d st Exiting :: t =>
          Some (with_cycles (with_closed s (d :: closed s)) (mkCyc d st Finished :: t))
      | _ => None
      end
  end.

Fixpoint run (fx : bool) (s : state) (ls : list label) : option state :=
  match ls with
  | [] => Some s
  | l :: t => match step fx s l with Some s' => run fx s' t | None => None end
  end.

(* ---------- observations compared with the implementation after every label ---------- *)

(* What the director can see of a Stop caller.  A wait on an already closed channel is
   indistinguishable from having passed it (the goroutine runs through), hence the folding. *)
Inductive cobs := ONotEntered | OBlockedStarted | OReadySec2 | OBlockedDone | OReturned.

Definition caller_obs (s : state) (c : caller) : cobs :=
  match c_pc c with
  | Enter => ONotEntered
  | AfterSec1 ch => if is_closed s ch then OReadySec2 else OBlockedStarted
  | PastStarted => OReadySec2
  | AfterSec2 d => if is_closed s d then OReturned else OBlockedDone
  | Returned => OReturned
  end.

Inductive robs := OBody | OExiting | OFinished.
Definition cyc_obs (s : state) (c : cyc) : robs :=
  match cy_pc c with
  | Body => if is_closed s (cy_stop c) then OExiting else OBody
  | Exiting => OExiting
  | Finished => OFinished
  end.

Definition obs_callers (s : state) : list cobs := map (caller_obs s) (callers s).
Definition obs_cycles (s : state) : list robs := map (cyc_obs s) (rev (cycles s)).  (* chronological *)
Definition obs_stop_closed (s : state) : bool := is_closed s (stopCh s).

(* the internal labels whose only effect is to move a program counter past a wait that is
   already satisfied; the lock-step driver applies them eagerly *)
Definition is_tau (l : label) : bool :=
  match l with LWaitStarted _ | LWaitDone _ | LRunSeeStop => true | _ => false end.

(* ---------- the witness of F14 (legacy code; regression case in corpus/C07) ---------- *)
Definition f14_schedule : list label :=
  [LSpawn; LRunStart; LSec1 0; LWaitStarted 0; LRunSeeStop; LDone; LRunStart; LSec2 0].

(* labels that can help a parked caller k: its own, and those of the Run goroutine reacting
   to the stop signal.  (Not: another Stop caller, not Run exiting for an unrelated reason.) *)
Definition helpful (k : nat) : list label :=
  [LSec1 k; LWaitStarted k; LSec2 k; LWaitDone k; LRunStart; LRunSeeStop; LDone].

Definition enabledb (fx : bool) (s : state) (l : label) : bool :=
  match step fx s l with Some _ => true | None => false end.

(* ---------- progress measure of one Stop caller ---------- *)
(* own steps left *)
Definition own_rem (p : spc) : nat :=
  match p with Enter => 4 | AfterSec1 _ => 3 | PastStarted => 2 | AfterSec2 _ => 1 | Returned => 0 end.
(* steps the Run of generation g still has to take (3 = not yet invoked) *)
Definition cyc_rem (s : state) (g : nat) : nat :=
  match cyc_at (cycles s) g with
  | None => 3
  | Some cy => match cy_pc cy with Body => 2 | Exiting => 1 | Finished => 0 end
  end.
Definition measure (s : state) (c : caller) : nat :=
  match c_pc c with
  | Enter => 8
  | Returned => 0
  | p => own_rem p + cyc_rem s (c_tgt c)
  end.

(* the labels of caller k itself *)
Definition own_labels (k : nat) : list label := [LSec1 k; LWaitStarted k; LSec2 k; LWaitDone k].
