(* Model of internal/networking/port.go: ValidatePort, together with hand
   transcriptions of net.SplitHostPort, net.JoinHostPort and strconv.Atoi
   (Go 1.26).  Strings are lists of bytes (N < 256).  No proofs here. *)
From Coq Require Export List NArith ZArith Bool.
Export ListNotations.
Open Scope N_scope.

Definition byte := N.
Definition str := list byte.

Definition c_colon : byte := 58.
Definition c_lbr   : byte := 91.
Definition c_rbr   : byte := 93.
Definition c_minus : byte := 45.
Definition c_plus  : byte := 43.
Definition c_zero  : byte := 48.

(* bytealg.IndexByteString *)
Fixpoint index (c : byte) (s : str) : option nat :=
  match s with
  | [] => None
  | x :: t => if N.eqb x c then Some O
              else match index c t with Some i => Some (S i) | None => None end
  end.

(* bytealg.LastIndexByteString *)
Fixpoint last_index (c : byte) (s : str) : option nat :=
  match s with
  | [] => None
  | x :: t => match last_index c t with
              | Some i => Some (S i)
              | None => if N.eqb x c then Some O else None
              end
  end.

Definition has (c : byte) (s : str) : bool :=
  match index c s with Some _ => true | None => false end.

(* strings.HasPrefix *)
Fixpoint has_prefix (p s : str) : bool :=
  match p, s with
  | [], _ => true
  | a :: p', b :: s' => N.eqb a b && has_prefix p' s'
  | _ :: _, [] => false
  end.

(* strings.Contains for a non-empty needle *)
Fixpoint contains (p s : str) : bool :=
  match s with
  | [] => match p with [] => true | _ => false end
  | _ :: t => has_prefix p s || contains p t
  end.

(* net.SplitHostPort; None = any *AddrError.  i = index of the last colon. *)
Definition split_br (hp : str) (i : nat) : option (str * str) :=
  match index c_rbr hp with
  | None => None                                   (* missing ']' *)
  | Some e =>
    if Nat.eqb (S e) (length hp) then None         (* missing port *)
    else if Nat.eqb (S e) i then
      let host := firstn (e - 1) (skipn 1 hp) in   (* hostport[1:end] *)
      if has c_lbr (skipn 1 hp) then None          (* unexpected '[' *)
      else if has c_rbr (skipn (S e) hp) then None (* unexpected ']' *)
      else Some (host, skipn (S i) hp)
    else None                                      (* too many colons / missing port *)
  end.

Definition split_plain (hp : str) (i : nat) : option (str * str) :=
  let host := firstn i hp in
  if has c_colon host then None                    (* too many colons *)
  else if has c_lbr hp then None
  else if has c_rbr hp then None
  else Some (host, skipn (S i) hp).

Definition split_host_port (hp : str) : option (str * str) :=
  match last_index c_colon hp with
  | None => None                                   (* missing port *)
  | Some i =>
    match hp with
    | [] => None
    | h0 :: _ => if N.eqb h0 c_lbr then split_br hp i else split_plain hp i
    end
  end.

(* net.JoinHostPort *)
Definition join_host_port (h p : str) : str :=
  if has c_colon h then c_lbr :: h ++ c_rbr :: c_colon :: p
  else h ++ c_colon :: p.

Definition is_digit (c : byte) : bool := (48 <=? c) && (c <=? 57).

(* value of a digit string, None if a non-digit occurs *)
Fixpoint digits_val (acc : Z) (s : str) : option Z :=
  match s with
  | [] => Some acc
  | c :: t => if is_digit c then digits_val (acc * 10 + Z.of_N (c - 48))%Z t else None
  end.

Definition max_int64 : Z := 9223372036854775807%Z.

(* strconv.Atoi on a 64-bit platform; None = any *NumError *)
Definition atoi (s : str) : option Z :=
  match s with
  | [] => None
  | c :: t =>
    let neg := N.eqb c c_minus in
    let body := if neg || N.eqb c c_plus then t else s in
    match body with
    | [] => None
    | _ => match digits_val 0%Z body with
           | None => None
           | Some v =>
             if neg then (if (v <=? max_int64 + 1)%Z then Some (- v)%Z else None)
             else (if (v <=? max_int64)%Z then Some v else None)
           end
    end
  end.

Inductive vres := VOk (r : str) | VEmpty | VInvalid | VRange.

(* the colon-prefix normalisation step *)
Definition norm_colon (s : str) : str :=
  if has c_colon s then s else c_colon :: s.

(* networking.ValidatePort *)
Definition validate_port (s : str) : vres :=
  match s with
  | [] => VEmpty
  | _ =>
    if contains [c_colon; c_minus] s
       || (has_prefix [c_minus] s && negb (has c_colon s))
    then VInvalid
    else
      match split_host_port (norm_colon s) with
      | None => VInvalid
      | Some (host, port) =>
        match atoi port with
        | None => VInvalid
        | Some n =>
          if ((n <? 1) || (65535 <? n))%Z then VRange
          else match host with
               | [] => VOk (c_colon :: port)
               | _ => VOk (join_host_port host port)
               end
        end
      end
  end.

(* ---- executable comparison helpers used by the correspondence driver ---- *)

Definition str_eqb (a b : str) : bool :=
  (fix go (a b : str) : bool :=
     match a, b with
     | [], [] => true
     | x :: a', y :: b' => N.eqb x y && go a' b'
     | _, _ => false
     end) a b.

(* result classes as small numbers: 0 ok, 1 empty, 2 invalid, 3 range *)
Definition vres_class (r : vres) : N :=
  match r with VOk _ => 0 | VEmpty => 1 | VInvalid => 2 | VRange => 3 end.

Definition vres_str (r : vres) : str :=
  match r with VOk s => s | _ => [] end.

(* the round-trip predicate of C20 evaluated on an implementation result r for input s *)
Definition roundtrip_okb (s r : str) : bool :=
  match split_host_port (norm_colon s), split_host_port r with
  | Some (h, p), Some (h', p') =>
      str_eqb h h' && str_eqb p p' &&
      match validate_port r with VOk r' => str_eqb r r' | _ => false end
  | _, _ => false
  end.

(* Inputs on which the property text fixes the result class.  Not fixed: ports written with a
   leading '+' (strconv.Atoi accepts them; "plain decimal" does not mention them) and digit
   strings beyond int64 (non-numeric or out of range? the code says InvalidFormat). *)
Definition class_pinned (s : str) : bool :=
  match split_host_port (norm_colon s) with
  | None => true
  | Some (_, p) =>
    match p with
    | c :: _ => if N.eqb c c_plus then false
                else match digits_val 0%Z p with
                     | Some v => (v <=? max_int64)%Z
                     | None => true
                     end
    | [] => true
    end
  end.
