(* C17 - the hand-written lock policy of the tracked structs, reviewed against the struct
   definitions in /repo.  One entry per field; a field that is missing here makes
   table_ok fail ("field unknown to the policy"), so a new field has to be classified by a human.

   Reading guide
     GuardedBy l   every access outside constructors holds lock l (writers exclusively)
     GuardedMono l GuardedBy l, and every write outside constructors assigns the constant true (a latch)
     SyncTyped     sync.Mutex/RWMutex/Once/WaitGroup/Map, atomic.Pointer held BY VALUE: only ever
                   used through its own methods; never re-assigned after construction.
                   LIMIT: this takes the methods to be safe for arbitrary concurrent use.  That is
                   not the whole contract of sync.WaitGroup ("Add from zero must happen before
                   Wait"): the dynamic leg found exactly such a race on PIDZero.wg
                   (race:sync-contract:supervisor.PIDZero.Shutdown$go1, repaired in /repo 00876a0).
                   For struct fields of type sync.WaitGroup that contract is now expressed by the
                   pseudo-field <field>#addwait, which needs a policy of its own
     CtorOnly      assigned only in New*/With* (before the value is shared), then read-only.
                   Channels, contexts, loggers, function values, *lifecycle.StartStop, the fsm
                   are all references that are set once; what they point to is synchronised by
                   itself (chan ops, context, slog, go-fsm's own mutex - the latter is a
                   dependency and outside this model)
     Immutable     written only while the object is fresh (composite literal) or a private copy
     HBVia n ps    conflicting accesses share a lock, or are one of the listed function pairs,
                   ordered by protocol n (justified below, listed in the evidence; TRUSTED) *)
From Coq Require Import String List.
From GS Require Import Race.
Import ListNotations.
Open Scope string_scope.
Open Scope list_scope.

Definition P (st fl : string) (p : fpolicy) : (string * string) * fpolicy := ((st, fl), p).

(* --- supervisor.PIDZero: configuration is frozen by New(); everything mutable is a sync value.
   ctx/cancel are assigned by New and by the WithContext option only. errorChan is re-made at the
   end of New (still before the value is returned). *)
Definition pol_pidzero : policy := [
  P "supervisor.PIDZero" "ctx" CtorOnly;
  P "supervisor.PIDZero" "cancel" CtorOnly;
  P "supervisor.PIDZero" "runnables" CtorOnly;
  P "supervisor.PIDZero" "signalChan" CtorOnly;
  P "supervisor.PIDZero" "errorChan" CtorOnly;
  P "supervisor.PIDZero" "reloadListener" CtorOnly;
  P "supervisor.PIDZero" "subscribeSignals" CtorOnly;
  P "supervisor.PIDZero" "startupTimeout" CtorOnly;
  P "supervisor.PIDZero" "startupInitial" CtorOnly;
  P "supervisor.PIDZero" "shutdownTimeout" CtorOnly;
  P "supervisor.PIDZero" "logger" CtorOnly;
  P "supervisor.PIDZero" "wg" SyncTyped;
  P "supervisor.PIDZero" "signalListenerOnce" SyncTyped;
  P "supervisor.PIDZero" "shutdownOnce" SyncTyped;
  P "supervisor.PIDZero" "stateMap" SyncTyped;
  P "supervisor.PIDZero" "stateSubscribers" SyncTyped;
  P "supervisor.PIDZero" "subscriberMutex" SyncTyped;
  (* the launch gate of /repo 00876a0 *)
  P "supervisor.PIDZero" "launchMu" SyncTyped;
  P "supervisor.PIDZero" "launchClosed" (GuardedMono "supervisor.PIDZero.launchMu");
  P "supervisor.PIDZero" "runEntered" (GuardedMono "supervisor.PIDZero.launchMu");
  P "supervisor.PIDZero" "launched" (GuardedBy "supervisor.PIDZero.launchMu");
  (* HBVia "launch-gate" (pseudo-field wg#addwait: Add/Go = write, Wait = read; the ordering contract
     of sync.WaitGroup "Add from zero must happen before Wait", modelled as the race detector does).
     Machine-checked preconditions: every Add/Go site holds launchMu exclusively (two Go's are then
     ordered by the lock) and carries the path condition "!$.launchClosed" observed under that very
     lock hold; every Wait site carries the history fact "set:$.launchClosed" (the same goroutine, or
     the one that spawned it, executed `launchClosed = true` before), launchClosed is a latch
     (GuardedMono: only ever assigned true, under launchMu).  Trusted conclusion: a Go either
     precedes the closing critical section in the lock order - and then happens-before the Wait -
     or observes the latch and is not executed. *)
  (* The pair is stated WITHOUT function names ("*" on both sides): the justification above uses only the checked
     preconditions (lock + path condition on the Go side, history fact on the Wait side), so moving the Go or the Wait
     into a helper does not invalidate it - provided the history fact still reaches the Wait site, lexically or as a
     certified entry fact of the helper (Race.cond_entry_failures). *)
  P "supervisor.PIDZero" "wg#addwait"
    (HBVia "launch-gate"
       [mkHB "*" "*" ["!$.launchClosed"] ["set:$.launchClosed"] [("supervisor.PIDZero.launchMu", Ex)] []])
].

(* --- lifecycle.StartStop: four plain fields, all under mu (Started re-makes the channels
   for a new cycle while holding mu). *)
Definition pol_lifecycle : policy := [
  P "lifecycle.StartStop" "mu" SyncTyped;
  P "lifecycle.StartStop" "stopCh" (GuardedBy "lifecycle.StartStop.mu");
  P "lifecycle.StartStop" "startedCh" (GuardedBy "lifecycle.StartStop.mu");
  P "lifecycle.StartStop" "doneCh" (GuardedBy "lifecycle.StartStop.mu");
  P "lifecycle.StartStop" "stopped" (GuardedBy "lifecycle.StartStop.mu");
  P "lifecycle.StartStop" "gen" (GuardedBy "lifecycle.StartStop.mu")   (* reset counter, /repo b0569e6 *)
].

(* --- finitestate.Machine: two pointers set by newMachine. *)
Definition pol_machine : policy := [
  P "finitestate.Machine" "Machine" CtorOnly;
  P "finitestate.Machine" "broadcastManager" CtorOnly
].

(* --- composite.Runner.
   ctx is under runnablesMu on both sides since /repo b850328 (it used to be an HBVia entry that
   assumed Run() is never re-entered; the dynamic leg, calling Run() twice, found that race).
   HBVia "composite-initial-boot" (field serverErrors).  boot re-makes the channel only while
   the FSM is in Booting (repo commit 350754d), i.e. only inside Run's first boot: Run's select
   reads it later in the same goroutine, the children (startRunnable) are spawned by that boot
   after the write (go statement), and a Reload cannot be in boot at that time because
   Running->Reloading is impossible from Booting.  Nothing ever leads back to New/Booting.
   The guard itself is checked: the pair is listed only for a boot site that carries the path
   condition "$.fsm.GetState() == finitestate.StatusBooting" (reverting 350754d fails table_ok). *)
Definition pol_composite : policy := [
  P "composite.Runner" "fsm" CtorOnly;
  P "composite.Runner" "lc" CtorOnly;
  P "composite.Runner" "configMu" SyncTyped;
  P "composite.Runner" "currentConfig" SyncTyped;
  P "composite.Runner" "configCallback" CtorOnly;
  P "composite.Runner" "reloadMu" SyncTyped;
  P "composite.Runner" "runnablesMu" SyncTyped;
  P "composite.Runner" "ctx" (GuardedBy "composite.Runner.runnablesMu");   (* since /repo b850328 *)
  P "composite.Runner" "serverErrors"
    (HBVia "composite-initial-boot"
       (* the write in boot is excused only where it is lexically guarded by the Booting test *)
       (* readers: Run (boot's caller, later in the same goroutine) and every context reached ONLY from boot
          ("boot/*": the goroutines boot spawns after the write and the helpers they call, whatever their names) *)
       [mkHB "composite.Runner.boot" "composite.Runner.Run"
             ["$.fsm.GetState() == finitestate.StatusBooting"] [] [] [];
        mkHB "composite.Runner.boot" "composite.Runner.boot/*"
             ["$.fsm.GetState() == finitestate.StatusBooting"] [] [] []]);
  P "composite.Runner" "genCancel" (GuardedBy "composite.Runner.runnablesMu");   (* added by /repo f0fcb2b *)
  P "composite.Runner" "genDone" (GuardedBy "composite.Runner.runnablesMu");     (* added by /repo f0fcb2b *)
  P "composite.Runner" "logger" CtorOnly
].

(* --- httpserver.Runner.  mutex serialises Run's boot, Reload and shutdown; ctx and the re-armed
   serverCloseOnce live under it (boot/stopServer are helpers that are always entered with it
   held - checked from the call sites).  server lives under serverMutex because the serving
   goroutine and the once-body read it without mutex. *)
Definition pol_httpserver : policy := [
  P "httpserver.Runner" "fsm" CtorOnly;
  P "httpserver.Runner" "lc" CtorOnly;
  P "httpserver.Runner" "mutex" SyncTyped;
  P "httpserver.Runner" "name" CtorOnly;
  P "httpserver.Runner" "config" SyncTyped;
  P "httpserver.Runner" "configCallback" CtorOnly;
  P "httpserver.Runner" "server" (GuardedBy "httpserver.Runner.serverMutex");
  P "httpserver.Runner" "serverCloseOnce" (GuardedBy "httpserver.Runner.mutex");
  P "httpserver.Runner" "serverMutex" SyncTyped;
  P "httpserver.Runner" "serverErrors" CtorOnly;
  P "httpserver.Runner" "ctx" (GuardedBy "httpserver.Runner.mutex");
  P "httpserver.Runner" "logger" CtorOnly
].

(* --- httpcluster.Runner: currentEntries under mu; the entries/serverEntry values it points to
   are persistent (copy-on-write) structures. *)
Definition pol_httpcluster : policy := [
  P "httpcluster.Runner" "fsm" CtorOnly;
  P "httpcluster.Runner" "lc" CtorOnly;
  P "httpcluster.Runner" "mu" SyncTyped;
  P "httpcluster.Runner" "runnerFactory" CtorOnly;
  P "httpcluster.Runner" "restartDelay" CtorOnly;
  P "httpcluster.Runner" "deadlineServerStart" CtorOnly;
  P "httpcluster.Runner" "configSiphon" CtorOnly;
  P "httpcluster.Runner" "currentEntries" (GuardedBy "httpcluster.Runner.mu");
  P "httpcluster.Runner" "logger" CtorOnly;
  P "httpcluster.Runner" "stateChanBufferSize" CtorOnly;
  P "httpcluster.entries" "servers" Immutable;
  P "httpcluster.serverEntry" "id" Immutable;
  P "httpcluster.serverEntry" "config" Immutable;
  P "httpcluster.serverEntry" "runner" Immutable;
  P "httpcluster.serverEntry" "ctx" Immutable;
  P "httpcluster.serverEntry" "cancel" Immutable;
  P "httpcluster.serverEntry" "action" Immutable
].

(* --- configuration values handed to the runners (audit M11: a new shared field here needs a policy decision).
   httpserver.Config / httpserver.Route / composite.Config are built by their constructors and functional options and
   are read-only afterwards: a runner stores a *Config in an atomic.Pointer and every goroutine reads through it, so a
   write through a shared reference would be a race.  (httpserver.RequestProcessor is deliberately NOT tracked: it is
   created per request and mutated by the one goroutine serving that request.) *)
Definition pol_configs : policy := [
  P "httpserver.Config" "ListenAddr" CtorOnly;
  P "httpserver.Config" "DrainTimeout" CtorOnly;
  P "httpserver.Config" "Routes" CtorOnly;
  P "httpserver.Config" "ReadTimeout" CtorOnly;
  P "httpserver.Config" "WriteTimeout" CtorOnly;
  P "httpserver.Config" "IdleTimeout" CtorOnly;
  P "httpserver.Config" "ServerCreator" CtorOnly;
  P "httpserver.Config" "context" CtorOnly;
  P "httpserver.Route" "name" CtorOnly;
  P "httpserver.Route" "Path" CtorOnly;
  P "httpserver.Route" "Handlers" CtorOnly;
  P "composite.Config" "Name" CtorOnly;
  P "composite.Config" "Entries" CtorOnly
].

Definition policy_all : policy :=
  pol_pidzero ++ pol_lifecycle ++ pol_machine ++ pol_composite ++ pol_httpserver ++ pol_httpcluster ++ pol_configs.

(* Fields whose policy the CURRENT tree is known to violate (each one a recorded finding in
   /verif/known_findings.txt with key race:<struct>.<field>).  The theorem C17_table_ok is stated
   for the table minus these.  Both races found while this check was built
   (httpcluster.Runner.currentEntries - shutdown wrote it under RLock; composite.Runner.serverErrors
   - boot replaced it during reloads) have been repaired in /repo (e34840d, 350754d), so the
   list is empty; the check reports an entry that is no longer needed. *)
Definition exceptions : list fkey := [].

(* every HBVia entry, for the evidence file *)
Definition hbvia_entries : list string :=
  flat_map (fun e : fkey * fpolicy => match snd e with
                     | HBVia n ps => map (fun p : hbpair =>
                                             fst (fst e) +++ "." +++ snd (fst e) +++ " [" +++ n +++ "] "
                                             +++ hb_f p +++ " {" +++ String.concat " && " (hb_cf p) +++ "} / "
                                             +++ hb_g p +++ " {" +++ String.concat " && " (hb_cg p) +++ "}") ps
                     | _ => []
                     end) policy_all.
