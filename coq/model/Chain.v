(* C15 — executable model of the httpserver middleware chain and response writer.

   Mirrors (read from /repo, modelled as written, not as intended):
     runnables/httpserver/request_processor.go   Next / Abort / IsAborted (shared cursor `index`)
     runnables/httpserver/response_writer.go     responseWriter (status / written / size)
     runnables/httpserver/routes.go              Route.ServeHTTP (index = -1; rp.Next())
     middleware/{recovery,headers,wildcard,state,logger,metrics}
     net/http/httptest.ResponseRecorder          wroteHeader / Code / Body / HeaderMap / snapHeader
     net/http.Error                              Del CL; Set CT; Set XCTO; WriteHeader; one Write

   Two interpreters with differently structured control flow:
     exec : the index machine on explicit fuel (cursor in Z, loop `index++` exactly as Next is written)
     ref  : structural recursion on the chain suffix, no cursor, only a `live` flag
   They share the writer model and the per-action effect `step_simple`.  No proofs in this file. *)
From Coq Require Import List NArith ZArith Bool.
Import ListNotations.

(* ------------------------------------------------------------------------ headers *)
(* keys and values are small identifiers (the harness maps them to real strings):
   keys   0 Content-Type, 1 X-Content-Type-Options, 2 Content-Length, 3 X-Server-State, n>=4 "X-K<n>"
   values 0 "text/plain; charset=utf-8", 1 "nosniff", n>=2 "v<n>" *)
Definition hdrs := list (N * list N).

Definition k_ctype : N := 0.
Definition k_xcto : N := 1.
Definition k_clen : N := 2.
Definition k_state : N := 3.
Definition v_text : N := 0.
Definition v_nosniff : N := 1.

Fixpoint h_has (k : N) (h : hdrs) : bool :=
  match h with
  | [] => false
  | (k', _) :: t => if N.eqb k k' then true else h_has k t
  end.

Fixpoint h_del (k : N) (h : hdrs) : hdrs :=
  match h with
  | [] => []
  | (k', vs) :: t => if N.eqb k k' then h_del k t else (k', vs) :: h_del k t
  end.

Fixpoint h_add (k v : N) (h : hdrs) : hdrs :=
  match h with
  | [] => [(k, [v])]
  | (k', vs) :: t => if N.eqb k k' then (k', vs ++ [v]) :: t else (k', vs) :: h_add k v t
  end.

Definition h_set (k v : N) (h : hdrs) : hdrs := h_del k h ++ [(k, [v])].

(* ------------------------------------------------------------------------ writer *)
(* ghost log of the calls made on the wrapper that returned (a WriteHeader that panicked wrote nothing): the specification of the getters is stated on it *)
Inductive wop := OpWH (c : N) | OpW (len : N).

Record wrap := mkWrap { w_status : N; w_written : bool; w_size : N }.

Record recd := mkRec {
  r_wrote : bool;            (* ResponseRecorder.wroteHeader *)
  r_code : N;                (* ResponseRecorder.Code (NewRecorder sets 200) *)
  r_body : list N;           (* ResponseRecorder.Body: every byte handed to Write, even refused ones *)
  r_hdr : hdrs;              (* HeaderMap (live) *)
  r_snap : option hdrs;      (* snapHeader: clone at the first WriteHeader *)
  r_acc : N                  (* ghost: sum of the n returned by Write = bytes accepted *)
}.

Record wstate := mkW { wr : wrap; rc : recd; ops : list wop }.

Definition w_init : wstate :=
  mkW (mkWrap 0 false 0) (mkRec false 200 [] [] None 0) [].

Definition code_valid (c : N) : bool := (N.leb 100 c && N.leb c 999)%bool.

(* httptest.bodyAllowedForStatus *)
Definition body_allowed (c : N) : bool :=
  negb ((N.leb 100 c && N.leb c 199) || N.eqb c 204 || N.eqb c 304)%bool.

Definition lenN (b : list N) : N := N.of_nat (length b).

(* ResponseRecorder.WriteHeader: ignored once wroteHeader; checkWriteHeaderCode panics otherwise *)
Definition rec_write_header (c : N) (r : recd) : recd * bool :=
  if r_wrote r then (r, false)
  else if code_valid c
       then (mkRec true c (r_body r) (r_hdr r) (Some (r_hdr r)) (r_acc r), false)
       else (r, true).

(* ResponseRecorder.Write: writeHeader(b,"") (content-type sniff + WriteHeader(200) unless wroteHeader),
   Body.Write(buf) unconditionally, then (0, ErrBodyNotAllowed) or (len, nil).
   DetectContentType is modelled as the constant text/plain (the harness only writes lower-case ASCII). *)
Definition rec_write (b : list N) (r : recd) : recd * N :=
  let r1 :=
    if r_wrote r then r
    else
      let h := if h_has k_ctype (r_hdr r) then r_hdr r else h_set k_ctype v_text (r_hdr r) in
      fst (rec_write_header 200 (mkRec (r_wrote r) (r_code r) (r_body r) h (r_snap r) (r_acc r))) in
  let r2 := mkRec (r_wrote r1) (r_code r1) (r_body r1 ++ b) (r_hdr r1) (r_snap r1) (r_acc r1) in
  if body_allowed (r_code r2)
  then (mkRec (r_wrote r2) (r_code r2) (r_body r2) (r_hdr r2) (r_snap r2) (r_acc r2 + lenN b), lenN b)
  else (r2, 0%N).

(* responseWriter.WriteHeader without the ghost log (also used by Write for the implicit 200):
   the underlying WriteHeader is called FIRST (it may panic on the code); status/written are
   recorded only after it returned (repo commit d237067) *)
Definition wrap_write_header (c : N) (w : wstate) : wstate * bool :=
  if w_written (wr w) then (w, false)
  else
    let (r', p) := rec_write_header c (rc w) in
    if p then (mkW (wr w) r' (ops w), true)
    else (mkW (mkWrap c true (w_size (wr w))) r' (ops w), false).

(* the ghost log records the calls that returned (a call that panicked wrote nothing) *)
Definition w_write_header (c : N) (w : wstate) : wstate * bool :=
  let (w', p) := wrap_write_header c w in
  if p then (w', true) else (mkW (wr w') (rc w') (ops w' ++ [OpWH c]), false).

Definition w_write (b : list N) (w : wstate) : wstate * bool :=
  let w0 := mkW (wr w) (rc w) (ops w ++ [OpW (lenN b)]) in
  let (w1, p) := if w_written (wr w0) then (w0, false) else wrap_write_header 200 w0 in
  if p then (w1, true)
  else
    let (r', n) := rec_write b (rc w1) in
    (mkW (mkWrap (w_status (wr w1)) (w_written (wr w1)) (w_size (wr w1) + n)) r' (ops w1), false).

Definition w_hdr (f : hdrs -> hdrs) (w : wstate) : wstate :=
  let r := rc w in
  mkW (wr w) (mkRec (r_wrote r) (r_code r) (r_body r) (f (r_hdr r)) (r_snap r) (r_acc r)) (ops w).

(* net/http.Error(w, msg, code); msg already carries the trailing newline of Fprintln *)
Definition w_http_error (code : N) (msg : list N) (w : wstate) : wstate * bool :=
  let w1 := w_hdr (h_set k_xcto v_nosniff) (w_hdr (h_set k_ctype v_text) (w_hdr (h_del k_clen) w)) in
  let (w2, p) := w_write_header code w1 in
  if p then (w2, true) else w_write msg w2.

(* getters *)
Definition g_status (w : wstate) : N :=
  if (N.eqb (w_status (wr w)) 0 && w_written (wr w))%bool then 200%N else w_status (wr w).
Definition g_written (w : wstate) : bool := w_written (wr w).
Definition g_size (w : wstate) : N := w_size (wr w).

(* what Result().Header shows: the snapshot, or the live map if nothing was written *)
Definition result_hdr (w : wstate) : hdrs :=
  match r_snap (rc w) with Some h => h | None => r_hdr (rc w) end.

(* "Internal Server Error\n" and "404 page not found\n" *)
Definition msg500 : list N :=
  [73;110;116;101;114;110;97;108;32;83;101;114;118;101;114;32;69;114;114;111;114;10]%N.
Definition msg404 : list N :=
  [52;48;52;32;112;97;103;101;32;110;111;116;32;102;111;117;110;100;10]%N.

(* ------------------------------------------------------------------------ programs *)
Inductive action :=
| ANext | AAbort | AReturn | APanic
| AWriteHeader (c : N) | AWrite (b : list N)
| ASetH (k v : N) | AAddH (k v : N) | ADelH (k : N)
| AWild (pfx : list N).          (* body of the wildcard middleware; not generated for user handlers *)

Inductive handler :=
| User (acts : list action)
| Recovery                       (* recovery.New: defer{recover -> http.Error 500; Abort}; Next *)
| Headers (kvs : list (N * N))   (* headers.New: Add each; Next *)
| HeaderOps (dels : list N) (sets adds : list (N * N))  (* headers.NewWithOperations *)
| State (v : N)                  (* state.New: Set X-Server-State; Next *)
| Wildcard (pfx : list N)        (* wildcard.New(prefix) *)
| Observer.                      (* logger.New / metrics.New: Next; read getters *)

Definition slash : N := 47.

Fixpoint last_is (x : N) (l : list N) : bool :=
  match l with
  | [] => false
  | [y] => N.eqb x y
  | _ :: t => last_is x t
  end.

(* the normalisation wildcard.New performs on its argument *)
Definition norm_prefix (p : list N) : list N :=
  match p with
  | [] => [slash]
  | c :: _ =>
    let p1 := if N.eqb c slash then p else slash :: p in
    match p1 with
    | [_] => p1                                   (* "/" *)
    | _ => if last_is slash p1 then p1 else p1 ++ [slash]
    end
  end.

Definition body_of (h : handler) : list action :=
  match h with
  | User acts => acts
  | Recovery => [ANext]
  | Headers kvs => map (fun kv => AAddH (fst kv) (snd kv)) kvs ++ [ANext]
  | HeaderOps dels sets adds =>
      map ADelH dels ++ map (fun kv => ASetH (fst kv) (snd kv)) sets
      ++ map (fun kv => AAddH (fst kv) (snd kv)) adds ++ [ANext]
  | State v => [ASetH k_state v; ANext]
  | Wildcard p => [AWild (norm_prefix p); ANext]
  | Observer => [ANext]
  end.

Definition recovers (h : handler) : bool :=
  match h with Recovery => true | _ => false end.

(* ------------------------------------------------------------------------ events, core state *)
Inductive event :=
| EEnter (i : Z) | EExit (i : Z)
| ENextCall (i : Z) | ENextRet (i : Z)
| EAbort (i : Z)
| EUnwind (i : Z)                         (* a panic left handler i *)
| ERecovered (i : Z) (sent_before : bool) (code_before : N)
| EObs (i : Z) (status : N) (written : bool) (size : N) (aborted : bool).

Record core := mkC { c_w : wstate; c_path : list N; c_tr : list event }.

Definition logc (e : event) (c : core) : core := mkC (c_w c) (c_path c) (c_tr c ++ [e]).
Definition set_w (w : wstate) (c : core) : core := mkC w (c_path c) (c_tr c).
Definition obsc (i : Z) (aborted : bool) (c : core) : core :=
  logc (EObs i (g_status (c_w c)) (g_written (c_w c)) (g_size (c_w c)) aborted) c.

Fixpoint strip_prefix (p s : list N) : option (list N) :=
  match p, s with
  | [], _ => Some s
  | x :: p', y :: s' => if N.eqb x y then strip_prefix p' s' else None
  | _ :: _, [] => None
  end.

(* effect of the writer/header actions on the core; bool = the call panicked *)
Definition step_simple (a : action) (c : core) : core * bool :=
  match a with
  | AWriteHeader k => let (w, p) := w_write_header k (c_w c) in (set_w w c, p)
  | AWrite b => let (w, p) := w_write b (c_w c) in (set_w w c, p)
  | ASetH k v => (set_w (w_hdr (h_set k v) (c_w c)) c, false)
  | AAddH k v => (set_w (w_hdr (h_add k v) (c_w c)) c, false)
  | ADelH k => (set_w (w_hdr (h_del k) (c_w c)) c, false)
  | _ => (c, false)
  end.

Definition http_error (code : N) (msg : list N) (c : core) : core * bool :=
  let (w, p) := w_http_error code msg (c_w c) in (set_w w c, p).

Inductive outcome (A : Type) :=
| Done (a : A) | Panicked (a : A) | OutOfFuel | Stuck.
Arguments Done {A} a.
Arguments Panicked {A} a.
Arguments OutOfFuel {A}.
Arguments Stuck {A}.

(* ------------------------------------------------------------------------ exec: the index machine *)
Record mstate := mkM { m_idx : Z; m_core : core }.

Definition mlog (e : event) (s : mstate) : mstate := mkM (m_idx s) (logc e (m_core s)).
Definition mset_idx (i : Z) (s : mstate) : mstate := mkM i (m_core s).
Definition mbump (s : mstate) : mstate := mkM (m_idx s + 1) (m_core s).
(* IsAborted: index >= len(handlers) *)
Definition mobs (n i : Z) (s : mstate) : mstate :=
  mkM (m_idx s) (obsc i (Z.leb n (m_idx s)) (m_core s)).

(* the body of one handler; `call_next` is rp.Next() with the remaining fuel *)
Fixpoint run_acts (call_next : mstate -> outcome mstate) (n i : Z) (acts : list action) (s : mstate)
  : outcome mstate :=
  match acts with
  | [] => Done s
  | a :: rest =>
    match a with
    | ANext =>
      match call_next (mlog (ENextCall i) s) with
      | Done s' => run_acts call_next n i rest (mobs n i (mlog (ENextRet i) s'))
      | o => o
      end
    | AAbort => run_acts call_next n i rest (mobs n i (mlog (EAbort i) (mset_idx n s)))
    | AReturn => Done s
    | APanic => Panicked s
    | AWild pfx =>
      match strip_prefix pfx (c_path (m_core s)) with
      | Some p' => run_acts call_next n i rest
                     (mkM (m_idx s) (mkC (c_w (m_core s)) p' (c_tr (m_core s))))
      | None =>
        let (c', p) := http_error 404 msg404 (m_core s) in
        if p then Panicked (mkM (m_idx s) c')
        else Done (mlog (EAbort i) (mkM n c'))
      end
    | _ =>
      let (c', p) := step_simple a (m_core s) in
      if p then Panicked (mkM (m_idx s) c')
      else run_acts call_next n i rest (mobs n i (mkM (m_idx s) c'))
    end
  end.

Definition run_handler (call_next : mstate -> outcome mstate) (n i : Z) (h : handler) (s : mstate)
  : outcome mstate :=
  match run_acts call_next n i (body_of h) (mlog (EEnter i) s) with
  | Done s' => Done (mlog (EExit i) s')
  | Panicked s' =>
    if recovers h then
      let s1 := mlog (ERecovered i (r_wrote (rc (c_w (m_core s')))) (r_code (rc (c_w (m_core s'))))) s' in
      let (c', p) := http_error 500 msg500 (m_core s1) in
      if p then Panicked (mlog (EUnwind i) (mkM (m_idx s1) c'))
      else Done (mlog (EExit i) (mlog (EAbort i) (mkM n c')))
    else Panicked (mlog (EUnwind i) s')
  | OutOfFuel => OutOfFuel
  | Stuck => Stuck
  end.

(* the loop of Next after its first `rp.index++` *)
Fixpoint next_loop (fuel : nat) (hs : list handler) (n : Z) (s : mstate) : outcome mstate :=
  match fuel with
  | O => OutOfFuel
  | S f =>
    if Z.ltb (m_idx s) n then
      if Z.ltb (m_idx s) 0 then Stuck
      else
        match nth_error hs (Z.to_nat (m_idx s)) with
        | None => Stuck
        | Some h =>
          match run_handler (fun s1 => next_loop f hs n (mbump s1)) n (m_idx s) h s with
          | Done s' => next_loop f hs n (mbump s')
          | o => o
          end
        end
    else Done s
  end.

Definition lenZ (hs : list handler) : Z := Z.of_nat (length hs).
Definition init_core (path : list N) : core := mkC w_init path [].

(* Route.ServeHTTP: index = -1; rp.Next() *)
Definition exec (fuel : nat) (hs : list handler) (path : list N) : outcome mstate :=
  next_loop fuel hs (lenZ hs) (mbump (mkM (-1) (init_core path))).

Definition exec_fuel (hs : list handler) : nat := S (length hs).

(* ------------------------------------------------------------------------ ref: suffix recursion *)
(* `live` = nobody has called Next or Abort since this handler was entered;
   `k` = "run the rest of the chain", only meaningful while live *)
Fixpoint ref_acts (k : core -> outcome core) (i : Z) (acts : list action) (live : bool) (c : core)
  : outcome (bool * core) :=
  match acts with
  | [] => Done (live, c)
  | a :: rest =>
    match a with
    | ANext =>
      let c1 := logc (ENextCall i) c in
      if live then
        match k c1 with
        | Done c2 => ref_acts k i rest false (obsc i true (logc (ENextRet i) c2))
        | Panicked c2 => Panicked (false, c2)
        | OutOfFuel => OutOfFuel
        | Stuck => Stuck
        end
      else ref_acts k i rest false (obsc i true (logc (ENextRet i) c1))
    | AAbort => ref_acts k i rest false (obsc i true (logc (EAbort i) c))
    | AReturn => Done (live, c)
    | APanic => Panicked (live, c)
    | AWild pfx =>
      match strip_prefix pfx (c_path c) with
      | Some p' => ref_acts k i rest live (mkC (c_w c) p' (c_tr c))
      | None =>
        let (c', p) := http_error 404 msg404 c in
        if p then Panicked (live, c') else Done (false, logc (EAbort i) c')
      end
    | _ =>
      let (c', p) := step_simple a c in
      if p then Panicked (live, c')
      else ref_acts k i rest live (obsc i (negb live) c')
    end
  end.

Definition ref_handler (k : core -> outcome core) (i : Z) (h : handler) (c : core)
  : outcome (bool * core) :=
  match ref_acts k i (body_of h) true (logc (EEnter i) c) with
  | Done (l, c') => Done (l, logc (EExit i) c')
  | Panicked (l, c') =>
    if recovers h then
      let c1 := logc (ERecovered i (r_wrote (rc (c_w c'))) (r_code (rc (c_w c')))) c' in
      let (c2, p) := http_error 500 msg500 c1 in
      if p then Panicked (l, logc (EUnwind i) c2)
      else Done (false, logc (EExit i) (logc (EAbort i) c2))
    else Panicked (l, logc (EUnwind i) c')
  | OutOfFuel => OutOfFuel
  | Stuck => Stuck
  end.

Fixpoint ref_seq (i : Z) (hs : list handler) (c : core) : outcome core :=
  match hs with
  | [] => Done c
  | h :: rest =>
    match ref_handler (ref_seq (i + 1) rest) i h c with
    | Done (true, c') => ref_seq (i + 1) rest c'
    | Done (false, c') => Done c'
    | Panicked (_, c') => Panicked c'
    | OutOfFuel => OutOfFuel
    | Stuck => Stuck
    end
  end.

Definition ref (hs : list handler) (path : list N) : outcome core :=
  ref_seq 0 hs (init_core path).

(* projection of an exec result to what ref computes *)
Definition forget (o : outcome mstate) : outcome core :=
  match o with
  | Done s => Done (m_core s)
  | Panicked s => Panicked (m_core s)
  | OutOfFuel => OutOfFuel
  | Stuck => Stuck
  end.

(* final IsAborted as the machine sees it *)
Definition final_aborted (hs : list handler) (o : outcome mstate) : bool :=
  match o with
  | Done s | Panicked s => Z.leb (lenZ hs) (m_idx s)
  | _ => false
  end.

(* ------------------------------------------------------------------------ trace projections *)
Fixpoint enters (t : list event) : list Z :=
  match t with
  | [] => []
  | EEnter i :: t' => i :: enters t'
  | _ :: t' => enters t'
  end.

Fixpoint nextrets (t : list event) : list Z :=
  match t with
  | [] => []
  | ENextRet i :: t' => i :: nextrets t'
  | _ :: t' => nextrets t'
  end.

Definition is_stop (e : event) : bool :=
  match e with ENextRet _ | EAbort _ => true | _ => false end.

(* specification of the getters on the ghost call log *)
Definition spec_written (l : list wop) : bool := match l with [] => false | _ => true end.
Definition spec_status (l : list wop) : N :=
  match l with [] => 0%N | OpWH c :: _ => c | OpW _ :: _ => 200%N end.
Fixpoint spec_bytes (l : list wop) : N :=
  match l with
  | [] => 0%N
  | OpWH _ :: t => spec_bytes t
  | OpW n :: t => (n + spec_bytes t)%N
  end.
Definition spec_size (l : list wop) : N :=
  if body_allowed (spec_status l) then spec_bytes l else 0%N.
