(* C19 - the panic-site inventory of the HTTP server runner: vocabulary and checker.

   Three layers:
   (1) the table of panic-capable expressions that harness/cmd/panicsites regenerates from the Go source of
       runnables/httpserver and its middleware packages on every run (coq/gen/HttpPanicSites.v);
   (2) the hand-written policy (model/HttpPanicPolicy.v): one rule per expression (or class of expressions),
       naming WHY it cannot panic for an accepted configuration - which validated precondition guards it;
   (3) the checker [sites_ok policy table]: every site of the table is covered by a rule whose required lexical
       conditions the site really carries.  props/C19.v re-proves [sites_ok http_panic_policy sites = true] by
       vm_compute against the freshly generated table, so a NEW index / slice expression / unchecked assertion /
       dereference ... in the source breaks a proof obligation.

   THE INVENTORY IS SYNTACTIC.  It lists expression forms (see harness/cmd/panicsites/main.go for the exact
   kinds); it does not see panics inside other packages' functions, nil method receivers, or runtime failures that
   are not tied to one of those forms.  Sites are keyed by package, function and expression TEXT - never by line
   number - so moving code around changes nothing.  The rules' reasons are of three strengths, kept apart below:
   checked here (lexical conditions, absence of close()), proved in the protocol model (WValidated, WSerialised),
   or established by reading the code and ASSUMED (everything else). *)
From Coq Require Import String List Bool.
Import ListNotations.
Open Scope string_scope.
Open Scope list_scope.

Inductive pkind :=
| PIndex | PSlice | PPanic | PMapWrite | PSend | PClose | PAssert | PCallFuncValue | PDeref | PDiv | PCallApi
| POnceRearm | PMake.

Definition pkind_code (k : pkind) : nat :=
  match k with
  | PIndex => 0 | PSlice => 1 | PPanic => 2 | PMapWrite => 3 | PSend => 4 | PClose => 5 | PAssert => 6
  | PCallFuncValue => 7 | PDeref => 8 | PDiv => 9 | PCallApi => 10 | POnceRearm => 11 | PMake => 12
  end.
Definition pkind_eqb (a b : pkind) : bool := Nat.eqb (pkind_code a) (pkind_code b).

Record psite := mkPSite {
  ps_pkg : string;          (* package, relative to runnables/ *)
  ps_func : string;         (* "Recv.Method" / "Func"; closures "Outer$n" in order of appearance *)
  ps_kind : pkind;
  ps_expr : string;         (* the expression text (for PDeref: the dereferenced operand; PCallApi: the callee) *)
  ps_conds : list string;   (* lexical conditions known to hold at the site *)
  ps_dbg : string           (* file:line - never inspected *)
}.

(* why a site cannot panic for a configuration accepted by the public constructors *)
Inductive why :=
| WGuard          (* the lexical conditions named by the rule ([r_need], carried by the site) exclude the panic *)
| WRecovered      (* the site runs under a deferred recover() of the same function ([r_need] names it) *)
| WNeverClosed    (* a channel send: no close() of any channel exists in these packages (checked on the table) *)
| WValidated      (* ServeMux registration of patterns that NewConfig has validated: proved in the protocol model *)
| WSerialised     (* happens only while r.mutex is held by the booting thread: proved in the protocol model *)
| WCtor           (* non-nil / well-formed by construction: set by NewRunner / NewConfig / newRoute / an option
                     constructor, which reject or replace a missing value; established by reading *)
| WFresh          (* a map or object allocated in the same function; by reading *)
| WLocal          (* made safe by the statement just before it (assignment, not a lexical condition); by reading *)
| WExternal       (* the value comes from the standard library, whose contract says non-nil (context.WithCancel,
                     http.NewServeMux, *http.Request and its URL inside a handler ...); modelled, not verified *)
| WOutOfGrammar.  (* panics only for an argument outside the property's input grammar (a nil function value among
                     the options / middlewares, a status code chosen by the user's handler); ASSUMED, named in the claim *)

Record prule := mkPRule {
  r_pkg : string;           (* "" = any package *)
  r_func : string;          (* "" = any function of the package *)
  r_kind : pkind;
  r_expr : string;
  r_need : list string;     (* lexical conditions every matching site must carry *)
  r_why : why;
  r_note : string
}.

Definition str_in (x : string) (l : list string) : bool := existsb (String.eqb x) l.
Definition wild_eqb (pat x : string) : bool := String.eqb pat "" || String.eqb pat x.

Definition rule_matches (r : prule) (s : psite) : bool :=
  wild_eqb (r_pkg r) (ps_pkg s) && wild_eqb (r_func r) (ps_func s) && pkind_eqb (r_kind r) (ps_kind s)
  && String.eqb (r_expr r) (ps_expr s) && forallb (fun c => str_in c (ps_conds s)) (r_need r).

Definition site_ok (policy : list prule) (s : psite) : bool := existsb (fun r => rule_matches r s) policy.

(* rules whose reason is a lexical condition must name one *)
Definition rule_wf (r : prule) : bool :=
  match r_why r with
  | WGuard | WRecovered => match r_need r with [] => false | _ => true end
  | _ => true
  end.

Definition no_close (table : list psite) : bool :=
  forallb (fun s => negb (pkind_eqb (ps_kind s) PClose)) table.

Definition uses_never_closed (policy : list prule) : bool :=
  existsb (fun r => match r_why r with WNeverClosed => true | _ => false end) policy.

Definition sites_ok (policy : list prule) (table : list psite) : bool :=
  forallb rule_wf policy && forallb (site_ok policy) table
  && (negb (uses_never_closed policy) || no_close table).

(* diagnostics for the check: the sites no rule covers *)
Definition unjustified (policy : list prule) (table : list psite) : list psite :=
  filter (fun s => negb (site_ok policy s)) table.
