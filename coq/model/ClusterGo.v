(* Child-server liveness and goroutine census of runnables/httpcluster/runner.go (C16: "the servers
   it runs"; C18, cluster leg), layered on the protocol model ClusterLTS.v without changing it.
   No proofs here.

   ClusterLTS.v knows which instances were created and which had Stop() called / returned.  It does
   not know whether a server RUNS: whether its Run was called, has returned, and whether the
   context the cluster gave it is still live.  This file adds exactly that:

   [g_run]   instances whose createAndStartServer goroutine is alive (added by LFactory; the
             goroutine ends when the server's Run returns: labels GRunRet / GSelfExit);
   [g_cx]    instances whose OWN context the cluster has cancelled.  The code does that in two
             places: the stop helper, `entry.runner.Stop(); entry.cancel()` (fused with LStopRet
             in a PStop state), and the failed-readiness cleanup, `serverCancel(); runner.Stop()`
             (label GFailCancel, before the LStopCall of a PWait state).  The factory-error path
             cancels a context no server ever saw;
   [g_rc]    runCancel() was called: the StopCh branch of the main select (`runCancel(); return
             r.shutdown(runCtx)`, label GShutStop - the other two branches are GB LShut).  Every
             server context is a child of runCtx, itself a child of the context given to Run
             ([s_cancel]).  (`defer runCancel()` at the return of Run cancels nothing that is not
             already cancelled: every instance ever created is in [g_cx] by then.)
   [g_self]  instances whose Run returned BY ITSELF: after having been ready, with no Stop() call and
             a live context (label GSelfExit, an environment action).  runner.go only logs it
             ("Server instance failed"): the entry stays in the collection, GetServerCount() keeps
             counting it, and a later map with the same configuration does not restart it - the
             base model is unchanged by the label, which is exactly that behaviour;
   [g_ack]   the last offered map has been received and its sender has not yet reported it
             (label GSent = the harness' PD token): a trace shows when a map has been taken.

   Contract of a server (supervisor.Runnable + Stateable, as the bundled httpserver.Runner and the
   harness mocks implement it):
   * Run returns only after its Stop() was called or its context was cancelled ([GRunRet]) - or by
     itself ([GSelfExit], only once it has been ready);
   * IsRunning() is true only while Run has been called, has not returned and the context is live:
     LReady (waitForIsRunning returned true) is guarded accordingly;
   * a server that notices its context cancelled before any Stop() call reports it ([GCtxSeen],
     the mock's CX token): possible only if the model says the context IS cancelled.

   An instance of [g_run] is [obliged] to end when its Stop() has returned or its context is
   cancelled in one of the three ways.  A state is [settled] when no server goroutine is obliged or
   has yet to call Run: the states in which the census is compared with the real goroutine dump.

   [GCensus m h r] is the observation "at a quiescent point the goroutine dump showed m goroutines in
   Run, h stop helpers, r server goroutines": enabled only in a settled state with no helper still on
   its way into Stop(), and only with the model's own numbers. *)
From GS Require Export ClusterLTS.
From GS Require Import LTS.

Record gstate := mkG {
  g_s : state;
  g_run : list N;
  g_cx : list N;
  g_rc : bool;
  g_self : list N;
  g_ack : bool
}.

Inductive glabel :=
| GB (l : label)
| GShutStop                  (* tau: the main select takes the StopCh branch: runCancel(), shutdown *)
| GFailCancel (i : N)        (* tau: serverCancel() of a server that did not become ready *)
| GCtxSeen (i : N)           (* server i saw its context cancelled, before any Stop() call *)
| GRunRet (i : N)            (* server i's Run returned (Stop() called or context cancelled) *)
| GSelfExit (i : N)          (* a ready server's Run returned by itself *)
| GSent                      (* the sender of the last map learnt that it was received *)
| GCensus (m h r : N).

Inductive gevent :=
| GE (e : event)
| GECtxSeen (i : N)
| GERunRet (i : N)
| GESelfExit (i : N)
| GESent
| GECensus (m h r : N).

Definition ginit (delay : bool) : gstate := mkG (init delay) [] [] false [] false.

Definition addN (i : N) (l : list N) : list N := if memN i l then l else i :: l.

(* ---- liveness of a server's context ---- *)
Definition cxb (g : gstate) (i : N) : bool :=
  memN i (g_cx g) || s_cancel (g_s g) || g_rc g.

Definition lvb (s : state) (i : N) : bool := memN i (map fst (s_live s)).
Definition spb (s : state) (i : N) : bool := memN i (map fst (s_stopping s)).

(* instance i is the one startServers is waiting for *)
Definition waitingb (s : state) (i : N) : bool :=
  match s_pc s with PWait _ _ _ j _ => N.eqb i j | _ => false end.

(* Run called, not returned by the cluster's doing, context live: the server RUNS (or ran until it
   gave up by itself) *)
Definition aliveb (g : gstate) (i : N) : bool :=
  negb (cxb g i) && negb (memN i (s_unrun (g_s g))) && (memN i (g_run g) || memN i (g_self g)).

(* ---- the census ---- *)
Definition main_alive (s : state) : nat := match s_pc s with PRet => 0%nat | _ => 1%nat end.

Definition helpers (s : state) : nat :=
  match s_pc s with
  | PStop _ _ tocall called _ => (length tocall + length called)%nat
  | _ => 0%nat
  end.

Definition census (g : gstate) : nat :=
  (main_alive (g_s g) + helpers (g_s g) + length (g_run g))%nat.

(* ---- obligations of the environment ---- *)
(* Stop() of instance i has returned, or its context is cancelled (its own, the context given to
   Run, or runCtx through the Stop path's runCancel) *)
Definition obliged (g : gstate) (i : N) : bool :=
  (negb (lvb (g_s g) i) && negb (spb (g_s g) i)) || cxb g i.

Definition settledb (g : gstate) : bool :=
  forallb (fun i => negb (obliged g i) && negb (memN i (s_unrun (g_s g)))) (g_run g).

(* server goroutines whose Stop() has returned: only the contract keeps them alive *)
Definition zombies (g : gstate) : list N :=
  filter (fun i => negb (lvb (g_s g) i) && negb (spb (g_s g) i)) (g_run g).

Definition no_helper_starting (s : state) : bool :=
  match s_pc s with PStop _ _ (_ :: _) _ _ => false | _ => true end.

(* ---- the wrapper's guards on base labels ---- *)
Definition gguard (g : gstate) (l : label) : bool :=
  let s := g_s g in
  match l with
  | LShut => s_cancel s || s_closed s            (* runCtx.Done / siphon closed; StopCh is GShutStop *)
  | LStopCall i =>
    match s_pc s with PWait _ _ _ _ _ => memN i (g_cx g) | _ => true end   (* serverCancel() came first *)
  | LReady =>
    match s_pc s with
    | PWait _ _ _ i _ => negb (memN i (s_unrun s)) && memN i (g_run g) && negb (memN i (g_cx g))
    | _ => true
    end
  | LOffer _ => negb (g_ack g)                   (* one sender: it offers again only after its report *)
  | _ => true
  end.

Definition gafter (g : gstate) (l : label) (s' : state) : gstate :=
  match l with
  | LFactory _ _ i _ => mkG s' (i :: g_run g) (g_cx g) (g_rc g) (g_self g) (g_ack g)
  | LStopRet i => mkG s' (g_run g) (addN i (g_cx g)) (g_rc g) (g_self g) (g_ack g)
  | LRecv _ => mkG s' (g_run g) (g_cx g) (g_rc g) (g_self g) true
  | _ => mkG s' (g_run g) (g_cx g) (g_rc g) (g_self g) (g_ack g)
  end.

Definition gstep (fx : bool) (g : gstate) (l : glabel) : option gstate :=
  match l with
  | GB bl =>
    if gguard g bl then
      match step fx (g_s g) bl with
      | Some s' => Some (gafter g bl s')
      | None => None
      end
    else None
  | GShutStop =>
    if s_stopreq (g_s g) then
      match step fx (g_s g) LShut with
      | Some s' => Some (mkG s' (g_run g) (g_cx g) true (g_self g) (g_ack g))
      | None => None
      end
    else None
  | GFailCancel i =>
    match s_pc (g_s g) with
    | PWait _ _ _ j b =>
      if N.eqb i j && (negb (beh_eqb b BReady) || s_cancel (g_s g)) && negb (memN i (g_cx g))
      then Some (mkG (g_s g) (g_run g) (i :: g_cx g) (g_rc g) (g_self g) (g_ack g))
      else None
    | _ => None
    end
  | GCtxSeen i =>
    if memN i (g_run g) && negb (memN i (s_unrun (g_s g))) && cxb g i && lvb (g_s g) i
    then Some g else None
  | GRunRet i =>
    if memN i (g_run g) && negb (memN i (s_unrun (g_s g))) && (negb (lvb (g_s g) i) || cxb g i)
    then Some (mkG (g_s g) (removeN i (g_run g)) (g_cx g) (g_rc g) (g_self g) (g_ack g))
    else None
  | GSelfExit i =>
    if memN i (g_run g) && negb (memN i (s_unrun (g_s g))) && lvb (g_s g) i && negb (waitingb (g_s g) i)
    then Some (mkG (g_s g) (removeN i (g_run g)) (g_cx g) (g_rc g) (i :: g_self g) (g_ack g))
    else None
  | GSent =>
    if g_ack g then Some (mkG (g_s g) (g_run g) (g_cx g) (g_rc g) (g_self g) false) else None
  | GCensus m h r =>
    if settledb g && no_helper_starting (g_s g)
       && N.eqb m (N.of_nat (main_alive (g_s g))) && N.eqb h (N.of_nat (helpers (g_s g)))
       && N.eqb r (N.of_nat (length (g_run g)))
    then Some g else None
  end.

(* forgetting the liveness and census labels gives a schedule of the protocol model *)
Fixpoint erase (ls : list glabel) : list label :=
  match ls with
  | [] => []
  | GB l :: t => l :: erase t
  | GShutStop :: t => LShut :: erase t
  | _ :: t => erase t
  end.

(* ---- acceptor plumbing ---- *)
Definition gobs (l : glabel) : option gevent :=
  match l with
  | GB bl => match obs bl with Some e => Some (GE e) | None => None end
  | GShutStop | GFailCancel _ => None
  | GCtxSeen i => Some (GECtxSeen i)
  | GRunRet i => Some (GERunRet i)
  | GSelfExit i => Some (GESelfExit i)
  | GSent => Some GESent
  | GCensus m h r => Some (GECensus m h r)
  end.

Definition gtaus (g : gstate) : list glabel :=
  map GB (taus (g_s g)) ++
  match s_pc (g_s g) with
  | PIdle => [GShutStop]
  | PWait _ _ _ i _ => [GFailCancel i]
  | _ => []
  end.

Definition gvis (g : gstate) (e : gevent) : list glabel :=
  match e with
  | GE e' => map GB (vis (g_s g) e')
  | GECtxSeen i => [GCtxSeen i]
  | GERunRet i => [GRunRet i]
  | GESelfExit i => [GSelfExit i]
  | GESent => [GSent]
  | GECensus m h r => [GCensus m h r]
  end.

Definition gevent_eqb (a b : gevent) : bool :=
  match a, b with
  | GE x, GE y => event_eqb x y
  | GECtxSeen i, GECtxSeen j | GERunRet i, GERunRet j | GESelfExit i, GESelfExit j => N.eqb i j
  | GESent, GESent => true
  | GECensus m h r, GECensus m' h' r' => N.eqb m m' && N.eqb h h' && N.eqb r r'
  | _, _ => false
  end.

Definition gkey (g : gstate) : list N :=
  key (g_s g) ++ k_ns (g_run g) ++ k_ns (g_cx g) ++ k_ns (g_self g) ++ [k_bool (g_rc g); k_bool (g_ack g)].

Definition gaccept (delay : bool) (fuel : nat) (t : list gevent) : list gstate * bool :=
  LTS.accept_from gstate glabel gevent (gstep repaired) gobs gtaus gvis gevent_eqb gkey fuel
                  [ginit delay] t.
Definition gaccepted_prefix (delay : bool) (fuel : nat) (t : list gevent) : nat :=
  LTS.accept_depth gstate glabel gevent (gstep repaired) gobs gtaus gvis gevent_eqb gkey fuel
                   [ginit delay] t.

(* the property's executable predicates on a model state (used by the driver on every state the
   acceptor returns): after a clean stop nothing is left that is not owed; while running the census is
   within the bound *)
Definition started_not_stopped (s : state) : nat := (length (s_live s) + length (s_stopping s))%nat.
Definition clean_okb (g : gstate) : bool :=
  match s_pc (g_s g) with
  | PRet => Nat.eqb (census g) (length (g_run g)) && forallb (obliged g) (g_run g)
  | _ => true
  end.
Definition bound_okb (g : gstate) : bool :=
  Nat.leb (census g) (1 + 2 * started_not_stopped (g_s g) + length (zombies g)).

(* C16: whenever the loop is idle and the context is not cancelled, every server started and not
   stopped is alive (proved for every reachable state: ClusterLive.live_okb_reachable) *)
Definition live_okb (g : gstate) : bool :=
  match s_pc (g_s g) with
  | PIdle => s_cancel (g_s g) || forallb (fun j => aliveb g j) (map fst (s_live (g_s g)))
  | _ => true
  end.
