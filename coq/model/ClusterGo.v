(* Goroutine census of runnables/httpcluster/runner.go (C18, cluster leg), layered on the protocol
   model ClusterLTS.v without changing it.  No proofs here.

   Goroutines the cluster code creates or runs on (runner.go):
   * the goroutine that called Run() itself (counted while Run has not returned: [main_alive]);
   * stopServers: one helper per stop entry with a runtime, `go func(id, entry){ entry.runner.Stop();
     entry.cancel(); wg.Done() }`, all spawned before wg.Wait(): they are the [tocall] (spawned, Stop()
     not yet called) and [called] (inside Stop()) components of the PStop program counter; a helper
     ends with the return of its Stop() (label LStopRet);
   * createAndStartServer: one goroutine per successfully created server instance,
     `go func(){ runner.Run(serverCtx); log }`: nobody joins it; it ends when the server's Run returns.
     ClusterLTS has no label for that return, so this file adds the ghost list [g_run] (instances whose
     goroutine is alive: added by LFactory) and the label [GRunRet i] (the server's Run returned and the
     goroutine ended; enabled once Run was called - a server may also fail on its own at any time).
   Nothing else is started by the package (waitForIsRunning / the restart delay use timers).

   Environment contract of a server (supervisor.Runnable): Run returns once Stop() has returned or
   the context it was given is cancelled.  An instance of [g_run] for which that holds is [obliged];
   an instance whose goroutine has not even called Run yet ([s_unrun]) is runnable.  A state is
   [settled] when no server goroutine is obliged or runnable: these are the states in which the
   census is compared with the real goroutine dump, and in which the theorems bound it.

   [GCensus m h r] is the observation "at a quiescent point the goroutine dump showed m goroutines in
   Run, h stop helpers, r server goroutines": enabled only in a settled state with no helper still on
   its way into Stop(), and only with the model's own numbers. *)
From GS Require Export ClusterLTS.
From GS Require Import LTS.

Record gstate := mkG { g_s : state; g_run : list N }.

Inductive glabel :=
| GB (l : label)
| GRunRet (i : N)
| GCensus (m h r : N).

Inductive gevent :=
| GE (e : event)
| GERunRet (i : N)
| GECensus (m h r : N).

Definition ginit (delay : bool) : gstate := mkG (init delay) [].

(* ---- the census ---- *)
Definition main_alive (s : state) : nat := match s_pc s with PRet => 0%nat | _ => 1%nat end.

Definition helpers (s : state) : nat :=
  match s_pc s with
  | PStop _ _ tocall called _ => (length tocall + length called)%nat
  | _ => 0%nat
  end.

Definition census (g : gstate) : nat :=
  (main_alive (g_s g) + helpers (g_s g) + length (g_run g))%nat.

(* ---- obligations of the environment ---- *)
Definition lvb (s : state) (i : N) : bool := memN i (map fst (s_live s)).
Definition spb (s : state) (i : N) : bool := memN i (map fst (s_stopping s)).

(* Stop() of instance i has returned (it is neither waiting for its Stop() nor inside it) or the
   context given to Run() - the parent of every server context - is cancelled *)
Definition obliged (s : state) (i : N) : bool :=
  (negb (lvb s i) && negb (spb s i)) || s_cancel s.

Definition settledb (g : gstate) : bool :=
  forallb (fun i => negb (obliged (g_s g) i) && negb (memN i (s_unrun (g_s g)))) (g_run g).

(* server goroutines whose Stop() has returned: only the contract keeps them alive *)
Definition zombies (g : gstate) : list N :=
  filter (fun i => negb (lvb (g_s g) i) && negb (spb (g_s g) i)) (g_run g).

Definition no_helper_starting (s : state) : bool :=
  match s_pc s with PStop _ _ (_ :: _) _ _ => false | _ => true end.

Definition gstep (fx : bool) (g : gstate) (l : glabel) : option gstate :=
  match l with
  | GB bl =>
    match step fx (g_s g) bl with
    | Some s' =>
      Some (mkG s' (match bl with LFactory _ _ i _ => i :: g_run g | _ => g_run g end))
    | None => None
    end
  | GRunRet i =>
    if memN i (g_run g) && negb (memN i (s_unrun (g_s g)))
    then Some (mkG (g_s g) (removeN i (g_run g)))
    else None
  | GCensus m h r =>
    if settledb g && no_helper_starting (g_s g)
       && N.eqb m (N.of_nat (main_alive (g_s g))) && N.eqb h (N.of_nat (helpers (g_s g)))
       && N.eqb r (N.of_nat (length (g_run g)))
    then Some g else None
  end.

(* forgetting the census labels gives a schedule of the protocol model *)
Fixpoint erase (ls : list glabel) : list label :=
  match ls with
  | [] => []
  | GB l :: t => l :: erase t
  | _ :: t => erase t
  end.

(* ---- acceptor plumbing ---- *)
Definition gobs (l : glabel) : option gevent :=
  match l with
  | GB bl => match obs bl with Some e => Some (GE e) | None => None end
  | GRunRet i => Some (GERunRet i)
  | GCensus m h r => Some (GECensus m h r)
  end.

Definition gtaus (g : gstate) : list glabel := map GB (taus (g_s g)).

Definition gvis (g : gstate) (e : gevent) : list glabel :=
  match e with
  | GE e' => map GB (vis (g_s g) e')
  | GERunRet i => [GRunRet i]
  | GECensus m h r => [GCensus m h r]
  end.

Definition gevent_eqb (a b : gevent) : bool :=
  match a, b with
  | GE x, GE y => event_eqb x y
  | GERunRet i, GERunRet j => N.eqb i j
  | GECensus m h r, GECensus m' h' r' => N.eqb m m' && N.eqb h h' && N.eqb r r'
  | _, _ => false
  end.

Definition gkey (g : gstate) : list N := key (g_s g) ++ k_ns (g_run g).

Definition gaccept (delay : bool) (fuel : nat) (t : list gevent) : list gstate * bool :=
  LTS.accept_from gstate glabel gevent (gstep repaired) gobs gtaus gvis gevent_eqb gkey fuel
                  [ginit delay] t.
Definition gaccepted_prefix (delay : bool) (fuel : nat) (t : list gevent) : nat :=
  LTS.accept_depth gstate glabel gevent (gstep repaired) gobs gtaus gvis gevent_eqb gkey fuel
                   [ginit delay] t.

(* the property's executable predicates on a model state (used by the driver on every state the
   acceptor returns): after a clean stop nothing is left; while running the census is within the bound *)
Definition started_not_stopped (s : state) : nat := (length (s_live s) + length (s_stopping s))%nat.
Definition clean_okb (g : gstate) : bool :=
  match s_pc (g_s g) with PRet => Nat.eqb (census g) 0 | _ => true end.
Definition bound_okb (g : gstate) : bool :=
  Nat.leb (census g) (1 + 2 * started_not_stopped (g_s g) + length (zombies g)).
