(* C16 as an executable monitor over the OBSERVABLE trace of the cluster (the events of ClusterGo.v:
   what the harness logs at the mock servers and at the public API).  No proofs here; the theorem
   "every schedule of the model passes the monitor" is ClusterMonP.mon_sound.

   The monitor keeps, from the events alone: the servers started and not stopped ([m_live]: factory
   call seen, no Stop() call seen) and the ones inside Stop() ([m_stopping]), each with the id and the
   configuration it was created from; the readiness behaviour each server announced; the shutdown
   triggers seen; the last map offered on the siphon, whether its sender has reported the receipt,
   the ids whose start failed since that offer (factory error, or an instance created since the offer
   whose Stop() returned), and whether the last thing seen was a GetServerCount at an idle point.

   Clauses (a violated clause is the code returned):
     1 replacement-started-before-old-stopped   factory call for an id while an instance of that id is
                                                started and its Stop() has not returned
     2 leaked                                   Run returned while a server is started and not stopped
     3 count-wrong                              GetServerCount <> servers started and not stopped (after a
                                                cancellation and before Run returned only >= is required)
     4 not-converged-extra                      at an idle point (no shutdown trigger, last map received) a
                                                server runs that the last map does not give that configuration
     5 not-converged-missing                    ... the last map wants (id, cfg), no such server runs and no
                                                start of that id failed since the map was offered
     6 state-error                              GetState() = Error (or an unknown state)
     7 state-not-running                        GetState() <> Running at an idle point
     8 server-context-cancelled                 a server saw its context cancelled before any Stop() call
                                                although the context given to Run was not cancelled, Stop()
                                                was not called on the cluster and the server had announced
                                                that it would become ready *)
From GS Require Export ClusterGo.

Record mst := mkM {
  m_live : list inst;
  m_stopping : list inst;
  m_beh : list (N * beh);
  m_cancel : bool;
  m_stopreq : bool;
  m_closed : bool;
  m_ret : bool;
  m_last : cmap;
  m_acked : bool;
  m_failed : list id;
  m_fresh : list N;
  m_idle : bool
}.

Definition m0 : mst := mkM [] [] [] false false false false [] true [] [] false.

Definition trigger (m : mst) : bool := m_cancel m || m_stopreq m || m_closed m.

Definition beh_of (i : N) (l : list (N * beh)) : option beh :=
  match find (fun p => N.eqb (fst p) i) l with Some p => Some (snd p) | None => None end.

Definition inst_id (x : inst) : id := fst (snd x).
Definition inst_cfg (x : inst) : cfg := snd (snd x).

Definition optcfg_eqb (a : option cfg) (c : cfg) : bool :=
  match a with Some x => N.eqb x c | None => false end.

(* clause 4: every running server has the configuration the map gives its id *)
Definition no_extra (des : emap) (live : list inst) : bool :=
  forallb (fun x => optcfg_eqb (dcfg des (inst_id x)) (inst_cfg x)) live.

(* clause 5: every wanted (id, cfg) runs or failed *)
Definition no_missing (des : emap) (live : list inst) (failed : list id) : bool :=
  forallb (fun p => existsb (fun x => id_eqb (inst_id x) (fst p) && N.eqb (inst_cfg x) (e_cfg (snd p))) live
                    || mem_id (fst p) failed) des.

Definition set_idle (m : mst) (b : bool) : mst :=
  mkM (m_live m) (m_stopping m) (m_beh m) (m_cancel m) (m_stopreq m) (m_closed m) (m_ret m) (m_last m)
      (m_acked m) (m_failed m) (m_fresh m) b.

(* inl = the monitor state after the event, inr = the violated clause *)
Definition mstep (m : mst) (e : gevent) : mst + N :=
  match e with
  | GE (EOffer mp) =>
    inl (mkM (m_live m) (m_stopping m) (m_beh m) (m_cancel m) (m_stopreq m) (m_closed m) (m_ret m) mp
             false [] [] false)
  | GESent =>
    inl (mkM (m_live m) (m_stopping m) (m_beh m) (m_cancel m) (m_stopreq m) (m_closed m) (m_ret m) (m_last m)
             true (m_failed m) (m_fresh m) false)
  | GE EStopApi =>
    inl (mkM (m_live m) (m_stopping m) (m_beh m) (m_cancel m) true (m_closed m) (m_ret m) (m_last m)
             (m_acked m) (m_failed m) (m_fresh m) false)
  | GE ECancel =>
    inl (mkM (m_live m) (m_stopping m) (m_beh m) true (m_stopreq m) (m_closed m) (m_ret m) (m_last m)
             (m_acked m) (m_failed m) (m_fresh m) false)
  | GE EClose =>
    inl (mkM (m_live m) (m_stopping m) (m_beh m) (m_cancel m) (m_stopreq m) true (m_ret m) (m_last m)
             (m_acked m) (m_failed m) (m_fresh m) false)
  | GE EStopApiRet => inl (set_idle m false)
  | GE (EFactory k c i b) =>
    if forallb (fun x => negb (id_eqb (inst_id x) k)) (m_live m ++ m_stopping m) then
      inl (mkM ((i, (k, c)) :: m_live m) (m_stopping m) ((i, b) :: m_beh m) (m_cancel m) (m_stopreq m)
               (m_closed m) (m_ret m) (m_last m) (m_acked m) (m_failed m) (i :: m_fresh m) false)
    else inr 1
  | GE (EFactoryErr k c) =>
    inl (mkM (m_live m) (m_stopping m) (m_beh m) (m_cancel m) (m_stopreq m) (m_closed m) (m_ret m) (m_last m)
             (m_acked m) (k :: m_failed m) (m_fresh m) false)
  | GE (ERunCall i) => inl (set_idle m false)
  | GE (EStopCall i) =>
    inl (mkM (remove_inst i (m_live m))
             (match find_inst i (m_live m) with Some x => x :: m_stopping m | None => m_stopping m end)
             (m_beh m) (m_cancel m) (m_stopreq m) (m_closed m) (m_ret m) (m_last m) (m_acked m) (m_failed m)
             (m_fresh m) false)
  | GE (EStopRet i) =>
    inl (mkM (m_live m) (remove_inst i (m_stopping m)) (m_beh m) (m_cancel m) (m_stopreq m) (m_closed m)
             (m_ret m) (m_last m) (m_acked m)
             (match find_inst i (m_stopping m) with
              | Some x => if memN i (m_fresh m) then inst_id x :: m_failed m else m_failed m
              | None => m_failed m
              end)
             (m_fresh m) false)
  | GE (ECount n) =>
    let k := length (m_live m) in
    if (if m_cancel m && negb (m_ret m) then Nat.leb k (N.to_nat n) else Nat.eqb (N.to_nat n) k) then
      if negb (trigger m) && m_acked m then
        let des := new_entries (m_last m) in
        if no_extra des (m_live m) then
          if no_missing des (m_live m) (m_failed m) then inl (set_idle m true) else inr 5
        else inr 4
      else inl (set_idle m false)
    else inr 3
  | GE (EState c) =>
    match c with
    | CError | COther => inr 6
    | _ => if m_idle m && negb (cstate_eqb c CRunning) then inr 7 else inl m
    end
  | GE ERunReturn =>
    match m_live m, m_stopping m with
    | [], [] =>
      inl (mkM [] [] (m_beh m) (m_cancel m) (m_stopreq m) (m_closed m) true (m_last m) (m_acked m)
               (m_failed m) (m_fresh m) false)
    | _, _ => inr 2
    end
  | GECtxSeen i =>
    if m_cancel m || m_stopreq m ||
       match beh_of i (m_beh m) with Some b => negb (beh_eqb b BReady) | None => false end
    then inl (set_idle m false) else inr 8
  | GERunRet _ | GESelfExit _ => inl (set_idle m false)
  | GECensus _ _ _ => inl m
  end.

(* run the monitor: inl final state, inr (index of the offending event, clause) *)
Fixpoint mrun (m : mst) (n : nat) (t : list gevent) : mst + (nat * N) :=
  match t with
  | [] => inl m
  | e :: t' => match mstep m e with inl m' => mrun m' (S n) t' | inr c => inr (n, c) end
  end.

Definition c16_monitor (t : list gevent) : option (nat * N) :=
  match mrun m0 0 t with inl _ => None | inr x => Some x end.

Definition c16_holdsb (t : list gevent) : bool :=
  match c16_monitor t with None => true | Some _ => false end.
