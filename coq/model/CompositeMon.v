(* The acceptor instance for the composite model, and executable predicates that evaluate
   the three properties directly on an observed event log of the implementation
   (C09_holdsb, C10_holdsb, C11_holdsb; 0 = holds, otherwise the number of the clause that fails).
   The predicates are trace monitors over the harness' observables only (no model state). *)
From Coq Require Import List NArith Bool.
From GS Require Import Errs LTS Composite.
Import ListNotations.

Definition accept (P : params) (fuel : nat) (tr : list event) : list state * bool :=
  accept_from state label event (step P) obs taus vis event_eqb key fuel [init] tr.

(* the same acceptor, one event at a time (so that the driver can enforce a frontier cap and a
   time budget between events): [accept0] = closure of the initial state, [accept1 S e] = the
   closed set after observing e from the closed set S.  Sound by the same lemmas of LTS.v
   (CompositeBase.accept0_sound / accept1_sound). *)
Definition accept0 (P : params) (fuel : nat) : list state * bool :=
  close state label event (step P) obs taus key fuel [init].
Definition accept1 (P : params) (fuel : nat) (S : list state) (e : event) : list state * bool :=
  close state label event (step P) obs taus key fuel
        (flat_map (succs_vis state label event (step P) obs vis event_eqb e) S).

Definition depth (P : params) (fuel : nat) (tr : list event) : nat :=
  accept_depth state label event (step P) obs taus vis event_eqb key fuel [init] tr.

(* ------------------------------------------------------------------ trace helpers *)

Definition count_ev (f : event -> bool) (tr : list event) : nat := length (filter f tr).

Definition is_runcall (c : N) (e : event) := match e with ERunCall x => N.eqb x c | _ => false end.
Definition is_runret (c : N) (e : event) := match e with ERunRet x _ => N.eqb x c | _ => false end.
Definition is_stopcall (c : N) (e : event) := match e with EStopCall x => N.eqb x c | _ => false end.
Definition is_stopret (c : N) (e : event) := match e with EStopRet x => N.eqb x c | _ => false end.
Definition any_runcall (e : event) := match e with ERunCall _ => true | _ => false end.
Definition any_child_ev (e : event) :=
  match e with
  | ERunCall _ | ERunRet _ _ | EStopCall _ | EStopRet _ | EReloadCfg _ _ | EReloadPlain _ => true
  | _ => false
  end.
Definition is_reload_ev (e : event) :=
  match e with EReloadCfg _ _ | EReloadPlain _ => true | _ => false end.
Definition is_fail_exit (e : event) :=
  match e with ERunRet _ (Some x) => negb (is_cancel x) | _ => false end.
Definition is_disturb (e : event) :=   (* Stop()/cancel/second caller: ends the "sequential" regime *)
  match e with ECancel | EApiCall _ _ => true | _ => false end.
Definition is_stop_or_cancel (e : event) :=
  match e with ECancel | EApiCall OpStop _ => true | _ => false end.
Definition is_run_ret (e : event) := match e with EApiRet OpRun _ _ => true | _ => false end.
Definition is_state (st : fstate) (e : event) := match e with EState x => fstate_eqb x st | _ => false end.

Fixpoint run_result (tr : list event) : option rescls :=
  match tr with
  | [] => None
  | EApiRet OpRun _ r :: _ => Some r
  | _ :: t => run_result t
  end.

Fixpoint last_state (tr : list event) (acc : option fstate) : option fstate :=
  match tr with
  | [] => acc
  | EState st :: t => last_state t (Some st)
  | _ :: t => last_state t acc
  end.

(* split at the first event satisfying f: (before, Some (hit, after)) *)
Fixpoint split_first (f : event -> bool) (tr : list event) : list event * option (event * list event) :=
  match tr with
  | [] => ([], None)
  | e :: t => if f e then ([], Some (e, t))
              else let (a, b) := split_first f t in (e :: a, b)
  end.

Definition children_of (P : params) : list N := map N.of_nat (seq 0 (length (pool P))).

Definition count_in (c : N) (cf : config) : nat := length (filter (fun e => N.eqb (fst e) c) cf).

Definition live (c : N) (tr : list event) : nat := count_ev (is_runcall c) tr - count_ev (is_runret c) tr.

Definition subset_N (a b : list N) : bool := forallb (fun x => mem_N x b) a.

(* the property's notion: the SET of runnable identities (names) *)
Definition same_name_set (P : params) (a b : config) : bool :=
  subset_N (names P a) (names P b) && subset_N (names P b) (names P a).

(* ... with multiplicities: a configuration that lists a runnable twice is a multiset of identities;
   [a;a;b] and [a;b;b] have the same set but are different configurations (the runnables "each once"
   of C09).  For duplicate-free configurations this is [same_name_set]. *)
Definition same_members (P : params) (a b : config) : bool :=
  Nat.eqb (length a) (length b) && all_taken (names P b) (names P a).

(* ------------------------------------------------------------------ C10 *)

Definition user_leaves (x : err) : list N := sort_N (filter (fun l => N.leb 2 l) (leaves x)).

Definition fail_errs (tr : list event) : list err :=
  flat_map (fun e => match e with
                     | ERunRet _ (Some x) => if is_cancel x then [] else [x]
                     | _ => []
                     end) tr.

(* clauses 1-6: the failure scenario proper *)
Definition C10_base (P : params) (tr : list event) : N :=
  let '(pre, hit) := split_first is_fail_exit tr in
  match hit with
  | None =>
    (* only nil / cancellation exits: the composite must not report a failed child *)
    match run_result tr with
    | Some r => if rc_failed r then 1%N else 0%N
    | None => 0%N
    end
  | Some (_, post) =>
    let armed := existsb (is_state FRunning) pre && negb (existsb is_stop_or_cancel pre)
                 && negb (existsb is_run_ret pre) in
    if negb armed then 0%N
    else
      match run_result post with
      | None => 2%N                                     (* Run never returned *)
      | Some r =>
        if negb (rc_failed r) then 3%N                  (* does not wrap ErrRunnableFailed *)
        else if negb (existsb (fun x => list_eqb N.eqb (user_leaves x) (rc_leaves r)) (fail_errs tr))
        then 4%N                                        (* does not wrap a failed child's error *)
        else if negb (match last_state tr None with Some FError => true | _ => false end)
        then 5%N                                        (* state is not Error *)
        else if negb (forallb (fun c => Nat.eqb (live c tr) 0 || existsb (is_stopcall c) post)
                              (children_of P))
        then 6%N                                        (* a running child was not stopped *)
        else 0%N
      end
  end.

(* clause 7, independent of WHEN the failure happened (whatever Reload() / Stop() / cancel was in
   progress): if the result of Run() wraps ErrRunnableFailed, i.e. Run() reports a child's failure,
   then every state observed after Run() returned is Error.  [res] = Run()'s result seen so far. *)
Fixpoint fs_scan (res : option rescls) (tr : list event) : bool :=
  match tr with
  | [] => true
  | EApiRet OpRun _ r :: t => fs_scan (match res with None => Some r | Some _ => res end) t
  | EState st :: t =>
    (match res with Some r => negb (rc_failed r) || fstate_eqb st FError | None => true end) && fs_scan res t
  | _ :: t => fs_scan res t
  end.

Definition failed_state_ok (tr : list event) : bool := fs_scan None tr.

Definition C10_holdsb (P : params) (tr : list event) : N :=
  match C10_base P tr with
  | 0%N => if failed_state_ok tr then 0%N else 7%N      (* Run() reported a failed child, state observed afterwards is not Error *)
  | v => v
  end.

(* ------------------------------------------------------------------ C11 *)

Definition expected_reload_calls (P : params) (nc : config) : list event :=
  flat_map (fun e => match c_rk (spec_of P (fst e)) with
                     | RWC => [EReloadCfg (fst e) (snd e)]
                     | RPlain => [EReloadPlain (fst e)]
                     | RNone => []
                     end) nc.

Fixpoint find_cb (w : list event) : option cbret :=
  match w with
  | [] => None
  | ECallback r :: _ => Some r
  | _ :: t => find_cb t
  end.

(* one sequential Reload: [w] = the events from its ApiCall (exclusive) to the next State observation *)
Definition check_reload (P : params) (k : nat) (cur : config) (w : list event) (st_after : fstate) : N :=
  if negb (existsb (fun e => match e with EApiRet OpReload k' _ => Nat.eqb k k' | _ => false end) w)
  then 10%N                                             (* Reload did not return *)
  else
    match find_cb w with
    | None => 11%N                                      (* callback not consulted *)
    | Some (CbSome nc) =>
      if same_members P cur nc then
        if existsb (fun e => match e with
                             | ERunCall _ | ERunRet _ _ | EStopCall _ | EStopRet _ => true
                             | _ => false end) w
        then 12%N                                       (* unchanged set, yet a child was stopped/started *)
        else if negb (list_eqb event_eqb (filter is_reload_ev w) (expected_reload_calls P nc))
        then 13%N                                       (* not exactly one ReloadWithConfig(new) per entry *)
        else if negb (fstate_eqb st_after FRunning) then 14%N else 0%N
      else
        let '(before_run, _) := split_first any_runcall w in
        if negb (forallb (fun c => Nat.leb (count_in c cur) (count_ev (is_stopret c) before_run))
                         (children_of P))
        then 15%N                                       (* an old child not stopped before the first start *)
        else if negb (forallb (fun c => Nat.eqb (count_ev (is_runcall c) w) (count_in c nc))
                              (children_of P))
        then 16%N                                       (* not exactly the new set started *)
        else if existsb is_reload_ev w then 17%N
        else if negb (fstate_eqb st_after FRunning) then 14%N else 0%N
    | Some _ =>
      if existsb any_child_ev w then 18%N               (* failed callback touched a child *)
      else if negb (fstate_eqb st_after FError) then 19%N else 0%N
    end.

(* walk the trace; [cur] = newest callback value, [st] = last observed state, [calm] = no Stop /
   cancel / failure so far and no other API call in flight *)
Fixpoint c11_walk (P : params) (fuel : nat) (tr : list event) (cur : config) (st : option fstate)
         (calm : bool) : N :=
  match fuel with
  | O => 0%N
  | S f =>
    match tr with
    | [] => 0%N
    | EApiCall OpReload k :: t =>
      let '(w, nxt) := split_first (fun e => match e with EState _ => true | _ => false end) t in
      let cur' := fold_left (fun a e => match e with ECallback (CbSome c) => c | _ => a end) w cur in
      match nxt with
      | None => 0%N
      | Some (EState st', t') =>
        let seq_ok := calm && match st with Some FRunning => true | _ => false end
                      && negb (existsb is_disturb w) && negb (existsb is_fail_exit w) in
        let v := if seq_ok then check_reload P k cur w st' else 0%N in
        match v with
        | 0%N => c11_walk P f t' cur' (Some st')
                          (calm && negb (existsb is_stop_or_cancel w) && negb (existsb is_fail_exit w))
        | _ => v
        end
      | Some (_, t') => 0%N
      end
    | e :: t =>
      let cur' := match e with ECallback (CbSome c) => c | _ => cur end in
      let st' := match e with EState x => Some x | _ => st end in
      let calm' := calm && negb (is_stop_or_cancel e) && negb (is_fail_exit e) in
      c11_walk P f t cur' st' calm'
    end
  end.

Definition C11_holdsb (P : params) (tr : list event) : N := c11_walk P (S (length tr)) tr [] None true.

(* ------------------------------------------------------------------ C09 *)

(* at a quiescent Running observation with no reload in flight: running children == configured.
   For a child with a non-blocking Stop a restart may overlap the previous Run (what the child then
   does is its own business), so only "nothing outside the configuration runs" is required of it. *)
Fixpoint c09_walk (P : params) (pre : list event) (tr : list event) (cur : config) (calm : bool) : N :=
  match tr with
  | [] => 0%N
  | e :: t =>
    let pre' := pre ++ [e] in
    let cur' := match e with ECallback (CbSome c) => c | _ => cur end in
    let calm' := calm && negb (is_stop_or_cancel e) && negb (is_fail_exit e) && negb (is_run_ret e) in
    let bad :=
      match e with
      | EState FRunning =>
        calm
        && Nat.eqb (count_ev (fun x => match x with EApiCall OpReload _ => true | _ => false end) pre)
                   (count_ev (fun x => match x with EApiRet OpReload _ _ => true | _ => false end) pre)
        && negb (forallb (fun c => if is_nonblocking P c
                                    then Nat.leb (live c pre) (count_in c cur)
                                    else Nat.eqb (live c pre) (count_in c cur)) (children_of P))
      | _ => false
      end in
    if bad then 20%N else c09_walk P pre' t cur' calm'
  end.

(* [blocked]: API calls still blocked at final quiescence; [lives]: Run calls in progress per child *)
Definition C09_holdsb (P : params) (tr : list event) (blocked : nat) (lives : list nat) : N :=
  match c09_walk P [] tr [] true with
  | 0%N =>
    if negb (Nat.eqb blocked 0) then 21%N                         (* deadlock: Stop/Reload/Run never returned *)
    else if existsb is_run_ret tr && negb (forallb (Nat.eqb 0) lives) then 22%N   (* a child survives Run() *)
    else 0%N
  | v => v
  end.

(* ------------------------------------------------------------------ C18: goroutine census of the composite
   The goroutines the composite creates on its own behalf: one per child per boot (alive until
   startRunnable has returned) and one per child per stopAllRunnables round (alive until the
   child's Stop() has returned).  API callers' goroutines are the environment's. *)
Definition kid_alive (k : kid) : bool := match k_pc k with KDone => false | _ => true end.
Definition worker_alive (w : worker) : bool := match w_pc w with WDone => false | _ => true end.
Definition kid_census (s : state) : nat := length (filter kid_alive (kids s)).
Definition worker_census (s : state) : nat := length (filter worker_alive (workers s)).
Definition census (s : state) : nat := kid_census s + worker_census s.
