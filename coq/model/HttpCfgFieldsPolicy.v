(* C13 - drift guard for Config.Equal: every field of the Go structs httpserver.Config and httpserver.Route
   (coq/gen/HttpCfgFields.v, dumped by harness/cmd/cfgfields with reflect on every run) is either compared by the
   model's Equal - through the named field of the model's record - or listed as ignored, with the reason.
   [fields_covered] fails when the Go struct gains a field that is not classified here: somebody has to decide
   whether Equal (code and model) must look at it, before a Reload can silently keep a stale server. *)
From Coq Require Import String List Bool.
Import ListNotations.
Open Scope string_scope.

Inductive fstatus :=
| Compared (model_field : string)    (* Config.Equal / Route.Equal compares it; the model's record field that carries it *)
| Ignored (reason : string).         (* not compared, on purpose *)

Definition config_field_policy : list (string * fstatus) := [
  ("ListenAddr", Compared "addr");
  ("DrainTimeout", Compared "drain");
  ("Routes", Compared "routes");
  ("ReadTimeout", Compared "read_to");
  ("WriteTimeout", Compared "write_to");
  ("IdleTimeout", Compared "idle_to");
  ("ServerCreator", Ignored "a function value, not comparable in Go (config.go: 'We don't compare ServerCreator functions'); a Reload that changes only the creator keeps the old server - documented, outside C13's notion of equivalence (address, timeouts, route name/path set)");
  ("context", Ignored "the request context: boot overwrites it with the runner's context (WithRequestContext(r.ctx)) for every server it creates")
].

Definition route_field_policy : list (string * fstatus) := [
  ("name", Compared "rname");
  ("Path", Compared "rpath");
  ("Handlers", Ignored "function values, not comparable; the route NAME stands for the handler chain (routes.go: 'we assume the route names uniquely identify the route') - C13's equivalence is on the name/path set")
].

(* the fields of the model's records (model/HttpCfg.v: Record config, Record route) *)
Definition model_config_fields : list string := ["addr"; "drain"; "read_to"; "write_to"; "idle_to"; "routes"].
Definition model_route_fields : list string := ["rname"; "rpath"].

Definition classified (policy : list (string * fstatus)) (f : string * string) : bool :=
  existsb (fun p => String.eqb (fst p) (fst f)) policy.

Definition compared_targets (policy : list (string * fstatus)) : list string :=
  flat_map (fun p => match snd p with Compared m => [m] | Ignored _ => [] end) policy.

(* every Go field is classified, and every field of the model's record is what some compared Go field maps to *)
Definition fields_covered (policy : list (string * fstatus)) (go_fields : list (string * string))
  (model_fields : list string) : bool :=
  forallb (classified policy) go_fields &&
  forallb (fun m => existsb (String.eqb m) (compared_targets policy)) model_fields &&
  forallb (fun m => existsb (String.eqb m) model_fields) (compared_targets policy).

Definition unclassified (policy : list (string * fstatus)) (go_fields : list (string * string)) : list (string * string) :=
  filter (fun f => negb (classified policy f)) go_fields.
