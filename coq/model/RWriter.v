(* C15 (writer leg) — responseWriter of runnables/httpserver/response_writer.go over an ARBITRARY
   underlying http.ResponseWriter.  The underlying writer is an oracle: each operation carries what the
   underlying calls it makes would do (panic on WriteHeader; (n, err) from Write).  model/Chain.v fixes the
   underlying writer to httptest.ResponseRecorder; this model removes that restriction for the three getters.
   No proofs in this file. *)
From Coq Require Import List ZArith Bool.
Import ListNotations.
Open Scope Z_scope.

Record wrap := mkWrap { w_status : Z; w_written : bool; w_size : Z }.

Definition w0 : wrap := mkWrap 0 false 0.

(* one call on the wrapper, together with the behaviour of the underlying writer during that call *)
Inductive op :=
| OWH (code : Z) (u_panics : bool)                       (* WriteHeader(code) *)
| OW (len : Z) (u_wh_panics : bool) (n : Z) (err : bool). (* Write(b), len(b)=len; underlying Write returns (n, err) *)

(* what the underlying writer received (ghost): this is "what was actually sent to the client" *)
Inductive ucall :=
| UWH (code : Z)          (* a WriteHeader that returned *)
| UW (n : Z).             (* a Write that returned n *)

Inductive out := OutUnit | OutPanic | OutWrite (n : Z) (err : bool).

Record st := mkSt { wr : wrap; sent : list ucall }.

Definition init : st := mkSt w0 [].

(* responseWriter.WriteHeader: forwards only while !written; status/written recorded after the underlying returned *)
Definition write_header (code : Z) (panics : bool) (s : st) : st * bool :=
  if w_written (wr s) then (s, false)
  else if panics then (s, true)
  else (mkSt (mkWrap code true (w_size (wr s))) (sent s ++ [UWH code]), false).

Definition step (s : st) (o : op) : st * out :=
  match o with
  | OWH c p => let (s', pk) := write_header c p s in (s', if pk then OutPanic else OutUnit)
  | OW _ p n e =>
      let (s1, pk) := write_header 200 p s in
      if pk then (s1, OutPanic)
      else (mkSt (mkWrap (w_status (wr s1)) (w_written (wr s1)) (w_size (wr s1) + n)) (sent s1 ++ [UW n]),
            OutWrite n e)
  end.

Fixpoint run (s : st) (ops : list op) : st :=
  match ops with [] => s | o :: r => run (fst (step s o)) r end.

(* getters *)
Definition g_status (s : st) : Z :=
  if (Z.eqb (w_status (wr s)) 0 && w_written (wr s))%bool then 200 else w_status (wr s).
Definition g_written (s : st) : bool := w_written (wr s).
Definition g_size (s : st) : Z := w_size (wr s).

(* the specification, on what the client received *)
Fixpoint first_status (l : list ucall) : option Z :=
  match l with [] => None | UWH c :: _ => Some c | UW _ :: r => first_status r end.
Fixpoint body_bytes (l : list ucall) : Z :=
  match l with [] => 0 | UW n :: r => n + body_bytes r | UWH _ :: r => body_bytes r end.
Definition anything_sent (l : list ucall) : bool := match l with [] => false | _ => true end.
Fixpoint count_wh (l : list ucall) : nat :=
  match l with [] => O | UWH _ :: r => S (count_wh r) | UW _ :: r => count_wh r end.

(* observations after every op, for the differential run *)
Record obs := mkObs { o_out : out; o_status : Z; o_written : bool; o_size : Z }.
Fixpoint observe (s : st) (ops : list op) : list obs :=
  match ops with
  | [] => []
  | o :: r => let (s', x) := step s o in mkObs x (g_status s') (g_written s') (g_size s') :: observe s' r
  end.
