(* Timed model of the graceful drain (C14): stopServer = http.Server.Shutdown under a context with
   the configured DrainTimeout.  Time is explicit ([now], milliseconds) and advances only by [DTick],
   which is enabled only while no zero-time action is due: a request whose remaining duration is 0
   finishes before time passes, Shutdown returns no later than its deadline, and no later than
   [gap] after the server became idle (net/http polls for idleness with a growing interval;
   [gap] bounds the distance to the next poll instant).

   MODELLED, NOT VERIFIED: everything inside net/http.Server.Shutdown (listener close first,
   connection tracking, polling), handlers that ignore their context, scheduler latency.
   The trigger (Stop, context cancel, reload with a changed configuration) only decides who
   calls stopServer; the drain itself is the same code. *)
From Coq Require Export List NArith Bool.
Export ListNotations.
Open Scope N_scope.

(* q_stop is a history variable: the remaining duration when Shutdown was called (0 before, and for
   requests already finished then); it influences no step *)
Record req := { q_id : nat; q_rem : N; q_done : bool; q_stop : N }.

Record dstate := {
  now : N;
  bound : bool;                    (* the listener is open *)
  reqs : list req;                 (* requests with their remaining handler time *)
  last_done : N;                   (* instant of the latest completion *)
  sd_start : option N;             (* Shutdown was called at this instant *)
  sd_ret : option (N * bool);      (* Shutdown returned at (instant, true = nil / false = deadline) *)
  refused : bool                   (* some dial was refused *)
}.

Inductive dlabel :=
| DNewReq (i : nat) (d : N)        (* a request arrives (accepted only while the listener is open) *)
| DTick (d : N)
| DFinish (i : nat)                (* a handler returns and its full response is written *)
| DShutStart
| DShutRetOk
| DShutRetTimeout
| DDial (ok : bool).

Definition dinit : dstate :=
  {| now := 0; bound := true; reqs := []; last_done := 0; sd_start := None; sd_ret := None; refused := false |}.

Definition all_done (l : list req) : bool := forallb q_done l.
Fixpoint has_id (i : nat) (l : list req) : bool :=
  match l with [] => false | r :: t => Nat.eqb (q_id r) i || has_id i t end.
Fixpoint finish (i : nat) (l : list req) : option (list req) :=
  match l with
  | [] => None
  | r :: t =>
    if Nat.eqb (q_id r) i
    then if negb (q_done r) && N.eqb (q_rem r) 0
         then Some ({| q_id := i; q_rem := 0; q_done := true; q_stop := q_stop r |} :: t) else None
    else match finish i t with Some t' => Some (r :: t') | None => None end
  end.
(* every in-flight request has at least d left *)
Definition can_wait (d : N) (l : list req) : bool :=
  forallb (fun r => q_done r || (d <=? q_rem r)) l.
Definition age (d : N) (l : list req) : list req :=
  map (fun r => if q_done r then r
                else {| q_id := q_id r; q_rem := q_rem r - d; q_done := false; q_stop := q_stop r |}) l.
(* Shutdown is called: remember what every request still needs *)
Definition mark (l : list req) : list req :=
  map (fun r => {| q_id := q_id r; q_rem := q_rem r; q_done := q_done r;
                   q_stop := if q_done r then 0 else q_rem r |}) l.

Section Drain.
  Variable drain : N.   (* DrainTimeout, ms *)
  Variable gap : N.     (* bound on the distance to Shutdown's next poll instant *)

  (* the instant since which the server has been idle, relative to a Shutdown started at t0 *)
  Definition idle_since (s : dstate) (t0 : N) : N := N.max t0 (last_done s).

  Definition dstep (s : dstate) (l : dlabel) : option dstate :=
    match l with
    | DNewReq i d =>
      if bound s && negb (has_id i (reqs s))
      then Some {| now := now s; bound := bound s;
                   reqs := {| q_id := i; q_rem := d; q_done := false; q_stop := 0 |} :: reqs s;
                   last_done := last_done s; sd_start := sd_start s; sd_ret := sd_ret s; refused := refused s |}
      else None
    | DTick d =>
      if (0 <? d) && can_wait d (reqs s) &&
         match sd_start s, sd_ret s with
         | Some t0, None =>
           (now s + d <=? t0 + drain) &&
           (if all_done (reqs s) then now s + d <=? idle_since s t0 + gap else true)
         | _, _ => true
         end
      then Some {| now := now s + d; bound := bound s; reqs := age d (reqs s); last_done := last_done s;
                   sd_start := sd_start s; sd_ret := sd_ret s; refused := refused s |}
      else None
    | DFinish i =>
      match finish i (reqs s) with
      | Some rs => Some {| now := now s; bound := bound s; reqs := rs; last_done := now s;
                           sd_start := sd_start s; sd_ret := sd_ret s; refused := refused s |}
      | None => None
      end
    | DShutStart =>
      match sd_start s with
      | None => Some {| now := now s; bound := false; reqs := mark (reqs s); last_done := last_done s;
                        sd_start := Some (now s); sd_ret := None; refused := refused s |}
      | Some _ => None
      end
    | DShutRetOk =>
      match sd_start s, sd_ret s with
      | Some t0, None =>
        if all_done (reqs s) && (now s <=? t0 + drain)
        then Some {| now := now s; bound := bound s; reqs := reqs s; last_done := last_done s;
                     sd_start := sd_start s; sd_ret := Some (now s, true); refused := refused s |}
        else None
      | _, _ => None
      end
    | DShutRetTimeout =>
      match sd_start s, sd_ret s with
      | Some t0, None =>
        if N.eqb (now s) (t0 + drain)
        then Some {| now := now s; bound := bound s; reqs := reqs s; last_done := last_done s;
                     sd_start := sd_start s; sd_ret := Some (now s, false); refused := refused s |}
        else None
      | _, _ => None
      end
    | DDial ok =>
      if Bool.eqb ok (bound s)
      then Some {| now := now s; bound := bound s; reqs := reqs s; last_done := last_done s;
                   sd_start := sd_start s; sd_ret := sd_ret s; refused := refused s || negb ok |}
      else None
    end.
End Drain.

(* ---- the outcome predicate used by the correspondence check ----
   An observed drain: requests with handler durations [ds] (ms, all in flight when the stop trigger
   fires), the measured duration [t] of Stop, whether the drain-timeout error was reported
   ([ok] = false), and per request whether its full response had arrived when Stop returned.
   [band] is the tolerance on request durations (a handler sleeping d may take up to d+band),
   [slack] the scheduling slack on the measured Stop duration. *)
Fixpoint maxl (l : list N) : N := match l with [] => 0 | x :: t => N.max x (maxl t) end.

Fixpoint flags_ok (drain band t slack : N) (ok : bool) (ds : list N) (fl : list bool) : bool :=
  match ds, fl with
  | [], [] => true
  | d :: ds', f :: fl' =>
    (if ok then f                                        (* nil result: every request completed *)
     else (if d + band <? drain then f else true)        (* finished before the deadline: completed *)
          && (if t + band <? d then negb f else true))   (* still running when Stop returned: pending *)
    && flags_ok drain band t slack ok ds' fl'
  | _, _ => false
  end.

Definition drain_check (drain gap band slack : N) (ds : list N) (ok : bool) (t : N) (fl : list bool) : bool :=
  let D := maxl ds in
  (if ok
   then (D <=? t) && (t <=? N.min (D + band + gap) drain + slack) && (D <=? drain)
   else (drain <=? t) && (t <=? drain + slack) && (drain <=? D + band + gap))
  && flags_ok drain band t slack ok ds fl.
