(* Goroutine census of internal/finitestate (C18, finitestate leg) on the machine model Fsm.v.
   No proofs here.

   Goroutines started on behalf of a subscription (machine.go, go-fsm v2.3.0 hooks/broadcast/manager.go):
   * the forwarder  `go func(){ defer close(wrappedCh); for s := range userCh { ... } }()`  started by
     finitestate.getStateChanInternal once the current state is in the wrapped channel (label LRead);
     it ends by closing the wrapped channel (LFwdClose) once the manager channel is closed and empty:
       alive  <->  sg = SLive /\ wclosed = false;
   * the manager's cleanup goroutine  `go func(){ <-ctx.Done(); m.unsubscribe(ch); close(ch) }()`  started
     at registration (LSub); it ends with the un-registration (LUnsub): alive <-> unsub = false;
   * during a broadcast, one sender goroutine per registered subscriber (select: send / 5 s timer),
     alive until its send succeeded (LDeliver) or its timer fired (LDrop): they are [pend].
   The census is a function of the model state.

   [quietb]: no internal label (LRead, LDeliver, LDrop, LFwdTake, LFwdPut, LFwdClose, LFwdAbort, LUnsub)
   of any subscriber is enabled - whatever the consumers do or do not do (LRecv / LRecvClosed are the
   consumer's, not internal).  [stableb] is the same without the two timed labels LDrop (5 s broadcast
   timeout) and LFwdAbort (100 ms grace of the repaired forwarder after the cancel): the states in
   which every goroutine is blocked, possibly on a timer, where the harness takes its goroutine dumps.

   The wrapper LTS [gstep] adds, for the correspondence check only: the split of a machine call into
   issue ([GL (LOp o ok)], logged before the call) and return ([GRet ok], possible once the broadcast is
   over) and the census observations [GSnap f c b] (accepted only in a stable state with the model's own
   numbers) and [GQuiet f c b] (the same for a dump taken after every timer had the time to fire, no
   machine call being in flight: accepted only in a quiescent state). *)
From Coq Require Import List NArith Bool.
From GS Require Import LTS Fsm FsmTable.
Import ListNotations.

(* ---- census ---- *)
Definition fwd_alive (x : sub) : bool := match sg x with SLive => negb (wclosed x) | SReg => false end.
Definition cln_alive (x : sub) : bool := negb (unsub x).
Definition open_sub (x : sub) : bool := negb (cancelled x).   (* the subscriber's context is live *)

Definition countb {A} (f : A -> bool) (l : list A) : nat := length (filter f l).

Definition forwarders (s : state) : nat := countb fwd_alive (subs s).
Definition cleaners (s : state) : nat := countb cln_alive (subs s).
Definition senders (s : state) : nat := length (pend s).
Definition census (s : state) : nat := forwarders s + cleaners s + senders s.
Definition open_subs (s : state) : nat := countb open_sub (subs s).

(* ---- quiescence ---- *)
Definition internal_labels (i : nat) : list label :=
  [LRead i; LDeliver i; LDrop i; LFwdTake i; LFwdPut i; LFwdClose i; LFwdAbort i; LUnsub i].
Definition untimed_labels (i : nat) : list label :=
  [LRead i; LDeliver i; LFwdTake i; LFwdPut i; LFwdClose i; LUnsub i].

Definition enabledb (fx : bool) (c : tcfg) (s : state) (l : label) : bool :=
  match stepx fx c s l with Some _ => true | None => false end.

Definition noneb (labels : nat -> list label) (fx : bool) (c : tcfg) (s : state) : bool :=
  forallb (fun i => forallb (fun l => negb (enabledb fx c s l)) (labels i))
          (range 0 (length (subs s))).

Definition quietb := noneb internal_labels.
Definition stableb := noneb untimed_labels.

(* the property's executable predicate on a state: every cancelled subscription's goroutines are gone
   and the forwarders are exactly the open subscriptions *)
Definition clean_subb (x : sub) : bool := negb (cancelled x) || (negb (fwd_alive x) && negb (cln_alive x)).
Definition c18_okb (s : state) : bool :=
  forallb clean_subb (subs s) && Nat.eqb (forwarders s) (open_subs s) && Nat.eqb (cleaners s) (open_subs s)
  && Nat.eqb (senders s) 0.

(* ---- wrapper LTS for the correspondence check ---- *)
Record gstate := mkG { gm : state; gcall : option bool }.

Inductive glabel :=
| GL (l : label)
| GRet (ok : bool)
| GSnap (f c b : nat)
| GQuiet (f c b : nat).

Inductive gevent :=
| GEOp (o : op)            (* the director issues a machine call (logged before the call) *)
| GERet (ok : bool)        (* the call returned *)
| GESub                    (* GetStateChan called *)
| GERead (i : nat)         (* ... returned: subscriber i *)
| GECancel (i : nat)
| GERecv (i : nat) (v : st)
| GERecvClosed (i : nat)
| GESnap (f c b : nat)     (* goroutine dump with every goroutine blocked: forwarders, cleanups, senders *)
| GEQuiet (f c b : nat).   (* ... taken after a pause longer than every timer that can be pending *)

Definition ginit : gstate := mkG init None.

Definition lift (g : gstate) (o : option state) (call : option bool) : option gstate :=
  match o with Some m => Some (mkG m call) | None => None end.

Definition gstep (fx : bool) (c : tcfg) (g : gstate) (l : glabel) : option gstate :=
  match l with
  | GL (LOp o ok) =>
    match gcall g with
    | None => lift g (stepx fx c (gm g) (LOp o ok)) (Some ok)
    | Some _ => None
    end
  | GL ml => lift g (stepx fx c (gm g) ml) (gcall g)
  | GRet ok =>
    match gcall g with
    | Some b => if Bool.eqb b ok && is_nil (pend (gm g)) then Some (mkG (gm g) None) else None
    | None => None
    end
  | GSnap f cl b =>
    if stableb fx c (gm g)
       && negb (match gcall g with Some _ => is_nil (pend (gm g)) | None => false end)
       && Nat.eqb f (forwarders (gm g)) && Nat.eqb cl (cleaners (gm g)) && Nat.eqb b (senders (gm g))
    then Some g else None
  | GQuiet f cl b =>
    if quietb fx c (gm g) && match gcall g with None => true | Some _ => false end
       && Nat.eqb f (forwarders (gm g)) && Nat.eqb cl (cleaners (gm g)) && Nat.eqb b (senders (gm g))
    then Some g else None
  end.

Fixpoint erase (ls : list glabel) : list label :=
  match ls with
  | [] => []
  | GL l :: t => l :: erase t
  | _ :: t => erase t
  end.

Definition gobs (l : glabel) : option gevent :=
  match l with
  | GL (LOp o _) => Some (GEOp o)
  | GL LSub => Some GESub
  | GL (LRead i) => Some (GERead i)
  | GL (LCancel i) => Some (GECancel i)
  | GL (LRecv i v) => Some (GERecv i v)
  | GL (LRecvClosed i) => Some (GERecvClosed i)
  | GL _ => None
  | GRet ok => Some (GERet ok)
  | GSnap f c b => Some (GESnap f c b)
  | GQuiet f c b => Some (GEQuiet f c b)
  end.

(* candidate internal labels: only for subscriptions that are not dead (a dead one - un-registered,
   wrapped channel closed - has no internal step left); only a candidate generator, the acceptor's
   soundness does not depend on it *)
Fixpoint undead_from (k : nat) (l : list sub) : list nat :=
  match l with
  | [] => []
  | x :: t => if wclosed x && unsub x then undead_from (S k) t else k :: undead_from (S k) t
  end.

Definition gtaus (g : gstate) : list glabel :=
  flat_map (fun i => map GL [LDeliver i; LDrop i; LFwdTake i; LFwdPut i; LFwdClose i; LFwdAbort i; LUnsub i])
           (undead_from 0 (subs (gm g))).

Definition gvis (_ : gstate) (e : gevent) : list glabel :=
  match e with
  | GEOp o => [GL (LOp o true); GL (LOp o false)]
  | GERet ok => [GRet ok]
  | GESub => [GL LSub]
  | GERead i => [GL (LRead i)]
  | GECancel i => [GL (LCancel i)]
  | GERecv i v => [GL (LRecv i v)]
  | GERecvClosed i => [GL (LRecvClosed i)]
  | GESnap f c b => [GSnap f c b]
  | GEQuiet f c b => [GQuiet f c b]
  end.

Definition op_eqb (a b : op) : bool :=
  match a, b with
  | OTrans x, OTrans y => st_eqb x y
  | OTransIf f x, OTransIf g y => st_eqb f g && st_eqb x y
  | OSet x, OSet y => st_eqb x y
  | _, _ => false
  end.

Definition gevent_eqb (a b : gevent) : bool :=
  match a, b with
  | GEOp x, GEOp y => op_eqb x y
  | GERet x, GERet y => Bool.eqb x y
  | GESub, GESub => true
  | GERead i, GERead j | GECancel i, GECancel j | GERecvClosed i, GERecvClosed j => Nat.eqb i j
  | GERecv i v, GERecv j w => Nat.eqb i j && st_eqb v w
  | GESnap f c b, GESnap f' c' b' | GEQuiet f c b, GEQuiet f' c' b' =>
    Nat.eqb f f' && Nat.eqb c c' && Nat.eqb b b'
  | _, _ => false
  end.

Definition kb (b : bool) : N := if b then 1%N else 0%N.
Definition kst (l : list st) : N := match l with [] => 9%N | v :: _ => st_code v end.
(* dedup key of a subscriber: the ghost fields and [dropped] influence no step; once the subscription is
   dead (un-registered, wrapped channel closed) only what the consumer can still see does *)
Definition ksub (x : sub) : list N :=
  if wclosed x && unsub x
  then [7; kst (wch x); kb (gotclosed x); N.of_nat (length (got x))]%N
  else
  [match sg x with SReg => 0 | SLive => 1 end; kst (bch x); kb (bclosed x);
   match hand x with None => 9 | Some v => st_code v end; kst (wch x); kb (wclosed x);
   kb (cancelled x); kb (unsub x); kb (gotclosed x); N.of_nat (length (got x))]%N.
Definition gkey (g : gstate) : list N :=
  [st_code (cur (gm g)); N.of_nat (length (hist (gm g)));
   match gcall g with None => 0 | Some false => 1 | Some true => 2 end; N.of_nat (length (pend (gm g)))]%N
  ++ map N.of_nat (pend (gm g)) ++ flat_map ksub (subs (gm g)).

Definition gaccept (fuel : nat) (t : list gevent) : list gstate * bool :=
  LTS.accept_from gstate glabel gevent (gstep fix_fwd fsm_cfg) gobs gtaus gvis gevent_eqb gkey fuel [ginit] t.
Definition gaccepted_prefix (fuel : nat) (t : list gevent) : nat :=
  LTS.accept_depth gstate glabel gevent (gstep fix_fwd fsm_cfg) gobs gtaus gvis gevent_eqb gkey fuel [ginit] t.

(* used by the driver on the states the acceptor returns *)
Definition g_quiet (g : gstate) : bool := quietb fix_fwd fsm_cfg (gm g).
Definition g_c18_ok (g : gstate) : bool := c18_okb (gm g).
