(* The three bundled runners (composite, httpserver, httpcluster) reduced to their sequences of
   machine calls (Transition / TransitionIfCurrentState / SetState(Error)) and return values,
   composed with the machine model of Fsm.v.  No proofs here.

   A runner is a finite control [ctl] with labels [cl]; [cstep c l cur] says whether label [l] is
   enabled in control state [c] (the machine currently being in [cur]), which machine call it
   performs (at most one, atomically) and how the control continues depending on the call's
   outcome.  Environment actions (Run/Stop/Reload calls and returns, context cancel, injected
   failures, config callback results) are visible labels; everything else is internal.
   Calls that may block before taking effect (Reload on the reload mutex, a send on the cluster's
   config siphon) are split into a visible "call" label that adds a token and an internal
   "begin" label that consumes one; returns are split likewise (internal "done" adds a token,
   visible "ret" consumes it), so that a log written before the call / after the return is
   always a linearisation the model can follow. *)
From Coq Require Import List NArith Bool.
From GS Require Import LTS Fsm FsmTable.
Import ListNotations.

Inductive tokact := TNone | TIncA | TDecA | TIncB | TDecB.

Section Product.
  Variable cfg : tcfg.
  Variables ctl cl : Type.
  Variable cstep : ctl -> cl -> st -> option (option op * (bool -> ctl)).
  Variable ctok : cl -> tokact.

  Inductive rlabel := RM (l : label) | RC (l : cl).
  Record rstate := mkR { rm : state; rc : ctl; rtokA : nat; rtokB : nat }.

  Definition tok_apply (a : tokact) (ta tb : nat) : option (nat * nat) :=
    match a with
    | TNone => Some (ta, tb)
    | TIncA => Some (S ta, tb)
    | TDecA => match ta with O => None | S n => Some (n, tb) end
    | TIncB => Some (ta, S tb)
    | TDecB => match tb with O => None | S n => Some (ta, n) end
    end.

  Definition op_okb (cur : st) (o : op) : bool :=
    match op_result cfg cur o with Some _ => true | None => false end.

  Definition rstep (s : rstate) (l : rlabel) : option rstate :=
    match l with
    | RM (LOp _ _) => None
    | RM ml => match step cfg (rm s) ml with
               | Some m' => Some (mkR m' (rc s) (rtokA s) (rtokB s))
               | None => None
               end
    | RC c =>
      match cstep (rc s) c (cur (rm s)) with
      | None => None
      | Some (oo, k) =>
        match tok_apply (ctok c) (rtokA s) (rtokB s) with
        | None => None
        | Some (ta, tb) =>
          match oo with
          | None => Some (mkR (rm s) (k true) ta tb)
          | Some o =>
            let ok := op_okb (cur (rm s)) o in
            match step cfg (rm s) (LOp o ok) with
            | Some m' => Some (mkR m' (k ok) ta tb)
            | None => None
            end
          end
        end
      end
    end.

  (* the finite abstraction: control + current machine state, tokens and the broadcast lock dropped *)
  Definition astep (x : ctl * st) (c : cl) : option (ctl * st) :=
    match cstep (fst x) c (snd x) with
    | None => None
    | Some (None, k) => Some (k true, snd x)
    | Some (Some o, k) =>
      match op_result cfg (snd x) o with
      | Some to => Some (k true, to)
      | None => Some (k false, snd x)
      end
    end.

  Definition rinit (c0 : ctl) : rstate := mkR init c0 0 0.

  (* ---- acceptor plumbing: events are code lists ---- *)
  Variable cvis : cl -> bool.
  Variable ccode : cl -> list N.
  Variable cdecode : list N -> option cl.
  Variable ctaus : list cl.
  Variable ckey : ctl -> list N.

  Definition bN (b : bool) : N := if b then 1%N else 0%N.
  Definition nN (n : nat) : N := N.of_nat n.

  Definition mvis (l : label) : bool :=
    match l with
    | LSub | LRead _ | LCancel _ | LRecv _ _ | LRecvClosed _ | LGet _ | LIsRun _ => true
    | _ => false
    end.

  Definition mcode (l : label) : list N :=
    match l with
    | LSub => [1]
    | LRead i => [2; nN i]
    | LCancel i => [3; nN i]
    | LRecv i v => [4; nN i; st_code v]
    | LRecvClosed i => [5; nN i]
    | LGet v => [6; st_code v]
    | LIsRun b => [7; bN b]
    | _ => [99]
    end%N.

  Definition st_of_code (n : N) : option st :=
    find (fun s => N.eqb (st_code s) n) all_st.

  Definition mdecode (e : list N) : option label :=
    match e with
    | [1] => Some LSub
    | [2; i] => Some (LRead (N.to_nat i))
    | [3; i] => Some (LCancel (N.to_nat i))
    | [4; i; v] => match st_of_code v with Some s => Some (LRecv (N.to_nat i) s) | None => None end
    | [5; i] => Some (LRecvClosed (N.to_nat i))
    | [6; v] => match st_of_code v with Some s => Some (LGet s) | None => None end
    | [7; b] => Some (LIsRun (negb (N.eqb b 0)))
    | _ => None
    end%N.

  Definition robs (l : rlabel) : option (list N) :=
    match l with
    | RM ml => if mvis ml then Some (0%N :: mcode ml) else None
    | RC c => if cvis c then Some (1%N :: ccode c) else None
    end.

  Definition rvis (_ : rstate) (e : list N) : list rlabel :=
    match e with
    | 0%N :: t => match mdecode t with Some l => [RM l] | None => [] end
    | 1%N :: t => match cdecode t with Some c => [RC c] | None => [] end
    | _ => []
    end.

  Definition sub_taus (i : nat) : list rlabel :=
    [RM (LDeliver i); RM (LFwdTake i); RM (LFwdPut i); RM (LFwdClose i); RM (LUnsub i);
     RM (LFwdAbort i)].

  Definition rtaus (s : rstate) : list rlabel :=
    map RC ctaus ++ flat_map sub_taus (range 0 (length (subs (rm s)))).

  Fixpoint event_eqb (a b : list N) : bool :=
    match a, b with
    | [], [] => true
    | x :: a', y :: b' => N.eqb x y && event_eqb a' b'
    | _, _ => false
    end.

  Definition sub_key (x : sub) : list N :=
    [match sg x with SReg => 0 | SLive => 1 end;
     match bch x with [] => 9 | v :: _ => st_code v end; bN (bclosed x);
     match hand x with None => 9 | Some v => st_code v end;
     match wch x with [] => 9 | v :: _ => st_code v end; bN (wclosed x);
     bN (cancelled x); bN (unsub x); bN (dropped x); bN (gotclosed x); nN (length (got x))]%N.

  Definition rkey (s : rstate) : list N :=
    ckey (rc s) ++ [st_code (cur (rm s)); nN (rtokA s); nN (rtokB s); nN (length (hist (rm s)));
                    nN (length (pend (rm s)))]
    ++ map nN (pend (rm s)) ++ flat_map sub_key (subs (rm s)).

  (* states compatible with the trace, whether every closure had enough fuel, events consumed *)
  Definition raccept (fuel : nat) (s0 : rstate) (t : list (list N)) : list rstate * bool * nat :=
    (accept_from rstate rlabel (list N) rstep robs rtaus rvis event_eqb rkey fuel [s0] t,
     accept_depth rstate rlabel (list N) rstep robs rtaus rvis event_eqb rkey fuel [s0] t).
End Product.

Arguments RM {cl} l.
Arguments RC {cl} l.
Arguments rm {ctl} r.
Arguments rc {ctl} r.
Arguments rtokA {ctl} r.
Arguments rtokB {ctl} r.

(* the reference subscriber of the correspondence runs: registered and read before anything else *)
Definition with_ref {ctl} (c0 : ctl) : rstate ctl :=
  let m1 := match step fsm_cfg init LSub with Some m => m | None => init end in
  let m2 := match step fsm_cfg m1 (LRead 0) with Some m => m | None => m1 end in
  mkR ctl m2 c0 0 0.

Definition ret {A} (o : option op) (k : bool -> A) : option (option op * (bool -> A)) := Some (o, k).
Definition SetErr : op := OSet Error.

(* ================================================================== *)
(* composite.Runner                                                    *)

Inductive cpc :=
| CP0 | CPCalled | CPBooting | CPBooted | CPSelect | CPDown0 | CPDown1 | CPDown2 | CPFail
| CPRet (nil : bool) | CPDone (nil : bool) (at_ret : st).
Inductive crl := CRIdle | CRStart | CRFail | CRCb | CRApply | CRBack | CREnd.

Record cctl := mkC {
  c_run : cpc; c_rl : crl;
  c_stop : bool; c_cancel : bool; c_child : bool;
  c_late : bool    (* ghost: a reload's failure handler ran between Run's Stopped transition and its return *)
}.

Inductive ccl :=
(* visible *)
| CRunCall | CRunRet (nil : bool) | CStopCall | CStopRet | CCancel | CChildFail
| CReloadCall | CReloadRet | CCb (ok : bool)
(* internal: Run *)
| CTBooting | CTRunning | CSelCancel | CSelStop | CSelChild | CTStopping
| CStopAllOk | CStopAllFail | CTStopped | CSetErr
(* internal: Reload *)
| CRlBegin | CRlT | CRlSetErr | CRlApplyOk | CRlApplyFail | CRlTRunning | CRlDone.

Definition c_set_run (c : cctl) (p : cpc) : cctl :=
  mkC p (c_rl c) (c_stop c) (c_cancel c) (c_child c) (c_late c).
Definition c_set_rl (c : cctl) (p : crl) : cctl :=
  mkC (c_run c) p (c_stop c) (c_cancel c) (c_child c) (c_late c).

Definition is_ret_nil (p : cpc) : bool := match p with CPRet true => true | _ => false end.

(* Two switches.
   [composite_teardown_serialized] (/repo 82de565, in the repository): Run's stopAllRunnables takes
   reloadMu, i.e. waits for a Reload in flight ([CStopAllOk]/[CStopAllFail] need the reload thread idle).
   [composite_run_excludes_reload] (candidate repair hooks/candidate-fix-c08-b-*.patch, NOT in the
   repository): Run keeps reloadMu from there until it has returned, so no Reload can begin while Run
   is between its teardown and its return.  [composite_step] is the variant the theorems and the
   correspondence runs are about. *)
Definition composite_teardown_serialized : bool := true.
Definition composite_run_excludes_reload : bool := false.
Definition c_rl_idle (c : cctl) : bool := match c_rl c with CRIdle => true | _ => false end.
Definition c_run_holds_reloadmu (c : cctl) : bool :=
  match c_run c with CPDown2 | CPRet true => true | _ => false end.

Definition composite_stepx (ts fb : bool) (c : cctl) (l : ccl) (cur : st)
  : option (option op * (bool -> cctl)) :=
  match l with
  | CRunCall => match c_run c with CP0 => ret None (fun _ => c_set_run c CPCalled) | _ => None end
  | CTBooting =>       (* Run: Transition(Booting); failure returns the error without touching the state *)
    match c_run c with
    | CPCalled => ret (Some (OTrans Booting))
                      (fun ok => c_set_run c (if ok then CPBooting else CPRet false))
    | _ => None
    end
  | CCb ok =>          (* the config callback: first getConfig() in boot, or Reload *)
    match c_run c, c_rl c with
    | CPBooting, _ => ret None (fun _ => c_set_run c (if ok then CPBooted else CPFail))
    | _, CRCb => ret None (fun _ => c_set_rl c (if ok then CRApply else CRFail))
    | _, _ => None
    end
  | CTRunning =>
    match c_run c with
    | CPBooted => ret (Some (OTrans Running)) (fun ok => c_set_run c (if ok then CPSelect else CPFail))
    | _ => None
    end
  | CSelCancel =>
    match c_run c with
    | CPSelect => if c_cancel c then ret None (fun _ => c_set_run c CPDown0) else None
    | _ => None
    end
  | CSelStop =>
    match c_run c with
    | CPSelect => if c_stop c then ret None (fun _ => c_set_run c CPDown0) else None
    | _ => None
    end
  | CSelChild =>       (* case err := <-serverErrors: setStateError; stopAll; return err *)
    match c_run c with
    | CPSelect => if c_child c then ret (Some SetErr) (fun _ => c_set_run c (CPRet false)) else None
    | _ => None
    end
  | CTStopping =>      (* TransitionIfCurrentState(Running, Stopping): failure only logged *)
    match c_run c with
    | CPDown0 => ret (Some (OTransIf Running Stopping)) (fun _ => c_set_run c CPDown1)
    | _ => None
    end
  | CStopAllOk =>
    match c_run c with
    | CPDown1 => if negb ts || c_rl_idle c then ret None (fun _ => c_set_run c CPDown2) else None
    | _ => None
    end
  | CStopAllFail =>
    match c_run c with
    | CPDown1 => if negb ts || c_rl_idle c then ret None (fun _ => c_set_run c CPFail) else None
    | _ => None
    end
  | CTStopped =>
    match c_run c with
    | CPDown2 => ret (Some (OTrans Stopped)) (fun ok => c_set_run c (if ok then CPRet true else CPFail))
    | _ => None
    end
  | CSetErr =>
    match c_run c with
    | CPFail => ret (Some SetErr) (fun _ => c_set_run c (CPRet false))
    | _ => None
    end
  | CRunRet b =>
    match c_run c with
    | CPRet b' => if Bool.eqb b b' then ret None (fun _ => c_set_run c (CPDone b cur)) else None
    | _ => None
    end
  | CStopCall => ret None (fun _ => mkC (c_run c) (c_rl c) true (c_cancel c) (c_child c) (c_late c))
  | CStopRet =>        (* Stop() returns once Run's deferred done() ran: at or after Run's return *)
    match c_run c with CPRet _ | CPDone _ _ => ret None (fun _ => c) | _ => None end
  | CCancel => ret None (fun _ => mkC (c_run c) (c_rl c) (c_stop c) true (c_child c) (c_late c))
  | CChildFail => ret None (fun _ => mkC (c_run c) (c_rl c) (c_stop c) (c_cancel c) true (c_late c))
  | CReloadCall => ret None (fun _ => c)
  | CReloadRet => ret None (fun _ => c)
  | CRlBegin =>        (* reloadMu.Lock() *)
    match c_rl c with
    | CRIdle => if fb && c_run_holds_reloadmu c then None else ret None (fun _ => c_set_rl c CRStart)
    | _ => None
    end
  | CRlT =>
    match c_rl c with
    | CRStart => ret (Some (OTrans Reloading)) (fun ok => c_set_rl c (if ok then CRCb else CRFail))
    | _ => None
    end
  | CRlSetErr =>       (* setStateError; return *)
    match c_rl c with
    | CRFail => ret (Some SetErr)
                    (fun _ => mkC (c_run c) CREnd (c_stop c) (c_cancel c) (c_child c)
                                  (c_late c || is_ret_nil (c_run c)))
    | _ => None
    end
  | CRlApplyOk => match c_rl c with CRApply => ret None (fun _ => c_set_rl c CRBack) | _ => None end
  | CRlApplyFail => match c_rl c with CRApply => ret None (fun _ => c_set_rl c CRFail) | _ => None end
  | CRlTRunning =>
    match c_rl c with
    | CRBack => ret (Some (OTrans Running)) (fun ok => c_set_rl c (if ok then CREnd else CRFail))
    | _ => None
    end
  | CRlDone => match c_rl c with CREnd => ret None (fun _ => c_set_rl c CRIdle) | _ => None end
  end.

Definition composite_step := composite_stepx composite_teardown_serialized composite_run_excludes_reload.

Definition composite_tok (l : ccl) : tokact :=
  match l with
  | CReloadCall => TIncA | CRlBegin => TDecA
  | CRlDone => TIncB | CReloadRet => TDecB
  | _ => TNone
  end.

Definition composite_init : cctl := mkC CP0 CRIdle false false false false.

Definition composite_vis (l : ccl) : bool :=
  match l with
  | CRunCall | CRunRet _ | CStopCall | CStopRet | CCancel | CChildFail
  | CReloadCall | CReloadRet | CCb _ => true
  | _ => false
  end.

Definition composite_code (l : ccl) : list N :=
  match l with
  | CRunCall => [1] | CRunRet b => [2; if b then 1 else 0] | CStopCall => [3] | CStopRet => [4]
  | CCancel => [5] | CChildFail => [6] | CReloadCall => [7] | CReloadRet => [8]
  | CCb b => [9; if b then 1 else 0]
  | _ => [99]
  end%N.

Definition composite_decode (e : list N) : option ccl :=
  match e with
  | [1] => Some CRunCall | [2; b] => Some (CRunRet (negb (N.eqb b 0))) | [3] => Some CStopCall
  | [4] => Some CStopRet | [5] => Some CCancel | [6] => Some CChildFail | [7] => Some CReloadCall
  | [8] => Some CReloadRet | [9; b] => Some (CCb (negb (N.eqb b 0)))
  | _ => None
  end%N.

Definition composite_taus : list ccl :=
  [CTBooting; CTRunning; CSelCancel; CSelStop; CSelChild; CTStopping; CStopAllOk; CStopAllFail;
   CTStopped; CSetErr; CRlBegin; CRlT; CRlSetErr; CRlApplyOk; CRlApplyFail; CRlTRunning; CRlDone].

Definition composite_labels : list ccl :=
  [CRunCall; CRunRet true; CRunRet false; CStopCall; CStopRet; CCancel; CChildFail; CReloadCall;
   CReloadRet; CCb true; CCb false] ++ composite_taus.

Definition cpc_code (p : cpc) : list N :=
  match p with
  | CP0 => [0] | CPCalled => [1] | CPBooting => [2] | CPBooted => [3] | CPSelect => [4]
  | CPDown0 => [5] | CPDown1 => [6] | CPDown2 => [7] | CPFail => [8]
  | CPRet b => [9; if b then 1 else 0] | CPDone b s => [10; if b then 1 else 0; st_code s]
  end%N.

Definition crl_code (p : crl) : N :=
  match p with CRIdle => 0 | CRStart => 1 | CRFail => 2 | CRCb => 3 | CRApply => 4 | CRBack => 5 | CREnd => 6 end%N.

Definition composite_key (c : cctl) : list N :=
  cpc_code (c_run c) ++ [crl_code (c_rl c); if c_stop c then 1 else 0; if c_cancel c then 1 else 0;
                         if c_child c then 1 else 0; if c_late c then 1 else 0]%N.

(* ================================================================== *)
(* httpserver.Runner                                                   *)
(* r.mutex is held by Reload from its first statement to its return, and by Run around boot() and
   from the Stopping transition to the end of stopServer().  boot() performs no machine call, so it
   is one label enabled only while no Reload is in flight.  shutdown() (since /repo a31573a) takes
   the mutex BEFORE Transition(Stopping) and keeps it across stopServer(): [HTStopping] needs the
   mutex free (no Reload in flight) and no Reload can begin while Run is at [HPDown1]; the final
   Transition(Stopped) is outside the mutex.  Legacy code (before a31573a) did Transition(Stopping)
   outside the mutex: [http_stepx false]; [http_stop_locked] says which variant [http_step] - the one
   the theorems and the correspondence runs are about - is.
   setStateError = TransitionBool(Error), and SetState(Error) only if that fails. *)

Inductive hpc :=
| HP0 | HPCalled | HPBoot | HPBooted | HPSelect | HPDown0 | HPDown1 | HPDown2 | HPErrT | HPErrS
| HPRet (nil : bool) | HPDone (nil : bool) (at_ret : st).
Inductive hrl := HRIdle | HRStart | HRCfg | HRLoaded | HRRestart | HRBack | HRErrT | HRErrS | HREnd.

Record hctl := mkH { h_run : hpc; h_rl : hrl; h_stop : bool; h_cancel : bool; h_srv : bool }.

Inductive hcl :=
| HRunCall | HRunRet (nil : bool) | HStopCall | HStopRet | HCancel | HSrvFail
| HReloadCall | HReloadRet | HCb (ok : bool)
| HTBooting | HBootOk | HBootFail | HTRunning | HSelCancel | HSelStop | HSelSrv | HTStopping
| HStopSrvOk | HStopSrvFail | HTStopped | HErrT | HErrS
| HRlBegin | HRlT | HRlSame | HRlNew | HRlRestartOk | HRlRestartFail | HRlTRunning
| HRlErrT | HRlErrS | HRlDone.

Definition h_set_run (c : hctl) (p : hpc) : hctl := mkH p (h_rl c) (h_stop c) (h_cancel c) (h_srv c).
Definition h_set_rl (c : hctl) (p : hrl) : hctl := mkH (h_run c) p (h_stop c) (h_cancel c) (h_srv c).
Definition h_mu_free (c : hctl) : bool := match h_rl c with HRIdle => true | _ => false end.

Definition http_stop_locked : bool := true.
Definition h_run_holds_mu (c : hctl) : bool := match h_run c with HPDown1 => true | _ => false end.

Definition http_stepx (fx : bool) (c : hctl) (l : hcl) (cur : st) : option (option op * (bool -> hctl)) :=
  match l with
  | HRunCall => match h_run c with HP0 => ret None (fun _ => h_set_run c HPCalled) | _ => None end
  | HTBooting =>
    match h_run c with
    | HPCalled => ret (Some (OTrans Booting)) (fun ok => h_set_run c (if ok then HPBoot else HPRet false))
    | _ => None
    end
  | HBootOk =>
    match h_run c with
    | HPBoot => if h_mu_free c then ret None (fun _ => h_set_run c HPBooted) else None
    | _ => None
    end
  | HBootFail =>
    match h_run c with
    | HPBoot => if h_mu_free c then ret None (fun _ => h_set_run c HPErrT) else None
    | _ => None
    end
  | HTRunning =>
    match h_run c with
    | HPBooted => ret (Some (OTrans Running)) (fun ok => h_set_run c (if ok then HPSelect else HPErrT))
    | _ => None
    end
  | HSelCancel =>
    match h_run c with
    | HPSelect => if h_cancel c then ret None (fun _ => h_set_run c HPDown0) else None
    | _ => None
    end
  | HSelStop =>
    match h_run c with
    | HPSelect => if h_stop c then ret None (fun _ => h_set_run c HPDown0) else None
    | _ => None
    end
  | HSelSrv =>         (* case err := <-serverErrors: an injected failure of the running server, or the
                          ListenAndServe error of the server a Reload is booting (Run's select and the
                          reload's readiness probe both receive from serverErrors) *)
    match h_run c with
    | HPSelect => if h_srv c || (match h_rl c with HRRestart => true | _ => false end)
                  then ret None (fun _ => h_set_run c HPErrT) else None
    | _ => None
    end
  | HTStopping =>      (* shutdown: [mutex.Lock();] Transition(Stopping), failure only logged *)
    match h_run c with
    | HPDown0 => if negb fx || h_mu_free c
                 then ret (Some (OTrans Stopping)) (fun _ => h_set_run c HPDown1) else None
    | _ => None
    end
  | HStopSrvOk =>
    match h_run c with
    | HPDown1 => if h_mu_free c then ret None (fun _ => h_set_run c HPDown2) else None
    | _ => None
    end
  | HStopSrvFail =>
    match h_run c with
    | HPDown1 => if h_mu_free c then ret None (fun _ => h_set_run c HPErrT) else None
    | _ => None
    end
  | HTStopped =>
    match h_run c with
    | HPDown2 => ret (Some (OTrans Stopped)) (fun ok => h_set_run c (if ok then HPRet true else HPErrT))
    | _ => None
    end
  | HErrT =>
    match h_run c with
    | HPErrT => ret (Some (OTrans Error)) (fun ok => h_set_run c (if ok then HPRet false else HPErrS))
    | _ => None
    end
  | HErrS =>
    match h_run c with
    | HPErrS => ret (Some SetErr) (fun _ => h_set_run c (HPRet false))
    | _ => None
    end
  | HRunRet b =>
    match h_run c with
    | HPRet b' => if Bool.eqb b b' then ret None (fun _ => h_set_run c (HPDone b cur)) else None
    | _ => None
    end
  | HStopCall => ret None (fun _ => mkH (h_run c) (h_rl c) true (h_cancel c) (h_srv c))
  | HStopRet => match h_run c with HPRet _ | HPDone _ _ => ret None (fun _ => c) | _ => None end
  | HCancel => ret None (fun _ => mkH (h_run c) (h_rl c) (h_stop c) true (h_srv c))
  | HSrvFail => ret None (fun _ => mkH (h_run c) (h_rl c) (h_stop c) (h_cancel c) true)
  | HReloadCall => ret None (fun _ => c)
  | HReloadRet => ret None (fun _ => c)
  | HRlBegin =>        (* r.mutex.Lock() *)
    match h_rl c with
    | HRIdle => if fx && h_run_holds_mu c then None else ret None (fun _ => h_set_rl c HRStart)
    | _ => None
    end
  | HRlT =>            (* failure: logged, return (no state change) *)
    match h_rl c with
    | HRStart => ret (Some (OTrans Reloading)) (fun ok => h_set_rl c (if ok then HRCfg else HREnd))
    | _ => None
    end
  | HCb ok =>
    match h_rl c with
    | HRCfg => ret None (fun _ => h_set_rl c (if ok then HRLoaded else HRErrT))
    | _ => None
    end
  | HRlSame => match h_rl c with HRLoaded => ret None (fun _ => h_set_rl c HRBack) | _ => None end
  | HRlNew => match h_rl c with HRLoaded => ret None (fun _ => h_set_rl c HRRestart) | _ => None end
  | HRlRestartOk => match h_rl c with HRRestart => ret None (fun _ => h_set_rl c HRBack) | _ => None end
  | HRlRestartFail => match h_rl c with HRRestart => ret None (fun _ => h_set_rl c HRErrT) | _ => None end
  | HRlTRunning =>
    match h_rl c with
    | HRBack => ret (Some (OTrans Running)) (fun ok => h_set_rl c (if ok then HREnd else HRErrT))
    | _ => None
    end
  | HRlErrT =>
    match h_rl c with
    | HRErrT => ret (Some (OTrans Error)) (fun ok => h_set_rl c (if ok then HREnd else HRErrS))
    | _ => None
    end
  | HRlErrS => match h_rl c with HRErrS => ret (Some SetErr) (fun _ => h_set_rl c HREnd) | _ => None end
  | HRlDone => match h_rl c with HREnd => ret None (fun _ => h_set_rl c HRIdle) | _ => None end
  end.

Definition http_step := http_stepx http_stop_locked.

Definition http_tok (l : hcl) : tokact :=
  match l with
  | HReloadCall => TIncA | HRlBegin => TDecA | HRlDone => TIncB | HReloadRet => TDecB
  | _ => TNone
  end.

Definition http_init : hctl := mkH HP0 HRIdle false false false.

Definition http_vis (l : hcl) : bool :=
  match l with
  | HRunCall | HRunRet _ | HStopCall | HStopRet | HCancel | HSrvFail
  | HReloadCall | HReloadRet | HCb _ => true
  | _ => false
  end.

Definition http_code (l : hcl) : list N :=
  match l with
  | HRunCall => [1] | HRunRet b => [2; if b then 1 else 0] | HStopCall => [3] | HStopRet => [4]
  | HCancel => [5] | HSrvFail => [6] | HReloadCall => [7] | HReloadRet => [8]
  | HCb b => [9; if b then 1 else 0]
  | _ => [99]
  end%N.

Definition http_decode (e : list N) : option hcl :=
  match e with
  | [1] => Some HRunCall | [2; b] => Some (HRunRet (negb (N.eqb b 0))) | [3] => Some HStopCall
  | [4] => Some HStopRet | [5] => Some HCancel | [6] => Some HSrvFail | [7] => Some HReloadCall
  | [8] => Some HReloadRet | [9; b] => Some (HCb (negb (N.eqb b 0)))
  | _ => None
  end%N.

Definition http_taus : list hcl :=
  [HTBooting; HBootOk; HBootFail; HTRunning; HSelCancel; HSelStop; HSelSrv; HTStopping;
   HStopSrvOk; HStopSrvFail; HTStopped; HErrT; HErrS;
   HRlBegin; HRlT; HRlSame; HRlNew; HRlRestartOk; HRlRestartFail; HRlTRunning;
   HRlErrT; HRlErrS; HRlDone].

Definition http_labels : list hcl :=
  [HRunCall; HRunRet true; HRunRet false; HStopCall; HStopRet; HCancel; HSrvFail; HReloadCall;
   HReloadRet; HCb true; HCb false] ++ http_taus.

Definition hpc_code (p : hpc) : list N :=
  match p with
  | HP0 => [0] | HPCalled => [1] | HPBoot => [2] | HPBooted => [3] | HPSelect => [4]
  | HPDown0 => [5] | HPDown1 => [6] | HPDown2 => [7] | HPErrT => [8] | HPErrS => [9]
  | HPRet b => [10; if b then 1 else 0] | HPDone b s => [11; if b then 1 else 0; st_code s]
  end%N.

Definition hrl_code (p : hrl) : N :=
  match p with
  | HRIdle => 0 | HRStart => 1 | HRCfg => 2 | HRLoaded => 3 | HRRestart => 4 | HRBack => 5
  | HRErrT => 6 | HRErrS => 7 | HREnd => 8
  end%N.

Definition http_key (c : hctl) : list N :=
  hpc_code (h_run c) ++ [hrl_code (h_rl c); if h_stop c then 1 else 0; if h_cancel c then 1 else 0;
                         if h_srv c then 1 else 0]%N.

(* ================================================================== *)
(* httpcluster.Runner: every machine call is made by the Run goroutine itself               *)

Inductive kpc :=
| KP0 | KPCalled | KPBooted | KPLoop | KPCheck | KPRl0 | KPApply | KPBack
| KPErrT (loop : bool) | KPErrS (loop : bool)      (* setStateError; then back to the loop / return err *)
| KPDown0 | KPDown1 | KPDown2
| KPRet (nil : bool) | KPDone (nil : bool) (at_ret : st).

Record kctl := mkK { k_run : kpc; k_stop : bool; k_cancel : bool }.

Inductive kcl :=
| KRunCall | KRunRet (nil : bool) | KStopCall | KStopRet | KCancel | KCfgSend
| KTBooting | KTRunning | KRecv | KIsRunning | KTReloading | KApplied | KTBack
| KErrT | KErrS | KSelStop | KSelCancel | KTStopping | KStopAll | KTStopped.

Definition k_set_run (c : kctl) (p : kpc) : kctl := mkK p (k_stop c) (k_cancel c).

Definition cluster_step (c : kctl) (l : kcl) (cur : st) : option (option op * (bool -> kctl)) :=
  match l with
  | KRunCall => match k_run c with KP0 => ret None (fun _ => k_set_run c KPCalled) | _ => None end
  | KTBooting =>
    match k_run c with
    | KPCalled => ret (Some (OTrans Booting)) (fun ok => k_set_run c (if ok then KPBooted else KPErrT false))
    | _ => None
    end
  | KTRunning =>
    match k_run c with
    | KPBooted => ret (Some (OTrans Running)) (fun ok => k_set_run c (if ok then KPLoop else KPErrT false))
    | _ => None
    end
  | KRecv => match k_run c with KPLoop => ret None (fun _ => k_set_run c KPCheck) | _ => None end
  | KIsRunning =>      (* processConfigUpdate: if !IsRunning() { ignore } *)
    match k_run c with
    | KPCheck => ret None (fun _ => k_set_run c (if st_eqb cur Running then KPRl0 else KPLoop))
    | _ => None
    end
  | KTReloading =>
    match k_run c with
    | KPRl0 => ret (Some (OTrans Reloading)) (fun ok => k_set_run c (if ok then KPApply else KPLoop))
    | _ => None
    end
  | KApplied => match k_run c with KPApply => ret None (fun _ => k_set_run c KPBack) | _ => None end
  | KTBack =>
    match k_run c with
    | KPBack => ret (Some (OTransIf Reloading Running))
                    (fun ok => k_set_run c (if ok then KPLoop else KPErrT true))
    | _ => None
    end
  | KErrT =>
    match k_run c with
    | KPErrT lp => ret (Some (OTrans Error))
                       (fun ok => k_set_run c (if ok then (if lp then KPLoop else KPRet false) else KPErrS lp))
    | _ => None
    end
  | KErrS =>
    match k_run c with
    | KPErrS lp => ret (Some SetErr) (fun _ => k_set_run c (if lp then KPLoop else KPRet false))
    | _ => None
    end
  | KSelStop =>
    match k_run c with
    | KPLoop => if k_stop c then ret None (fun _ => k_set_run c KPDown0) else None
    | _ => None
    end
  | KSelCancel =>
    match k_run c with
    | KPLoop => if k_cancel c then ret None (fun _ => k_set_run c KPDown0) else None
    | _ => None
    end
  | KTStopping =>
    match k_run c with
    | KPDown0 => ret (Some (OTrans Stopping)) (fun _ => k_set_run c KPDown1)
    | _ => None
    end
  | KStopAll => match k_run c with KPDown1 => ret None (fun _ => k_set_run c KPDown2) | _ => None end
  | KTStopped =>       (* failure only logged; shutdown returns nil *)
    match k_run c with
    | KPDown2 => ret (Some (OTrans Stopped)) (fun _ => k_set_run c (KPRet true))
    | _ => None
    end
  | KRunRet b =>
    match k_run c with
    | KPRet b' => if Bool.eqb b b' then ret None (fun _ => k_set_run c (KPDone b cur)) else None
    | _ => None
    end
  | KStopCall => ret None (fun _ => mkK (k_run c) true (k_cancel c))
  | KStopRet => match k_run c with KPRet _ | KPDone _ _ => ret None (fun _ => c) | _ => None end
  | KCancel => ret None (fun _ => mkK (k_run c) (k_stop c) true)
  | KCfgSend => ret None (fun _ => c)
  end.

Definition cluster_tok (l : kcl) : tokact :=
  match l with KCfgSend => TIncA | KRecv => TDecA | _ => TNone end.

Definition cluster_init : kctl := mkK KP0 false false.

Definition cluster_vis (l : kcl) : bool :=
  match l with
  | KRunCall | KRunRet _ | KStopCall | KStopRet | KCancel | KCfgSend => true
  | _ => false
  end.

Definition cluster_code (l : kcl) : list N :=
  match l with
  | KRunCall => [1] | KRunRet b => [2; if b then 1 else 0] | KStopCall => [3] | KStopRet => [4]
  | KCancel => [5] | KCfgSend => [7]
  | _ => [99]
  end%N.

Definition cluster_decode (e : list N) : option kcl :=
  match e with
  | [1] => Some KRunCall | [2; b] => Some (KRunRet (negb (N.eqb b 0))) | [3] => Some KStopCall
  | [4] => Some KStopRet | [5] => Some KCancel | [7] => Some KCfgSend
  | _ => None
  end%N.

Definition cluster_taus : list kcl :=
  [KTBooting; KTRunning; KRecv; KIsRunning; KTReloading; KApplied; KTBack; KErrT; KErrS;
   KSelStop; KSelCancel; KTStopping; KStopAll; KTStopped].

Definition cluster_labels : list kcl :=
  [KRunCall; KRunRet true; KRunRet false; KStopCall; KStopRet; KCancel; KCfgSend] ++ cluster_taus.

Definition kpc_code (p : kpc) : list N :=
  match p with
  | KP0 => [0] | KPCalled => [1] | KPBooted => [2] | KPLoop => [3] | KPCheck => [4] | KPRl0 => [5]
  | KPApply => [6] | KPBack => [7] | KPErrT b => [8; if b then 1 else 0]
  | KPErrS b => [9; if b then 1 else 0] | KPDown0 => [10] | KPDown1 => [11] | KPDown2 => [12]
  | KPRet b => [13; if b then 1 else 0] | KPDone b s => [14; if b then 1 else 0; st_code s]
  end%N.

Definition cluster_key (c : kctl) : list N :=
  kpc_code (k_run c) ++ [if k_stop c then 1 else 0; if k_cancel c then 1 else 0]%N.

(* ================================================================== *)
(* instances                                                           *)

Definition cstate := rstate cctl.
Definition hstate := rstate hctl.
Definition kstate := rstate kctl.

Definition composite_rstep := rstep fsm_cfg cctl ccl composite_step composite_tok.
Definition http_rstep := rstep fsm_cfg hctl hcl http_step http_tok.
Definition cluster_rstep := rstep fsm_cfg kctl kcl cluster_step cluster_tok.

Definition composite_accept (fuel : nat) (t : list (list N)) :=
  raccept fsm_cfg cctl ccl composite_step composite_tok composite_vis composite_code composite_decode
          composite_taus composite_key fuel (with_ref composite_init) t.
Definition http_accept (fuel : nat) (t : list (list N)) :=
  raccept fsm_cfg hctl hcl http_step http_tok http_vis http_code http_decode
          http_taus http_key fuel (with_ref http_init) t.
Definition cluster_accept (fuel : nat) (t : list (list N)) :=
  raccept fsm_cfg kctl kcl cluster_step cluster_tok cluster_vis cluster_code cluster_decode
          cluster_taus cluster_key fuel (with_ref cluster_init) t.

(* verdict for the driver: (accepted?, fuel sufficed?, events consumed) *)
Definition verdict {A} (r : list A * bool * nat) : bool * bool * nat :=
  match r with (l, ok, d) => (negb (is_nil l), ok, d) end.
