(* C14 - the runner and the drain together: the protocol model of the HTTP runner (model/HttpServer.v) composed
   with the timed model of http.Server.Shutdown (model/HttpDrain.v).

   A composite state is a protocol state, ONE timed drain instance - that of the server generation which is
   currently live or being shut down (stopServer runs under r.mutex, so at most one Shutdown is in flight) - and
   the DrainTimeout under which the Shutdown in flight runs.  The two models synchronise on three events:
     CBoot      boot creates a server (LBootCreate): a fresh drain instance, its clock at 0
     CShutCall  stopServer calls Shutdown (LStopCallS / LCleanupCall + DShutStart); the timeout is read from the
                CURRENT configuration at that moment (on a Reload: the new one's)
     CShutRet   stopServer's once body finishes with result r (LShutdownRet + DShutRetOk / DShutRetTimeout):
                  SOk / SFail  Shutdown returned nil / a listener-close error - it returns either only when the
                               server is idle - STRICTLY before the deadline
                  STimeout     the deadline has been reached: stopServer tests the context after Shutdown returned
                               and before looking at its result
   Everything else moves one side only: CP (a protocol label), CD (traffic and time: DNewReq while the live server
   listens, DTick, DFinish, DDial).  Requests that outlast a Shutdown are not cut by the runner; they leave the
   model at the next CBoot.

   Time unit: that of Config.DrainTimeout ([dparam]); a DrainTimeout <= 0 is the timeout 0.
   MODELLED, NOT VERIFIED: as in HttpDrain.v (everything inside net/http.Server.Shutdown). *)
From Coq Require Export List NArith ZArith Bool.
From GS Require Export HttpCfg HttpServer HttpDrain.
From GS Require Import LTS.
Export ListNotations.

Record cstate := { cp : HttpServer.state; cd : dstate; cpar : N }.

Inductive clabel :=
| CP (l : label)
| CD (l : dlabel)
| CBoot (sid : nat) (c : config)
| CShutCall (sid : nat)
| CShutRet (sid : nat) (r : sres).

Definition dparam (c : config) : N := Z.to_N (drain c).

Definition cinit (c : config) : cstate := {| cp := init c; cd := dinit; cpar := 0%N |}.

(* protocol labels that belong to a synchronised event *)
Definition sync_label (l : label) : bool :=
  match l with
  | LBootCreate _ _ | LStopCallS _ | LCleanupCall _ | LShutdownRet _ _ => true
  | _ => false
  end.

(* the live server accepts connections *)
Definition listening (s : HttpServer.state) : bool :=
  match server s with
  | Some sid => match nth_error (servers s) sid with
                | Some sv => sv_pc_eqb (s_pc sv) SvListening && negb (s_shut sv)
                | None => false
                end
  | None => false
  end.

Section Compose.
  Variable stop_locked : bool.
  Variable validated : bool.
  Variable mux_ok : list str -> bool.
  Variable gap : N.

  Definition pstep := step stop_locked validated mux_ok.

  Definition cstep (s : cstate) (l : clabel) : option cstate :=
    match l with
    | CP pl =>
      if sync_label pl then None
      else match pstep (cp s) pl with
           | Some p' => Some {| cp := p'; cd := cd s; cpar := cpar s |}
           | None => None
           end
    | CD dl =>
      match dl with
      | DShutStart | DShutRetOk | DShutRetTimeout => None
      | _ =>
        if (match dl with DNewReq _ _ => listening (cp s) | _ => true end)
        then match dstep (cpar s) gap (cd s) dl with
             | Some d' => Some {| cp := cp s; cd := d'; cpar := cpar s |}
             | None => None
             end
        else None
      end
    | CBoot sid c =>
      match pstep (cp s) (LBootCreate sid c) with
      | Some p' => Some {| cp := p'; cd := dinit; cpar := 0%N |}
      | None => None
      end
    | CShutCall sid =>
      let D := dparam (cur (cp s)) in
      match (match pstep (cp s) (LStopCallS sid) with Some p' => Some p' | None => pstep (cp s) (LCleanupCall sid) end),
            dstep D gap (cd s) DShutStart with
      | Some p', Some d' => Some {| cp := p'; cd := d'; cpar := D |}
      | _, _ => None
      end
    | CShutRet sid r =>
      match pstep (cp s) (LShutdownRet sid r) with
      | Some p' =>
        match r with
        | STimeout =>
          match dstep (cpar s) gap (cd s) DShutRetTimeout with
          | Some d' => Some {| cp := p'; cd := d'; cpar := cpar s |}
          | None => None
          end
        | _ =>
          match sd_start (cd s), dstep (cpar s) gap (cd s) DShutRetOk with
          | Some t0, Some d' => if (now (cd s) <? t0 + cpar s)%N then Some {| cp := p'; cd := d'; cpar := cpar s |} else None
          | _, _ => None
          end
        end
      | None => None
      end
    end.
End Compose.
