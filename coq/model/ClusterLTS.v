(* Protocol model of runnables/httpcluster/runner.go as a labelled transition system
   (for LTS.run / LTS.accept_from).  The Run loop is sequential and processConfigUpdate
   runs inside it; stopServers is parallel-then-join; startServers is sequential with a
   readiness wait; server instances are numbered at creation; the factory result, each
   server's readiness and the duration of its Stop are environment oracles; Stop(), context
   cancellation and closing the siphon may happen at any point (they are only looked at
   where the code looks at them: the main select, the restart delay, the readiness wait).
   The cluster's own FSM moves through the transition table it is created with ([fsm_allowed]);
   the `!IsRunning()` gate of processConfigUpdate and the failure branches of its transitions are
   modelled (a refused map is dropped; a failed return to Running forces Error) -- that they are
   never taken is a theorem (ClusterFsm.v), not a definition.

   The planner is Cluster.v, as written ([fx] = false) or repaired ([fx] = true).
   Ghost fields (not observable, not part of the dedup key): [s_hyg] is true as long as
   every processed map satisfied id hygiene; [s_base]/[s_des]/[s_failed] remember the round
   in progress.  No proofs here. *)
From GS Require Export Cluster.
From GS Require Import LTS.

Inductive beh := BReady | BNever | BError.      (* readiness oracle, chosen at creation *)
Inductive cstate := CRunning | CReloading | CStopping | CStopped | CError | COther.

(* The transition table the cluster's FSM is created with (finitestate.NewTypicalFSM =
   go-fsm transitions.Typical), restricted to the states a started cluster can be in (New and
   Booting are left before the model starts; COther stands for Unknown / anything else):
     Running -> Reloading, Stopping, Error     Reloading -> Running, Error
     Stopping -> Stopped, Error                Stopped -> Error (and New)
     Error -> Error, Stopping, Stopped         Unknown -> Unknown *)
Definition fsm_allowed (from to : cstate) : bool :=
  match from, to with
  | CRunning, CReloading | CRunning, CStopping | CRunning, CError => true
  | CReloading, CRunning | CReloading, CError => true
  | CStopping, CStopped | CStopping, CError => true
  | CStopped, CError => true
  | CError, CError | CError, CStopping | CError, CStopped => true
  | COther, COther => true
  | _, _ => false
  end.

Definition beh_eqb (a b : beh) : bool :=
  match a, b with BReady, BReady | BNever, BNever | BError, BError => true | _, _ => false end.
Definition cstate_eqb (a b : cstate) : bool :=
  match a, b with
  | CRunning, CRunning | CReloading, CReloading | CStopping, CStopping
  | CStopped, CStopped | CError, CError | COther, COther => true
  | _, _ => false
  end.

(* a server instance: number, id and configuration it was created with *)
Definition inst := (N * (id * cfg))%type.

Inductive pc :=
| PIdle                                                       (* in the main select *)
| PStop (pend : emap) (ts : list id) (tocall called : list N) (tp : list id)
                                                              (* stopServers: Stop() goroutines *)
| PDelay (pend : emap) (ts : list id)                         (* restart delay select *)
| PStart (pend : emap) (ts : list id)                         (* startServers loop, [ts] remaining *)
| PWait (pend : emap) (ts : list id) (k : id) (i : N) (b : beh)   (* waitForIsRunning *)
| PFailStop (pend : emap) (ts : list id) (k : id) (i : N)     (* Stop() of a server that was not ready *)
| PFin                                                        (* shutdown done, Run about to return *)
| PRet.                                                       (* Run returned *)

Record state := mkS {
  s_entries : emap;          (* r.currentEntries *)
  s_pc : pc;
  s_shut : bool;             (* shutdown started *)
  s_fsm : cstate;
  s_next : N;                (* number of the next instance *)
  s_offer : option cmap;     (* a sender is blocked on the siphon with this map *)
  s_stopreq : bool;          (* Stop() was called *)
  s_cancel : bool;           (* the context given to Run is cancelled *)
  s_closed : bool;           (* the siphon is closed *)
  s_delay : bool;            (* restartDelay > 0 *)
  s_live : list inst;        (* created, Stop() not yet called *)
  s_stopping : list inst;    (* Stop() called, not yet returned *)
  s_unrun : list N;          (* created, Run() not yet called (the goroutine has not run yet) *)
  (* ghost *)
  s_hyg : bool;
  s_base : emap;             (* currentEntries at the start of the round *)
  s_des : emap;              (* desired entries of the round *)
  s_failed : list id         (* ids whose start failed in the round *)
}.

Definition init (delay : bool) : state :=
  mkS [] PIdle false CRunning 0 None false false false delay [] [] [] true [] [] [].

Inductive event :=
| EOffer (m : cmap) | EStopApi | EStopApiRet | ECancel | EClose
| EFactory (k : id) (c : cfg) (i : N) (b : beh) | EFactoryErr (k : id) (c : cfg)
| ERunCall (i : N) | EStopCall (i : N) | EStopRet (i : N)
| ECount (n : N) | EState (c : cstate) | ERunReturn.

Inductive label :=
| LOffer (m : cmap) | LStopApi | LStopApiRet | LCancel | LClose
| LRecv (ord : list id)          (* tau: receive the offered map, plan with iteration order [ord] *)
| LShut                          (* tau: the main select takes a shutdown branch *)
| LStopCall (i : N) | LStopRet (i : N)
| LDelayFire | LDelayCancel      (* tau *)
| LFactory (k : id) (c : cfg) (i : N) (b : beh) | LFactoryErr (k : id) (c : cfg)
| LRunCall (i : N)
| LReady                         (* tau: waitForIsRunning returned true *)
| LCount (n : N) | LState (c : cstate) | LRunReturn.

Definition obs (l : label) : option event :=
  match l with
  | LOffer m => Some (EOffer m) | LStopApi => Some EStopApi | LStopApiRet => Some EStopApiRet
  | LCancel => Some ECancel | LClose => Some EClose
  | LRecv _ | LShut | LDelayFire | LDelayCancel | LReady => None
  | LStopCall i => Some (EStopCall i) | LStopRet i => Some (EStopRet i)
  | LFactory k c i b => Some (EFactory k c i b) | LFactoryErr k c => Some (EFactoryErr k c)
  | LRunCall i => Some (ERunCall i)
  | LCount n => Some (ECount n) | LState c => Some (EState c) | LRunReturn => Some ERunReturn
  end.

(* ---- small list helpers ---- *)
Fixpoint memN (x : N) (l : list N) : bool :=
  match l with [] => false | y :: t => N.eqb x y || memN x t end.
Definition removeN (x : N) (l : list N) : list N := filter (fun y => negb (N.eqb x y)) l.
Fixpoint mem_id (x : id) (l : list id) : bool :=
  match l with [] => false | y :: t => id_eqb y x || mem_id x t end.
Definition remove_id (x : id) (l : list id) : list id := filter (fun y => negb (id_eqb y x)) l.
Definition remove_inst (i : N) (l : list inst) : list inst := filter (fun p => negb (N.eqb (fst p) i)) l.
Definition find_inst (i : N) (l : list inst) : option inst := find (fun p => N.eqb (fst p) i) l.

(* is [a] a permutation of [b] (lists of distinct ids) *)
Definition is_perm (a b : list id) : bool :=
  Nat.eqb (length a) (length b) && forallb (fun x => mem_id x b) a && forallb (fun x => mem_id x a) b.

(* the instances stopServers calls Stop() on: entries under the toStop keys that have a runtime *)
Definition stop_insts (pend : emap) (tp : list id) : list N :=
  flat_map (fun k => match lookup k pend with
                     | Some e => match e_rt e with Some i => [i] | None => [] end
                     | None => []
                     end) tp.

(* clearRuntime for every toStop key *)
Definition clear_all (tp : list id) (pend : emap) : emap :=
  fold_left (fun m k => match clear_runtime k m with Some m' => m' | None => m end) tp pend.

(* ---- state updates ---- *)
Definition set_pc (s : state) (p : pc) : state :=
  mkS (s_entries s) p (s_shut s) (s_fsm s) (s_next s) (s_offer s) (s_stopreq s) (s_cancel s)
      (s_closed s) (s_delay s) (s_live s) (s_stopping s) (s_unrun s) (s_hyg s) (s_base s) (s_des s)
      (s_failed s).

(* executeActions returned: commit, FSM back to Running (or Stopped in shutdown) *)
(* Transition(to): the state moves only if the table allows it (a failed Transition is logged) *)
Definition fsm_goto (c to : cstate) : cstate := if fsm_allowed c to then to else c.

(* the FSM at the end of executeActions: shutdown does Transition(Stopped); processConfigUpdate does
   TransitionIfCurrentState(Reloading, Running) and on failure setStateError() (which forces Error) *)
Definition fsm_finish (shut : bool) (c : cstate) : cstate :=
  if shut then fsm_goto c CStopped
  else if cstate_eqb c CReloading && fsm_allowed CReloading CRunning then CRunning else CError.

Definition finish_round (s : state) (pend : emap) : state :=
  mkS (commit pend) (if s_shut s then PFin else PIdle) (s_shut s)
      (fsm_finish (s_shut s) (s_fsm s)) (s_next s) (s_offer s) (s_stopreq s) (s_cancel s)
      (s_closed s) (s_delay s) (s_live s) (s_stopping s) (s_unrun s) (s_hyg s) (s_base s) (s_des s)
      (s_failed s).

Definition next_start (s : state) (pend : emap) (ts : list id) : state :=
  match ts with
  | [] => finish_round s pend
  | _ => set_pc s (PStart pend ts)
  end.

(* all Stop() goroutines joined: clear runtimes, then the delay / the start phase *)
Definition after_stops (s : state) (pend : emap) (ts tp : list id) : state :=
  let pend' := clear_all tp pend in
  match ts with
  | [] => finish_round s pend'
  | _ => if s_delay s then set_pc s (PDelay pend' ts) else set_pc s (PStart pend' ts)
  end.

(* start of executeActions on a freshly built plan *)
Definition begin_round (s : state) (pend : emap) : state :=
  let (ts, tp) := pending_actions pend in
  match stop_insts pend tp with
  | [] => match tp with
          | [] => next_start s pend ts
          | _ => after_stops s pend ts tp
          end
  | tocall => set_pc s (PStop pend ts tocall [] tp)
  end.

Definition move_to_stopping (i : N) (s : state) : state :=
  match find_inst i (s_live s) with
  | Some x =>
    mkS (s_entries s) (s_pc s) (s_shut s) (s_fsm s) (s_next s) (s_offer s) (s_stopreq s) (s_cancel s)
        (s_closed s) (s_delay s) (remove_inst i (s_live s)) (x :: s_stopping s) (s_unrun s)
        (s_hyg s) (s_base s) (s_des s) (s_failed s)
  | None => s
  end.

Definition drop_stopping (i : N) (s : state) : state :=
  mkS (s_entries s) (s_pc s) (s_shut s) (s_fsm s) (s_next s) (s_offer s) (s_stopreq s) (s_cancel s)
      (s_closed s) (s_delay s) (s_live s) (remove_inst i (s_stopping s)) (s_unrun s)
      (s_hyg s) (s_base s) (s_des s) (s_failed s).

Definition add_failed (k : id) (s : state) : state :=
  mkS (s_entries s) (s_pc s) (s_shut s) (s_fsm s) (s_next s) (s_offer s) (s_stopreq s) (s_cancel s)
      (s_closed s) (s_delay s) (s_live s) (s_stopping s) (s_unrun s)
      (s_hyg s) (s_base s) (s_des s) (k :: s_failed s).

(* a received map that is not processed (cluster not Running / Reloading refused) *)
Definition drop_offer (s : state) : state :=
  mkS (s_entries s) (s_pc s) (s_shut s) (s_fsm s) (s_next s) None (s_stopreq s) (s_cancel s)
      (s_closed s) (s_delay s) (s_live s) (s_stopping s) (s_unrun s) (s_hyg s) (s_base s) (s_des s)
      (s_failed s).

Definition step (fx : bool) (s : state) (l : label) : option state :=
  match l with
  | LOffer m =>
    match s_offer s with
    | None => if s_closed s then None else
      Some (mkS (s_entries s) (s_pc s) (s_shut s) (s_fsm s) (s_next s) (Some m) (s_stopreq s)
                (s_cancel s) (s_closed s) (s_delay s) (s_live s) (s_stopping s) (s_unrun s)
                (s_hyg s) (s_base s) (s_des s) (s_failed s))
    | Some _ => None
    end
  | LStopApi =>
    Some (mkS (s_entries s) (s_pc s) (s_shut s) (s_fsm s) (s_next s) (s_offer s) true
              (s_cancel s) (s_closed s) (s_delay s) (s_live s) (s_stopping s) (s_unrun s)
              (s_hyg s) (s_base s) (s_des s) (s_failed s))
  | LStopApiRet =>
    if s_stopreq s then match s_pc s with PFin | PRet => Some s | _ => None end else None
  | LCancel =>
    Some (mkS (s_entries s) (s_pc s) (s_shut s) (s_fsm s) (s_next s) (s_offer s) (s_stopreq s)
              true (s_closed s) (s_delay s) (s_live s) (s_stopping s) (s_unrun s)
              (s_hyg s) (s_base s) (s_des s) (s_failed s))
  | LClose =>
    match s_offer s with
    | None =>
      Some (mkS (s_entries s) (s_pc s) (s_shut s) (s_fsm s) (s_next s) (s_offer s) (s_stopreq s)
                (s_cancel s) true (s_delay s) (s_live s) (s_stopping s) (s_unrun s)
                (s_hyg s) (s_base s) (s_des s) (s_failed s))
    | Some _ => None
    end
  | LRecv ord =>
    match s_pc s, s_offer s with
    | PIdle, Some m =>
      (* processConfigUpdate: `if !r.IsRunning() { ignore }`, then Transition(Reloading), whose
         failure returns an error; in both cases the map is dropped and the loop goes on *)
      if cstate_eqb (s_fsm s) CRunning && fsm_allowed (s_fsm s) CReloading then
        let cur := s_entries s in
        let des := new_entries m in
        if is_perm ord (keys cur) then
          let pend := build_pending fx ord cur des in
          Some (begin_round
                  (mkS cur PIdle false CReloading (s_next s) None (s_stopreq s) (s_cancel s)
                       (s_closed s) (s_delay s) (s_live s) (s_stopping s) (s_unrun s)
                       (s_hyg s && hygienicb (ids_of cur des)) cur des []) pend)
        else None
      else Some (drop_offer s)
    | _, _ => None
    end
  | LShut =>
    match s_pc s with
    | PIdle =>
      if s_cancel s || s_stopreq s || s_closed s then
        let cur := s_entries s in
        let pend := build_pending fx (keys cur) cur [] in
        Some (begin_round
                (mkS cur PIdle true (fsm_goto (s_fsm s) CStopping) (s_next s) (s_offer s) (s_stopreq s) (s_cancel s)
                     (s_closed s) (s_delay s) (s_live s) (s_stopping s) (s_unrun s)
                     (s_hyg s) cur [] []) pend)
      else None
    | _ => None
    end
  | LStopCall i =>
    match s_pc s with
    | PStop pend ts tocall called tp =>
      if memN i tocall
      then Some (move_to_stopping i (set_pc s (PStop pend ts (removeN i tocall) (i :: called) tp)))
      else None
    | PWait pend ts k j b =>
      if N.eqb i j && (negb (beh_eqb b BReady) || s_cancel s)
      then Some (move_to_stopping i (set_pc s (PFailStop pend ts k j)))
      else None
    | _ => None
    end
  | LStopRet i =>
    match s_pc s with
    | PStop pend ts tocall called tp =>
      if memN i called then
        let called' := removeN i called in
        let s1 := drop_stopping i s in
        match tocall, called' with
        | [], [] => Some (after_stops s1 pend ts tp)
        | _, _ => Some (set_pc s1 (PStop pend ts tocall called' tp))
        end
      else None
    | PFailStop pend ts k j =>
      if N.eqb i j
      then Some (next_start (add_failed k (drop_stopping i s)) (remove_entry k pend) ts)
      else None
    | _ => None
    end
  | LDelayFire =>
    match s_pc s with
    | PDelay pend ts => Some (set_pc s (PStart pend ts))
    | _ => None
    end
  | LDelayCancel =>
    match s_pc s with
    | PDelay pend ts => if s_cancel s then Some (finish_round s pend) else None
    | _ => None
    end
  | LFactory k c i b =>
    match s_pc s with
    | PStart pend ts =>
      match lookup k pend with
      | Some e =>
        if mem_id k ts && id_eqb (e_id e) k && N.eqb (e_cfg e) c && N.eqb i (s_next s) then
          Some (mkS (s_entries s) (PWait (update_rt k (Some i) pend) (remove_id k ts) k i b)
                    (s_shut s) (s_fsm s) (N.succ (s_next s)) (s_offer s) (s_stopreq s) (s_cancel s)
                    (s_closed s) (s_delay s) ((i, (k, c)) :: s_live s) (s_stopping s)
                    (i :: s_unrun s) (s_hyg s) (s_base s) (s_des s) (s_failed s))
        else None
      | None => None
      end
    | _ => None
    end
  | LFactoryErr k c =>
    match s_pc s with
    | PStart pend ts =>
      match lookup k pend with
      | Some e =>
        if mem_id k ts && id_eqb (e_id e) k && N.eqb (e_cfg e) c
        then Some (next_start (add_failed k s) (remove_entry k pend) (remove_id k ts))
        else None
      | None => None
      end
    | _ => None
    end
  | LRunCall i =>
    if memN i (s_unrun s) then
      Some (mkS (s_entries s) (s_pc s) (s_shut s) (s_fsm s) (s_next s) (s_offer s) (s_stopreq s)
                (s_cancel s) (s_closed s) (s_delay s) (s_live s) (s_stopping s)
                (removeN i (s_unrun s)) (s_hyg s) (s_base s) (s_des s) (s_failed s))
    else None
  | LReady =>
    match s_pc s with
    | PWait pend ts k i b => if beh_eqb b BReady then Some (next_start s pend ts) else None
    | _ => None
    end
  | LCount n =>
    match s_pc s with
    | PIdle | PFin | PRet => if N.eqb n (N.of_nat (count (s_entries s))) then Some s else None
    | _ => None
    end
  | LState c => if cstate_eqb c (s_fsm s) then Some s else None
  | LRunReturn =>
    match s_pc s with
    | PFin => Some (set_pc s PRet)
    | _ => None
    end
  end.

(* ---- acceptor plumbing ---- *)
Fixpoint cmap_eqb (a b : cmap) : bool :=
  match a, b with
  | [], [] => true
  | (k, c) :: a', (k', c') :: b' => id_eqb k k' && optN_eqb c c' && cmap_eqb a' b'
  | _, _ => false
  end.

Definition event_eqb (a b : event) : bool :=
  match a, b with
  | EOffer m, EOffer m' => cmap_eqb m m'
  | EStopApi, EStopApi | EStopApiRet, EStopApiRet | ECancel, ECancel | EClose, EClose => true
  | EFactory k c i x, EFactory k' c' i' x' => id_eqb k k' && N.eqb c c' && N.eqb i i' && beh_eqb x x'
  | EFactoryErr k c, EFactoryErr k' c' => id_eqb k k' && N.eqb c c'
  | ERunCall i, ERunCall j | EStopCall i, EStopCall j | EStopRet i, EStopRet j => N.eqb i j
  | ECount n, ECount m => N.eqb n m
  | EState c, EState c' => cstate_eqb c c'
  | ERunReturn, ERunReturn => true
  | _, _ => false
  end.

(* candidate iteration orders: all of them when ids collide, one otherwise (only a candidate
   generator: the acceptor's soundness does not depend on it; C16_plan_order_free says the single
   order loses nothing under hygiene) *)
Definition recv_orders (s : state) : list (list id) :=
  match s_offer s with
  | Some m =>
    let cur := s_entries s in
    if hygienicb (ids_of cur (new_entries m)) then [keys cur] else perms (keys cur)
  | None => []
  end.

Definition taus (s : state) : list label :=
  match s_pc s with
  | PIdle => LShut :: map LRecv (recv_orders s)
  | PDelay _ _ => [LDelayFire; LDelayCancel]
  | PWait _ _ _ _ _ => [LReady]
  | _ => []
  end.

Definition vis (s : state) (e : event) : list label :=
  match e with
  | EOffer m => [LOffer m] | EStopApi => [LStopApi] | EStopApiRet => [LStopApiRet]
  | ECancel => [LCancel] | EClose => [LClose]
  | EFactory k c i b => [LFactory k c i b] | EFactoryErr k c => [LFactoryErr k c]
  | ERunCall i => [LRunCall i] | EStopCall i => [LStopCall i] | EStopRet i => [LStopRet i]
  | ECount n => [LCount n] | EState c => [LState c] | ERunReturn => [LRunReturn]
  end.

(* dedup key: an injective-enough flattening of the non-ghost fields *)
Definition k_id (x : id) : list N := N.of_nat (length x) :: x.
Definition k_ids (l : list id) : list N := N.of_nat (length l) :: flat_map k_id l.
Definition k_ns (l : list N) : list N := N.of_nat (length l) :: l.
Definition k_opt (o : option N) : list N := match o with Some x => [1; x] | None => [0] end.
Definition k_act (a : action) : N := match a with ANone => 0 | AStart => 1 | AStop => 2 end.
Definition k_entry (p : id * entry) : list N :=
  k_id (fst p) ++ k_id (e_id (snd p)) ++ [e_cfg (snd p)] ++ k_opt (e_rt (snd p)) ++ [k_act (e_act (snd p))].
Definition k_emap (m : emap) : list N := N.of_nat (length m) :: flat_map k_entry m.
Definition k_bool (b : bool) : N := if b then 1 else 0.
Definition k_beh (b : beh) : N := match b with BReady => 0 | BNever => 1 | BError => 2 end.
Definition k_cstate (c : cstate) : N :=
  match c with CRunning => 0 | CReloading => 1 | CStopping => 2 | CStopped => 3 | COther => 4 | CError => 5 end.
Definition k_pc (p : pc) : list N :=
  match p with
  | PIdle => [0]
  | PStop pend ts tocall called tp => 1 :: k_emap pend ++ k_ids ts ++ k_ns tocall ++ k_ns called ++ k_ids tp
  | PDelay pend ts => 2 :: k_emap pend ++ k_ids ts
  | PStart pend ts => 3 :: k_emap pend ++ k_ids ts
  | PWait pend ts k i b => 4 :: k_emap pend ++ k_ids ts ++ k_id k ++ [i; k_beh b]
  | PFailStop pend ts k i => 5 :: k_emap pend ++ k_ids ts ++ k_id k ++ [i]
  | PFin => [6]
  | PRet => [7]
  end.
Definition k_cmap (m : cmap) : list N :=
  N.of_nat (length m) :: flat_map (fun p => k_id (fst p) ++ k_opt (snd p)) m.
Definition key (s : state) : list N :=
  k_emap (s_entries s) ++ k_pc (s_pc s) ++
  [k_bool (s_shut s); k_cstate (s_fsm s); s_next s; k_bool (s_stopreq s); k_bool (s_cancel s);
   k_bool (s_closed s)] ++
  match s_offer s with Some m => 1 :: k_cmap m | None => [0] end ++
  k_ns (map fst (s_live s)) ++ k_ns (map fst (s_stopping s)) ++ k_ns (s_unrun s).

(* the acceptor for one trace: (final states, fuel sufficed) *)
Definition accept (delay : bool) (fuel : nat) (t : list event) : list state * bool :=
  LTS.accept_from state label event (step repaired) obs taus vis event_eqb key fuel [init delay] t.
Definition accepted_prefix (delay : bool) (fuel : nat) (t : list event) : nat :=
  LTS.accept_depth state label event (step repaired) obs taus vis event_eqb key fuel [init delay] t.
