(* Executable statements of the supervisor properties C01-C06, C18 over observable traces
   (oldest event first).  They are the statements of the theorems in props/ (proved for every
   schedule of the model) and, extracted, the monitors evaluated on the implementation's traces. *)
From Coq Require Import List NArith Bool Arith.
From GS Require Import Supervisor.
Import ListNotations.

Fixpoint prefixb (a b : list event) : bool :=
  match a, b with
  | [], _ => true
  | x :: a', y :: b' => event_eqb x y && prefixb a' b'
  | _ :: _, [] => false
  end.

Definition mem_ev (e : event) (t : list event) : bool := existsb (event_eqb e) t.

Fixpoint count_ev (e : event) (t : list event) : nat :=
  match t with [] => 0 | x :: t' => (if event_eqb e x then 1 else 0) + count_ev e t' end.

(* a check of every event against the events before it *)
Fixpoint all_check_from (chk : list event -> event -> bool) (pre t : list event) : bool :=
  match t with
  | [] => true
  | e :: t' => chk pre e && all_check_from chk (pre ++ [e]) t'
  end.
Definition all_check (chk : list event -> event -> bool) (t : list event) : bool :=
  all_check_from chk [] t.

(* ---------------------------------------------------------------- C01 *)

Definition is_stop_ev (e : event) : bool :=
  match e with EStopCall _ | EStopRet _ => true | _ => false end.

Definition stop_evs (t : list event) : list event := filter is_stop_ev t.

(* Stop(k-1) returns, then Stop(k-2) ..., down to Stop(0) *)
Fixpoint canon_stops (k : nat) : list event :=
  match k with O => [] | S j => EStopCall j :: EStopRet j :: canon_stops j end.

(* reverse registration order, sequential, each at most once: the stop events are a prefix of the
   canonical sequence for some number k <= n of started runnables *)
Definition c01_order (c : config) (t : list event) : bool :=
  existsb (fun k => prefixb (stop_evs t) (canon_stops k)) (seq 0 (S (nrun c))).

Definition run_returned (t : list event) : bool :=
  existsb (fun e => match e with ERunReturn _ => true | _ => false end) t.

(* once Run() has returned, every runnable whose Run was invoked has been stopped exactly once *)
Definition c01_exactly_once (c : config) (t : list event) : bool :=
  negb (run_returned t) ||
  forallb (fun i => negb (mem_ev (ERunCall i) t) || Nat.eqb (count_ev (EStopCall i) t) 1) (seq 0 (nrun c)).

(* events that can initiate a shutdown: a Shutdown() call, an INT/TERM SendSignal call, the cancellation of
   the parent context, a trigger offered by a runnable that IS a ShutdownSender, a runnable's Run returning a
   non-cancellation error.  No other API call (ReloadAll, SIGHUP, unknown signals), no trigger offered by a
   runnable that is not a ShutdownSender, no nil / cancellation exit. *)
Definition is_trigger (c : config) (e : event) : bool :=
  match e with
  | ECall _ OpShutdown | ECall _ (OpSignal SigInt) | ECall _ (OpSignal SigTerm)
  | EParentCancel | ERunRet _ (Some (_, false)) => true
  | ETrigS i => ssender (spec c i)
  | _ => false
  end.

(* no Stop() before shutdown starts: every StopCall is preceded by a trigger *)
Definition chk_not_before (c : config) (pre : list event) (e : event) : bool :=
  match e with EStopCall _ => existsb (is_trigger c) pre | _ => true end.
Definition c01_not_before_strict (c : config) (t : list event) : bool := all_check (chk_not_before c) t.
(* The only other cause of a shutdown is the start-up deadline, which leaves no event of its own when it fires
   (in the model: ghost flag su_fired).  On a trace it shows only later: Run() then returns the start-up
   timeout error.  The trace form therefore excuses exactly the traces in which Run() returned that error, or -
   when the deadline can fire - has not returned yet; the model form (C01_not_before) has no excuse. *)
Definition c01_not_before (c : config) (t : list event) : bool :=
  c01_not_before_strict c t || mem_ev (ERunReturn ResTimeout) t || (startup_may_fire c && negb (run_returned t)).

Definition c01_holdsb (c : config) (t : list event) : bool :=
  c01_order c t && c01_exactly_once c t && c01_not_before c t.

(* ---------------------------------------------------------------- C03 *)

(* evidence in the trace that the supervisor's context was cancelled: the parent was cancelled, or
   the supervisor cancelled it itself, which happens only after the last Stop() (index 0) returned *)
Definition cancel_evidence (pre : list event) : bool :=
  existsb (fun e => match e with EParentCancel | EStopRet O => true | _ => false end) pre.

(* a later runnable's Run is invoked only after every Stateable runnable before it reported ready,
   unless the context was cancelled *)
Definition chk_gate (c : config) (pre : list event) (e : event) : bool :=
  match e with
  | ERunCall j =>
    cancel_evidence pre ||
    forallb (fun i => negb (stateable (spec c i)) || mem_ev (EPoll i true) pre) (seq 0 j)
  | _ => true
  end.

(* each Run at most once *)
Definition chk_once (pre : list event) (e : event) : bool :=
  match e with ERunCall j => negb (mem_ev (ERunCall j) pre) | _ => true end.

(* a failure that was already queued when the system was observed quiescent ends the start-up: no
   runnable is started after "a real error was returned, then a quiescent point" *)
Fixpoint err_then_quiet (seen_err : bool) (t : list event) : bool :=
  match t with
  | [] => false
  | e :: t' =>
    match e with
    | ERunRet _ (Some (_, false)) => err_then_quiet true t'
    | EQuiet | ESnap _ => seen_err || err_then_quiet seen_err t'
    | _ => err_then_quiet seen_err t'
    end
  end.
Definition chk_pending (pre : list event) (e : event) : bool :=
  match e with ERunCall _ => negb (err_then_quiet false pre) | _ => true end.
Definition c03_pending (c : config) (t : list event) : bool := all_check chk_pending t.

(* the supervisor does not cancel the runnables' contexts before every Stop() has returned: a
   runnable that only exits when signalled returns only after its own StopCall, after the parent
   context was cancelled, or after the last Stop() (index 0) returned *)
Definition chk_cancel_after (c : config) (pre : list event) (e : event) : bool :=
  match e with
  | ERunRet i _ =>
    match run_exit (spec c i) with
    | ExitOnSignal => mem_ev (EStopCall i) pre || cancel_evidence pre
    | _ => true
    end
  | _ => true
  end.
Definition c01_cancel_after (c : config) (t : list event) : bool := all_check (chk_cancel_after c) t.

Definition c03_gate (c : config) (t : list event) : bool := all_check (chk_gate c) t.
Definition c03_once (c : config) (t : list event) : bool := all_check chk_once t.
Definition c03_holdsb (c : config) (t : list event) : bool := c03_gate c t && c03_once c t.

(* ---------------------------------------------------------------- C04 *)

Definition real_error_ids (t : list event) : list nat :=
  flat_map (fun e => match e with ERunRet _ (Some (id, false)) => [id] | _ => [] end) t.

(* a non-nil result of Run() is an error some runnable's Run really returned (not a cancellation),
   or the start-up timeout - and the latter only if the deadline can fire *)
Definition chk_result (c : config) (pre : list event) (e : event) : bool :=
  match e with
  | ERunReturn ResNil => true
  | ERunReturn (ResErr id) => existsb (Nat.eqb id) (real_error_ids pre)
  | ERunReturn ResTimeout => startup_may_fire c
  | _ => true
  end.
Definition c04_holdsb (c : config) (t : list event) : bool := all_check (chk_result c) t.

(* SIGHUP / unknown signals / nil exits / cancellation errors never make Run() return: when Run()
   returns, a shutdown trigger has occurred - the only excuse is the genuine start-up timeout path: Run()
   returns the start-up timeout error (and that deadline can fire) *)
Definition chk_cause (c : config) (pre : list event) (e : event) : bool :=
  match e with
  | ERunReturn r => existsb (is_trigger c) pre || (startup_may_fire c && result_eqb r ResTimeout)
  | _ => true
  end.
Definition c04_needs_cause (c : config) (t : list event) : bool := all_check (chk_cause c) t.

(* if no runnable returned a real error, Run() returns nil *)
Definition chk_nil (c : config) (pre : list event) (e : event) : bool :=
  match e with
  | ERunReturn r => match real_error_ids pre, r with
                    | [], ResErr _ => false
                    | [], ResTimeout => startup_may_fire c
                    | _, _ => true
                    end
  | _ => true
  end.
Definition c04_nil (c : config) (t : list event) : bool := all_check (chk_nil c) t.

(* ---------------------------------------------------------------- C05 *)

Definition is_reload_ev (e : event) : bool :=
  match e with EReloadCall _ | EReloadRet _ => true | _ => false end.

Definition reload_evs (t : list event) : list event := filter is_reload_ev t.

Definition reloadables (c : config) : list nat :=
  filter (fun i => reloadable (spec c i)) (seq 0 (nrun c)).

Definition one_pass (c : config) : list event :=
  flat_map (fun i => [EReloadCall i; EReloadRet i]) (reloadables c).

Fixpoint repeat_pass (p : list event) (k : nat) : list event :=
  match k with O => [] | S j => p ++ repeat_pass p j end.

(* the reload events are a prefix of (one full in-order pass)^k: passes never overlap, each
   calls Reload exactly once on every Reloadable in registration order and on nothing else *)
Definition c05_shape (c : config) (t : list event) : bool :=
  let r := reload_evs t in
  match one_pass c with
  | [] => match r with [] => true | _ => false end
  | p => prefixb r (repeat_pass p (S (length r)))
  end.

(* requests that can have been accepted so far: returned ReloadAll calls are certainly accepted;
   SIGHUPs and triggers may be *)
Definition accepted_lower (t : list event) : nat :=
  length (filter (fun e => match e with ERet _ OpReloadAll => true | _ => false end) t).
Definition requests_upper (t : list event) : nat :=
  length (filter (fun e => match e with
                           | ECall _ OpReloadAll | ECall _ (OpSignal SigHup) | ETrigR _ => true
                           | _ => false end) t).
Definition passes_begun (c : config) (t : list event) : nat :=
  match reloadables c with
  | [] => 0
  | i :: _ => count_ev (EReloadCall i) t
  end.

(* no request is duplicated: never more passes than requests *)
Definition c05_no_dup (c : config) (t : list event) : bool :=
  Nat.leb (passes_begun c t) (requests_upper t).

Definition c05_holdsb (c : config) (t : list event) : bool := c05_shape c t && c05_no_dup c t.

(* no request is lost (lower bound, at quiescent points): requests that are certainly with the manager or were
   served - ReloadAll() calls that returned, SIGHUP SendSignal calls that returned, triggers offered by a
   ReloadSender *)
Definition requests_in (c : config) (t : list event) : nat :=
  length (filter (fun e => match e with
                           | ERet _ OpReloadAll | ERet _ (OpSignal SigHup) => true
                           | ETrigR i => rsender (spec c i)
                           | _ => false end) t).

(* Run() has started every runnable and passed every readiness gate: it is in reap() (as long as nothing has
   triggered a shutdown) *)
Definition in_reap (c : config) (t : list event) : bool :=
  forallb (fun i => mem_ev (ERunCall i) t && (negb (stateable (spec c i)) || mem_ev (EPoll i true) t)) (seq 0 (nrun c)).

(* the reload events so far are whole passes (with c05_shape: the manager is between two passes) *)
Definition whole_passes (c : config) (t : list event) : bool :=
  match length (one_pass c) with
  | O => true
  | S m => Nat.eqb (Nat.modulo (length (reload_evs t)) (S m)) 0
  end.

(* at a quiescent observation, the supervisor running in reap() (no shutdown trigger so far, parent context live),
   something Reloadable and the manager between two passes: every such request has had a pass of its own *)
Fixpoint c05_lower_aux (c : config) (pre t : list event) : bool :=
  match t with
  | [] => true
  | e :: t' =>
    (match e with
     | EQuiet | ESnap _ =>
       existsb (is_trigger c) pre || existsb is_stop_ev pre || negb (in_reap c pre)
       || match reloadables c with [] => true | _ => false end
       || negb (whole_passes c pre)
       || Nat.leb (requests_in c pre) (passes_begun c pre)
     | _ => true
     end) && c05_lower_aux c (pre ++ [e]) t'
  end.
Definition c05_lower (c : config) (t : list event) : bool := c05_lower_aux c [] t.

(* ---------------------------------------------------------------- C06 / C18 (at snapshots) *)

(* the true state of every runnable according to the Emit events *)
Fixpoint true_state (i : nat) (t : list event) (acc : st) : st :=
  match t with
  | [] => acc
  | EEmit j x :: t' => true_state i t' (if Nat.eqb i j then x else acc)
  | _ :: t' => true_state i t' acc
  end.

(* at a quiescent snapshot while the supervisor runs (before any StopCall), the state map shows
   the true state of every Stateable whose Run has been invoked and whose monitor could subscribe *)
Fixpoint c06_snap_aux (c : config) (pre : list event) (t : list event) : bool :=
  match t with
  | [] => true
  | e :: t' =>
    (match e with
     | ESnap o =>
       existsb is_stop_ev pre || existsb (fun x => match x with EParentCancel => true | _ => false end) pre ||
       forallb (fun i =>
                  negb (stateable (spec c i)) || negb (mem_ev (ERunCall i) pre)
                  || (held_sub (spec c i) && negb (mem_ev (ESubRel i) pre))
                  || opt_st_eqb (nth i (sn_smap o) None) (Some (true_state i pre 0)))
               (seq 0 (nrun c))
     | _ => true
     end) && c06_snap_aux c (pre ++ [e]) t'
  end.
Definition c06_holdsb (c : config) (t : list event) : bool := c06_snap_aux c [] t.

(* the state runnable i had when its Stop() returned: the last Emit before the (first) StopRet i *)
Fixpoint state_at_stopret (i : nat) (t : list event) (acc : st) : st :=
  match t with
  | [] => acc
  | EEmit j x :: t' => state_at_stopret i t' (if Nat.eqb i j then x else acc)
  | EStopRet j :: t' => if Nat.eqb i j then acc else state_at_stopret i t' acc
  | _ :: t' => state_at_stopret i t' acc
  end.

(* runnable i's Run was invoked before its Stop() was called (so startRunnable's store of the initial state is
   older than Shutdown's store of the final one) *)
Fixpoint called_before_stop (i : nat) (t : list event) (seen : bool) : bool :=
  match t with
  | [] => false
  | ERunCall j :: t' => called_before_stop i t' (seen || Nat.eqb i j)
  | EStopCall j :: t' => if Nat.eqb i j then seen else called_before_stop i t' seen
  | _ :: t' => called_before_stop i t' seen
  end.

(* nobody but Shutdown writes runnable i's map entry after its Stop(): its monitor never obtained the state
   channel (held, never released), it is not Reloadable, its initial store is older than its Stop() *)
Definition sole_writer (c : config) (i : nat) (pre : list event) : bool :=
  held_sub (spec c i) && negb (mem_ev (ESubRel i) pre) && negb (reloadable (spec c i)) && called_before_stop i pre false.

(* after shutdown the map reports the state each runnable had when its Stop() returned - whatever it did
   afterwards: checked at snapshots taken after Run() returned.  When the shutdown timeout can fire the wait may
   have been abandoned: the stores after the wait are then missing and a lagging monitor may have written last, so
   only the entries with no other writer are checked (they were stored when Stop() returned) *)
Fixpoint c06_final_aux (c : config) (pre t : list event) : bool :=
  match t with
  | [] => true
  | e :: t' =>
    (match e with
     | ESnap o =>
       negb (sn_run_returned o) ||
       forallb (fun i => negb (stateable (spec c i)) || negb (mem_ev (EStopRet i) pre)
                         || (shutdown_may_fire c && negb (sole_writer c i pre))
                         || opt_st_eqb (nth i (sn_smap o) None) (Some (state_at_stopret i pre 0)))
               (seq 0 (nrun c))
     | _ => true
     end) && c06_final_aux c (pre ++ [e]) t'
  end.
Definition c06_final (c : config) (t : list event) : bool := c06_final_aux c [] t.

(* after a clean termination (Run returned, no caller blocked, shutdown timeout not configured to
   fire) no library goroutine remains, apart from the closers of subscriptions still open *)
Definition open_subs (pre : list event) : nat :=
  length (filter (fun e => match e with ESubscribe _ => true | _ => false end) pre)
  - length (filter (fun e => match e with ESubClosed _ => true | _ => false end) pre).

Fixpoint c18_final_aux (c : config) (pre t : list event) : bool :=
  match t with
  | [] => true
  | e :: t' =>
    (match e with
     | ESnap o =>
       negb (sn_run_returned o) || shutdown_may_fire c
       || negb (Nat.eqb (length (sn_blocked o)) 0)
       || Nat.leb (sn_gor o) (open_subs pre)
     | _ => true
     end) && c18_final_aux c (pre ++ [e]) t'
  end.
Definition c18_holdsb (c : config) (t : list event) : bool := c18_final_aux c [] t.

(* the goroutine count while running is bounded by the configuration, the pending callers and the
   open subscriptions - not by the number of SIGHUPs, reload passes or state changes so far *)
Definition gor_bound (c : config) (pre : list event) (o : snapshot) : nat :=
  1 + 4 * nrun c + 3 + length (sn_blocked o) + open_subs pre
  + (requests_upper pre - passes_begun c pre)      (* reload requests still waiting for the manager *)
  + length (filter (fun e => match e with ETrigS _ => true | _ => false end) pre).

Fixpoint c18_bounded_aux (c : config) (pre t : list event) : bool :=
  match t with
  | [] => true
  | e :: t' =>
    (match e with
     | ESnap o => Nat.leb (sn_gor o) (gor_bound c pre o)
     | _ => true
     end) && c18_bounded_aux c (pre ++ [e]) t'
  end.
Definition c18_bounded (c : config) (t : list event) : bool := c18_bounded_aux c [] t.

(* ---------------------------------------------------------------- C04 (reports clause) *)

(* shutdown triggers other than a runnable's failure *)
Definition is_nonfail_trigger (c : config) (e : event) : bool :=
  match e with
  | ECall _ OpShutdown | ECall _ (OpSignal SigInt) | ECall _ (OpSignal SigTerm)
  | EParentCancel => true
  | ETrigS i => ssender (spec c i)
  | _ => false
  end.

(* Run() returns nil only after a trigger that is not a failure: so when a runnable fails and no
   other trigger occurs, the result is not nil - by chk_result it is then a runnable's real error
   (or the start-up timeout when that deadline can fire) *)
Definition chk_reports (c : config) (pre : list event) (e : event) : bool :=
  match e with ERunReturn ResNil => existsb (is_nonfail_trigger c) pre | _ => true end.
Definition c04_reports (c : config) (t : list event) : bool := all_check (chk_reports c) t.

(* ---------------------------------------------------------------- C06 (a subscriber learns new entries) *)

(* the events before / after the first one satisfying f *)
Fixpoint split_at (f : event -> bool) (t : list event) : option (list event * list event) :=
  match t with
  | [] => None
  | e :: t' => if f e then Some ([], t')
               else match split_at f t' with Some (p, q) => Some (e :: p, q) | None => None end
  end.

Definition is_call (j : nat) (e : event) : bool :=
  match e with ERunCall i => Nat.eqb i j | _ => false end.
Definition is_recv (c : nat) (e : event) : bool :=
  match e with ESubRecv c1 _ => Nat.eqb c1 c | _ => false end.
Definition is_cancel (c : nat) (e : event) : bool :=
  match e with ESubCancel c1 => Nat.eqb c1 c | _ => false end.
Definition has_entry (j : nat) (m : list (option st)) : bool :=
  match nth j m None with Some _ => true | None => false end.
Definition is_recv_entry (c j : nat) (e : event) : bool :=
  match e with ESubRecv c1 m => Nat.eqb c1 c && has_entry j m | _ => false end.

(* subscriber c was not cancelled before Stateable runnable j's Run was invoked: c has taken a
   snapshot with an entry for j (startRunnable broadcasts the map after storing j's initial state, and
   a later subscription starts from a map that has the entry) - unless c took ten or more snapshots
   (its channel may have been full when startRunnable broadcast) *)
Definition sub_entry_ok (c j : nat) (pre : list event) : bool :=
  match split_at (is_call j) pre with
  | Some (p, _) =>
    existsb (is_cancel c) p || existsb (is_recv_entry c j) pre || Nat.leb 10 (count_if (is_recv c) pre)
  | None => true
  end.

(* checked when the consumer sees its channel closed (hence drained) *)
Definition chk_sub_entry (cfg : config) (pre : list event) (e : event) : bool :=
  match e with
  | ESubClosed c => forallb (fun j => negb (stateable (spec cfg j)) || sub_entry_ok c j pre) (seq 0 (nrun cfg))
  | _ => true
  end.
Definition c06_sub_entry (cfg : config) (t : list event) : bool := all_check (chk_sub_entry cfg) t.
