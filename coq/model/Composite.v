(* Executable model of runnables/composite (Runner.Run / Stop / Reload, boot, startRunnable,
   stopAllRunnables, reloadWithRestart, reloadSkipRestart, hasMembershipChanged) as a labelled
   transition system: the schedule is the label list (DESIGN.md 6.1).  No proofs here.

   Threads: RunT (own record fields), one kid goroutine per (boot generation, index),
   the per-child Stop workers of stopAllRunnables, any number of Reload callers and Stop callers.
   reloadMu and runnablesMu are explicit (their sections block on children).  The callback is an
   environment oracle.  Children are environment constrained by a contract ([cspec]):
     - Stop style NonBlocking: Stop signals and returns;
       UntilRunDone (lifecycle.StartStop): Stop signals, then returns only once a Run of the child
       has started at some time and no Run of it is in progress.  The cycle-reset subtlety of
       StartStop (C07) matters here and is kept: a Run that starts after all earlier Runs of the
       same child finished clears the stop signal, and a Stop issued on a child whose earlier Run
       finished returns without waiting for a Run that has been launched but not yet begun.
     - run exit OnSignal (returns nil / a cancellation error once signalled or its context is
       cancelled), Free (may return anything at any time), Never.
   [fix_ms]: hasMembershipChanged compares name multisets (hooks/fix-c09-membership-multiset.patch).
   [fix_c09] selects the candidate repair hooks/fix-c09-composite-stop-during-reload.patch
   (Run takes reloadMu around its stopAllRunnables), committed as /repo 82de565; [fix_c11] the one for
   hasMembershipChanged (/repo 5b52fc2); [fix_lc] the repaired lifecycle.StartStop (/repo b0569e6:
   a blocking Stop() that is overtaken by a new Run cycle of the same child returns instead of
   waiting for that cycle); [fix_stale] the repair
   hooks/fix-c09-composite-stale-stop.patch (every boot has its own context and goroutine group;
   stopAllRunnables, after the Stop() calls returned, cancels that context and waits for the
   goroutines of the generation). *)
From Coq Require Import List NArith Bool.
From GS Require Import Errs.
Import ListNotations.

(* ------------------------------------------------------------------ static data *)

Inductive sstyle := NonBlocking | UntilRunDone.
Inductive rexit := OnSignal | Free | Never.
Inductive rkind := RWC | RPlain | RNone.   (* has ReloadWithConfig / only Reload / neither *)

Record cspec := mkSpec { c_name : N; c_stop : sstyle; c_exit : rexit; c_rk : rkind }.
Record params := mkParams { pool : list cspec; fix_c09 : bool; fix_c11 : bool; fix_stale : bool;
                            fix_lc : bool; fix_ms : bool }.

Definition default_spec : cspec := mkSpec 0%N NonBlocking OnSignal RNone.
Definition spec_of (P : params) (c : N) : cspec := nth (N.to_nat c) (pool P) default_spec.
Definition name_of (P : params) (c : N) : N := c_name (spec_of P c).

(* a configuration: entries (child id, per-entry config value) *)
Definition entry := (N * N)%type.
Definition config := list entry.

Fixpoint insert_N (x : N) (l : list N) : list N :=
  match l with
  | [] => [x]
  | y :: t => match N.compare x y with
              | Lt => x :: l
              | Eq => l
              | Gt => y :: insert_N x t
              end
  end.
(* sorted, duplicate-free *)
Definition sort_N (l : list N) : list N := fold_right insert_N [] l.

Definition names (P : params) (cf : config) : list N := map (fun e => name_of P (fst e)) cf.

(* hasMembershipChanged, as written.
   [fix_ms] (hooks/fix-c09-membership-multiset.patch, the current code): length test, then the names of
   the old configuration are counted (counts[name]++) and every new entry must use up one occurrence of
   its name (counts[name] == 0 -> changed; counts[name]--): "unchanged" iff the two name MULTISETS are
   equal.  [take_out]/[all_taken] are that loop on the list of old names still available.
   Before it: length test, then every new name must be an old name, and ([fix_c11], /repo 5b52fc2) the
   number of distinct new names equals the number of distinct old names - equal name SETS, which lets
   [a;a;b] -> [a;b;b] through as "unchanged"; without [fix_c11] not even that ([a;b] -> [a;a]). *)
Fixpoint take_out (x : N) (l : list N) : option (list N) :=
  match l with
  | [] => None
  | y :: t => if N.eqb x y then Some t
              else match take_out x t with Some t' => Some (y :: t') | None => None end
  end.

Fixpoint all_taken (new avail : list N) : bool :=
  match new with
  | [] => true
  | x :: t => match take_out x avail with Some avail' => all_taken t avail' | None => false end
  end.

Definition membership_changed (P : params) (old new : config) : bool :=
  if negb (Nat.eqb (length old) (length new)) then true
  else if fix_ms P then negb (all_taken (names P new) (names P old))
  else if existsb (fun e => negb (mem_N (name_of P (fst e)) (names P old))) new then true
  else if fix_c11 P then negb (Nat.eqb (length (sort_N (names P new))) (length (sort_N (names P old))))
  else false.

(* ------------------------------------------------------------------ the finite state machine *)

Inductive fstate := FNew | FBooting | FRunning | FReloading | FStopping | FStopped | FError.

(* transitions.Typical *)
Definition allowed (a b : fstate) : bool :=
  match a, b with
  | FNew, FBooting | FNew, FError => true
  | FBooting, FRunning | FBooting, FError => true
  | FRunning, FReloading | FRunning, FStopping | FRunning, FError => true
  | FReloading, FRunning | FReloading, FError => true
  | FStopping, FStopped | FStopping, FError => true
  | FStopped, FNew | FStopped, FError => true
  | FError, FError | FError, FStopping | FError, FStopped => true
  | _, _ => false
  end.

(* ------------------------------------------------------------------ threads *)

Inductive owner := ORun | ORel (k : nat).

Inductive kpc := KLaunched | KInRun | KExited (e : oerr) | KDone.
Record kid := mkKid { k_gen : nat; k_child : N; k_pc : kpc; k_by : owner }.

Inductive wpc := WNew | WCalled | WUnblocked | WDone.
Record worker := mkWorker { w_owner : owner; w_child : N; w_pc : wpc }.

Inductive rpc :=
| RCalled | RCb | RInPlaceSet | RInPlace (i : nat) | RStopBegin | RStopWait | RStopDrain | RSetCfg
| RBootLock | RBootLaunch | RFinish | RRet | RDone.
Inductive rpath := PNone | PFailedFsm | PFailedCb | PInPlace | PRestart.
Record reloader := mkRel {
  r_pc : rpc; r_old : config; r_new : config;
  r_calls : list (N * option N);     (* ghost: ReloadWithConfig(c,v) / Reload(c) calls made *)
  r_path : rpath }.                   (* ghost *)

Inductive spc := SCalled | SWaiting | SDone.

Inductive tpc :=
| TIdle | TCalled | TBootLock | TBootCb | TBootLaunch | TToRunning | TSelect | TTransIf
| TTearLock | TStopBegin | TStopWait | TStopDrain | TToStopped
| TRet (r : oerr)      (* result computed; deferred runCancel()/done() not yet run *)
| TOut (r : oerr)      (* deferred calls done; the caller has not yet observed the return *)
| TDone (r : oerr).

Inductive cbret := CbSome (c : config) | CbNil | CbErr.

Record state := mkState {
  fsm : fstate;
  cfg : option config;               (* currentConfig *)
  pctx : bool;                       (* parent context cancelled *)
  rctx : bool;                       (* Run's context cancelled (children derive from it) *)
  lc_stopped : bool;                 (* the composite's own StartStop: stopCh closed *)
  lc_done : bool;                    (*   doneCh closed *)
  runt : tpc;
  took : option err;                 (* the error Run's select received *)
  reload_mu : option owner;
  run_mu : option owner;             (* runnablesMu *)
  errq : list err;                   (* serverErrors *)
  errcap : nat;
  gen : nat;                         (* number of boots so far *)
  gen_cancelled : nat;               (* boots whose own context has been cancelled (fix_stale) *)
  kids : list kid;
  workers : list worker;
  sigs : list N;                     (* children whose stop signal is set *)
  reloaders : list reloader;
  stoppers : list spc;
  last_cb : option config;           (* ghost: last configuration the callback returned *)
  fail_sent : bool;                  (* ghost: some kid reported a non-benign error *)
  oops : bool                        (* a branch the code cannot take was taken (proved unreachable) *)
}.

Definition init : state :=
  mkState FNew None false false false false TIdle None None None [] 1 0 0 [] [] [] [] [] None false false.

Definition set_fsm v s := mkState v (cfg s) (pctx s) (rctx s) (lc_stopped s) (lc_done s) (runt s) (took s) (reload_mu s) (run_mu s) (errq s) (errcap s) (gen s) (gen_cancelled s) (kids s) (workers s) (sigs s) (reloaders s) (stoppers s) (last_cb s) (fail_sent s) (oops s).
Definition set_cfg v s := mkState (fsm s) v (pctx s) (rctx s) (lc_stopped s) (lc_done s) (runt s) (took s) (reload_mu s) (run_mu s) (errq s) (errcap s) (gen s) (gen_cancelled s) (kids s) (workers s) (sigs s) (reloaders s) (stoppers s) (last_cb s) (fail_sent s) (oops s).
Definition set_pctx v s := mkState (fsm s) (cfg s) v (rctx s) (lc_stopped s) (lc_done s) (runt s) (took s) (reload_mu s) (run_mu s) (errq s) (errcap s) (gen s) (gen_cancelled s) (kids s) (workers s) (sigs s) (reloaders s) (stoppers s) (last_cb s) (fail_sent s) (oops s).
Definition set_rctx v s := mkState (fsm s) (cfg s) (pctx s) v (lc_stopped s) (lc_done s) (runt s) (took s) (reload_mu s) (run_mu s) (errq s) (errcap s) (gen s) (gen_cancelled s) (kids s) (workers s) (sigs s) (reloaders s) (stoppers s) (last_cb s) (fail_sent s) (oops s).
Definition set_lc_stopped v s := mkState (fsm s) (cfg s) (pctx s) (rctx s) v (lc_done s) (runt s) (took s) (reload_mu s) (run_mu s) (errq s) (errcap s) (gen s) (gen_cancelled s) (kids s) (workers s) (sigs s) (reloaders s) (stoppers s) (last_cb s) (fail_sent s) (oops s).
Definition set_lc_done v s := mkState (fsm s) (cfg s) (pctx s) (rctx s) (lc_stopped s) v (runt s) (took s) (reload_mu s) (run_mu s) (errq s) (errcap s) (gen s) (gen_cancelled s) (kids s) (workers s) (sigs s) (reloaders s) (stoppers s) (last_cb s) (fail_sent s) (oops s).
Definition set_runt v s := mkState (fsm s) (cfg s) (pctx s) (rctx s) (lc_stopped s) (lc_done s) v (took s) (reload_mu s) (run_mu s) (errq s) (errcap s) (gen s) (gen_cancelled s) (kids s) (workers s) (sigs s) (reloaders s) (stoppers s) (last_cb s) (fail_sent s) (oops s).
Definition set_took v s := mkState (fsm s) (cfg s) (pctx s) (rctx s) (lc_stopped s) (lc_done s) (runt s) v (reload_mu s) (run_mu s) (errq s) (errcap s) (gen s) (gen_cancelled s) (kids s) (workers s) (sigs s) (reloaders s) (stoppers s) (last_cb s) (fail_sent s) (oops s).
Definition set_reload_mu v s := mkState (fsm s) (cfg s) (pctx s) (rctx s) (lc_stopped s) (lc_done s) (runt s) (took s) v (run_mu s) (errq s) (errcap s) (gen s) (gen_cancelled s) (kids s) (workers s) (sigs s) (reloaders s) (stoppers s) (last_cb s) (fail_sent s) (oops s).
Definition set_run_mu v s := mkState (fsm s) (cfg s) (pctx s) (rctx s) (lc_stopped s) (lc_done s) (runt s) (took s) (reload_mu s) v (errq s) (errcap s) (gen s) (gen_cancelled s) (kids s) (workers s) (sigs s) (reloaders s) (stoppers s) (last_cb s) (fail_sent s) (oops s).
Definition set_errq v s := mkState (fsm s) (cfg s) (pctx s) (rctx s) (lc_stopped s) (lc_done s) (runt s) (took s) (reload_mu s) (run_mu s) v (errcap s) (gen s) (gen_cancelled s) (kids s) (workers s) (sigs s) (reloaders s) (stoppers s) (last_cb s) (fail_sent s) (oops s).
Definition set_errcap v s := mkState (fsm s) (cfg s) (pctx s) (rctx s) (lc_stopped s) (lc_done s) (runt s) (took s) (reload_mu s) (run_mu s) (errq s) v (gen s) (gen_cancelled s) (kids s) (workers s) (sigs s) (reloaders s) (stoppers s) (last_cb s) (fail_sent s) (oops s).
Definition set_gen v s := mkState (fsm s) (cfg s) (pctx s) (rctx s) (lc_stopped s) (lc_done s) (runt s) (took s) (reload_mu s) (run_mu s) (errq s) (errcap s) v (gen_cancelled s) (kids s) (workers s) (sigs s) (reloaders s) (stoppers s) (last_cb s) (fail_sent s) (oops s).
Definition set_gen_cancelled v s := mkState (fsm s) (cfg s) (pctx s) (rctx s) (lc_stopped s) (lc_done s) (runt s) (took s) (reload_mu s) (run_mu s) (errq s) (errcap s) (gen s) v (kids s) (workers s) (sigs s) (reloaders s) (stoppers s) (last_cb s) (fail_sent s) (oops s).
Definition set_kids v s := mkState (fsm s) (cfg s) (pctx s) (rctx s) (lc_stopped s) (lc_done s) (runt s) (took s) (reload_mu s) (run_mu s) (errq s) (errcap s) (gen s) (gen_cancelled s) v (workers s) (sigs s) (reloaders s) (stoppers s) (last_cb s) (fail_sent s) (oops s).
Definition set_workers v s := mkState (fsm s) (cfg s) (pctx s) (rctx s) (lc_stopped s) (lc_done s) (runt s) (took s) (reload_mu s) (run_mu s) (errq s) (errcap s) (gen s) (gen_cancelled s) (kids s) v (sigs s) (reloaders s) (stoppers s) (last_cb s) (fail_sent s) (oops s).
Definition set_sigs v s := mkState (fsm s) (cfg s) (pctx s) (rctx s) (lc_stopped s) (lc_done s) (runt s) (took s) (reload_mu s) (run_mu s) (errq s) (errcap s) (gen s) (gen_cancelled s) (kids s) (workers s) v (reloaders s) (stoppers s) (last_cb s) (fail_sent s) (oops s).
Definition set_reloaders v s := mkState (fsm s) (cfg s) (pctx s) (rctx s) (lc_stopped s) (lc_done s) (runt s) (took s) (reload_mu s) (run_mu s) (errq s) (errcap s) (gen s) (gen_cancelled s) (kids s) (workers s) (sigs s) v (stoppers s) (last_cb s) (fail_sent s) (oops s).
Definition set_stoppers v s := mkState (fsm s) (cfg s) (pctx s) (rctx s) (lc_stopped s) (lc_done s) (runt s) (took s) (reload_mu s) (run_mu s) (errq s) (errcap s) (gen s) (gen_cancelled s) (kids s) (workers s) (sigs s) (reloaders s) v (last_cb s) (fail_sent s) (oops s).
Definition set_last_cb v s := mkState (fsm s) (cfg s) (pctx s) (rctx s) (lc_stopped s) (lc_done s) (runt s) (took s) (reload_mu s) (run_mu s) (errq s) (errcap s) (gen s) (gen_cancelled s) (kids s) (workers s) (sigs s) (reloaders s) (stoppers s) v (fail_sent s) (oops s).
Definition set_fail_sent v s := mkState (fsm s) (cfg s) (pctx s) (rctx s) (lc_stopped s) (lc_done s) (runt s) (took s) (reload_mu s) (run_mu s) (errq s) (errcap s) (gen s) (gen_cancelled s) (kids s) (workers s) (sigs s) (reloaders s) (stoppers s) (last_cb s) v (oops s).
Definition set_oops v s := mkState (fsm s) (cfg s) (pctx s) (rctx s) (lc_stopped s) (lc_done s) (runt s) (took s) (reload_mu s) (run_mu s) (errq s) (errcap s) (gen s) (gen_cancelled s) (kids s) (workers s) (sigs s) (reloaders s) (stoppers s) (last_cb s) (fail_sent s) v.

(* ------------------------------------------------------------------ events and labels *)

Inductive apiop := OpRun | OpStop | OpReload.

(* how the harness can classify Run's result with errors.Is *)
Record rescls := mkCls { rc_nil : bool; rc_failed : bool; rc_leaves : list N; rc_cancel : bool }.

Inductive event :=
| EApiCall (op : apiop) (k : nat)
| EApiRet (op : apiop) (k : nat) (r : rescls)
| ERunCall (c : N)
| ERunRet (c : N) (e : oerr)
| EStopCall (c : N)
| EStopRet (c : N)
| EReloadCfg (c v : N)
| EReloadPlain (c : N)
| ECallback (r : cbret)
| ECancel
| EState (st : fstate).

Inductive label :=
(* API entry (the harness logs the call before making it) and environment *)
| LRunCall | LReloadCall (k : nat) | LStopApi (k : nat) | LCancel | LState (st : fstate)
(* Run *)
| LRunBegin | LToRunning | LSelCtx | LSelStop | LSelErr | LTransIf | LTearLock | LToStopped
| LRunExit | LRunRet (r : oerr)
(* boot / stopAllRunnables / callback, by Run or by a reloader *)
| LBootLock (o : owner) | LBootLaunch (o : owner)
| LStopBegin (o : owner) | LStopCancel (o : owner) | LStopJoin (o : owner)
| LCb (o : owner) (r : cbret)
(* kid goroutines (startRunnable) *)
| LKRun (i : nat) (c : N) | LKExit (i : nat) (c : N) (e : oerr) | LKSend (i : nat)
(* stop workers *)
| LWCall (j : nat) (c : N) | LWUnblock (j : nat) | LWRet (j : nat) (c : N)
(* Reload callers *)
| LRlLock (k : nat) | LRlSetInPlace (k : nat)
| LRlCfg (k : nat) (c v : N) | LRlPlain (k : nat) (c : N) | LRlSkip (k : nat)
| LRlSetCfg (k : nat) | LRlFinish (k : nat) | LRlRet (k : nat)
(* Stop callers *)
| LSSignal (k : nat) | LSRet (k : nat).

(* ------------------------------------------------------------------ helpers *)

Definition classify (r : oerr) : rescls :=
  match r with
  | None => mkCls true false [] false
  | Some e => mkCls false (wraps e id_runnable_failed)
                    (sort_N (filter (fun x => N.leb 2 x) (leaves e))) (is_cancel e)
  end.

Definition cls_nil : rescls := mkCls true false [] false.

(* fmt.Errorf("%w: %w", ErrRunnableFailed, errors.Join(err, nil)) *)
Definition fail_result (e : err) : err := Join [Leaf id_runnable_failed; Join [e]].
Definition internal_err : oerr := Some (Leaf id_internal).

Fixpoint upd {A} (i : nat) (f : A -> A) (l : list A) : list A :=
  match l, i with
  | [], _ => []
  | x :: t, O => f x :: t
  | x :: t, S j => x :: upd j f t
  end.

Definition owner_eqb (a b : owner) : bool :=
  match a, b with
  | ORun, ORun => true
  | ORel x, ORel y => Nat.eqb x y
  | _, _ => false
  end.

Definition kpc_inrun (p : kpc) : bool := match p with KInRun => true | _ => false end.
Definition kpc_begun (p : kpc) : bool := match p with KLaunched => false | _ => true end.

(* a Run of child c is in progress / a Run of c has begun at some time *)
Definition active (c : N) (s : state) : bool :=
  existsb (fun k => N.eqb (k_child k) c && kpc_inrun (k_pc k)) (kids s).
Definition ever (c : N) (s : state) : bool :=
  existsb (fun k => N.eqb (k_child k) c && kpc_begun (k_pc k)) (kids s).

Definition remove_N (c : N) (l : list N) : list N := filter (fun x => negb (N.eqb x c)) l.
Definition add_N (c : N) (l : list N) : list N := if mem_N c l then l else c :: l.

Definition set_kpc (p : kpc) (k : kid) : kid := mkKid (k_gen k) (k_child k) p (k_by k).
Definition set_wpc (p : wpc) (w : worker) : worker := mkWorker (w_owner w) (w_child w) p.
Definition set_rpc (p : rpc) (r : reloader) : reloader :=
  mkRel p (r_old r) (r_new r) (r_calls r) (r_path r).
Definition set_rpath (p : rpath) (r : reloader) : reloader :=
  mkRel (r_pc r) (r_old r) (r_new r) (r_calls r) p.
Definition add_call (x : N * option N) (r : reloader) : reloader :=
  mkRel (r_pc r) (r_old r) (r_new r) (r_calls r ++ [x]) (r_path r).

Definition wdone (w : worker) : bool := match w_pc w with WDone => true | _ => false end.
Definition all_done (o : owner) (s : state) : bool :=
  forallb (fun w => negb (owner_eqb (w_owner w) o) || wdone w) (workers s).

Definition rel_pc (k : nat) (s : state) : option rpc := option_map r_pc (nth_error (reloaders s) k).
Definition upd_rel (k : nat) (f : reloader -> reloader) (s : state) : state :=
  set_reloaders (upd k f (reloaders s)) s.

Definition rpc_is (p q : rpc) : bool :=
  match p, q with
  | RCalled, RCalled | RCb, RCb | RInPlaceSet, RInPlaceSet | RStopBegin, RStopBegin
  | RStopWait, RStopWait | RStopDrain, RStopDrain | RSetCfg, RSetCfg | RBootLock, RBootLock | RBootLaunch, RBootLaunch
  | RFinish, RFinish | RRet, RRet | RDone, RDone => true
  | RInPlace i, RInPlace j => Nat.eqb i j
  | _, _ => false
  end.

Definition mu_free (m : option owner) : bool := match m with None => true | Some _ => false end.

(* Transition(to): Some s' on success, None if the table forbids it *)
Definition transition (to : fstate) (s : state) : option state :=
  if allowed (fsm s) to then Some (set_fsm to s) else None.
Definition set_error (s : state) : state := set_fsm FError s.

(* where Run's teardown goes after the select *)
Definition tear_pc (P : params) : tpc := if fix_c09 P then TTearLock else TStopBegin.

Definition entries_of (s : state) : config := match cfg s with Some c => c | None => [] end.

Definition spawn_workers (o : owner) (es : config) : list worker :=
  map (fun e => mkWorker o (fst e) WNew) (rev es).
Definition spawn_kids (o : owner) (g : nat) (es : config) : list kid :=
  map (fun e => mkKid g (fst e) KLaunched o) es.

(* boot: "if len(cfg.Entries) > cap(r.serverErrors) && state == Booting { r.serverErrors = make(...) }" *)
Definition realloc (s : state) : state :=
  match fsm s with
  | FBooting => if Nat.ltb (errcap s) (length (entries_of s))
                then set_errq [] (set_errcap (length (entries_of s)) s) else s
  | _ => s
  end.

(* pc access for the two procedures shared by Run and the reloaders *)
Definition at_boot_lock (o : owner) (s : state) : bool :=
  match o with
  | ORun => match runt s with TBootLock => true | _ => false end
  | ORel k => match rel_pc k s with Some RBootLock => true | _ => false end
  end.
Definition at_boot_launch (o : owner) (s : state) : bool :=
  match o with
  | ORun => match runt s with TBootLaunch => true | _ => false end
  | ORel k => match rel_pc k s with Some RBootLaunch => true | _ => false end
  end.
Definition at_stop_begin (o : owner) (s : state) : bool :=
  match o with
  | ORun => match runt s with TStopBegin => true | _ => false end
  | ORel k => match rel_pc k s with Some RStopBegin => true | _ => false end
  end.
Definition at_stop_wait (o : owner) (s : state) : bool :=
  match o with
  | ORun => match runt s with TStopWait => true | _ => false end
  | ORel k => match rel_pc k s with Some RStopWait => true | _ => false end
  end.
Definition at_stop_drain (o : owner) (s : state) : bool :=
  match o with
  | ORun => match runt s with TStopDrain => true | _ => false end
  | ORel k => match rel_pc k s with Some RStopDrain => true | _ => false end
  end.
Definition set_opc (o : owner) (tp : tpc) (rp : rpc) (s : state) : state :=
  match o with
  | ORun => set_runt tp s
  | ORel k => upd_rel k (set_rpc rp) s
  end.

(* is the context handed to this child goroutine cancelled? *)
Definition kctx (P : params) (k : kid) (s : state) : bool :=
  rctx s || (fix_stale P && Nat.leb (k_gen k) (gen_cancelled s)).

(* every goroutine of the cancelled generations has finished *)
Definition kdone (k : kid) : bool := match k_pc k with KDone => true | _ => false end.
Definition drained (s : state) : bool :=
  forallb (fun k => negb (Nat.leb (k_gen k) (gen_cancelled s)) || kdone k) (kids s).

(* may a Run of child c return e now?  (the child's contract) *)
Definition exit_ok (P : params) (k : kid) (e : oerr) (s : state) : bool :=
  let c := k_child k in
  match c_exit (spec_of P c) with
  | OnSignal => (mem_N c (sigs s) || kctx P k s) && benign e
  | Free => true
  | Never => false
  end.

Definition is_nonblocking (P : params) (c : N) : bool :=
  match c_stop (spec_of P c) with NonBlocking => true | UntilRunDone => false end.

(* a Stop() worker waiting on child c learns that the cycle it targeted is over *)
Definition release_worker (c : N) (w : worker) : worker :=
  match w_pc w with
  | WCalled => if N.eqb (w_child w) c then mkWorker (w_owner w) (w_child w) WUnblocked else w
  | _ => w
  end.

(* ------------------------------------------------------------------ step *)

Definition step (P : params) (s : state) (l : label) : option state :=
  match l with
  (* ---- environment / API entry ---- *)
  | LRunCall =>
    match runt s with TIdle => Some (set_runt TCalled s) | _ => None end
  | LReloadCall k =>
    if Nat.eqb k (length (reloaders s))
    then Some (set_reloaders (reloaders s ++ [mkRel RCalled [] [] [] PNone]) s) else None
  | LStopApi k =>
    if Nat.eqb k (length (stoppers s))
    then Some (set_stoppers (stoppers s ++ [SCalled]) s) else None
  | LCancel => Some (set_rctx true (set_pctx true s))
  | LState st =>
    match st, fsm s with
    | FNew, FNew | FBooting, FBooting | FRunning, FRunning | FReloading, FReloading
    | FStopping, FStopping | FStopped, FStopped | FError, FError => Some s
    | _, _ => None
    end
  (* ---- Run ---- *)
  | LRunBegin =>
    match runt s with
    | TCalled =>
      let s1 := set_rctx (pctx s) s in
      match transition FBooting s1 with
      | Some s2 => Some (set_runt TBootLock s2)
      | None => Some (set_runt (TRet internal_err) s1)
      end
    | _ => None
    end
  | LToRunning =>
    match runt s with
    | TToRunning =>
      match transition FRunning s with
      | Some s2 => Some (set_runt TSelect s2)
      | None => Some (set_runt (TRet internal_err) (set_error s))
      end
    | _ => None
    end
  | LSelCtx =>
    match runt s with
    | TSelect => if rctx s then Some (set_runt TTransIf s) else None
    | _ => None
    end
  | LSelStop =>
    match runt s with
    | TSelect => if lc_stopped s then Some (set_runt TTransIf (set_rctx true s)) else None
    | _ => None
    end
  | LSelErr =>
    match runt s, errq s with
    | TSelect, e :: q =>
      Some (set_runt (tear_pc P) (set_error (set_took (Some e) (set_errq q s))))
    | _, _ => None
    end
  | LTransIf =>
    match runt s with
    | TTransIf =>
      let s1 := match fsm s with FRunning => set_fsm FStopping s | _ => s end in
      Some (set_runt (tear_pc P) s1)
    | _ => None
    end
  | LTearLock =>
    match runt s with
    | TTearLock =>
      if mu_free (reload_mu s) then Some (set_runt TStopBegin (set_reload_mu (Some ORun) s)) else None
    | _ => None
    end
  | LToStopped =>
    match runt s with
    | TToStopped =>
      match transition FStopped s with
      | Some s2 => Some (set_runt (TRet None) s2)
      | None => Some (set_runt (TRet internal_err) (set_error s))
      end
    | _ => None
    end
  | LRunExit =>
    match runt s with
    | TRet r => Some (set_runt (TOut r) (set_lc_done true (set_rctx true s)))
    | _ => None
    end
  | LRunRet r =>
    match runt s with
    | TOut r' => if oerr_eqb r r' then Some (set_runt (TDone r') s) else None
    | _ => None
    end
  (* ---- boot ---- *)
  | LBootLock o =>
    if at_boot_lock o s && mu_free (run_mu s) then
      let s1 := set_run_mu (Some o) s in
      match cfg s, o with
      | Some _, _ => Some (set_opc o TBootLaunch RBootLaunch s1)
      | None, ORun => Some (set_runt TBootCb s1)
      | None, ORel _ => Some (set_oops true s1)
      end
    else None
  | LBootLaunch o =>
    if at_boot_launch o s then
      let s1 := realloc s in
      let s2 := set_kids (kids s ++ spawn_kids o (S (gen s)) (entries_of s)) (set_gen (S (gen s)) s1) in
      Some (set_opc o TToRunning RFinish (set_run_mu None s2))
    else None
  (* ---- stopAllRunnables ---- *)
  | LStopBegin o =>
    if at_stop_begin o s && mu_free (run_mu s) then
      let s1 := set_run_mu (Some o) s in
      let s2 := match cfg s with Some _ => s1 | None => set_oops true s1 end in
      Some (set_opc o TStopWait RStopWait
              (set_workers (workers s2 ++ spawn_workers o (entries_of s)) s2))
    else None
  | LStopCancel o =>
    (* fix_stale: wg.Wait() returned; genCancel() *)
    if fix_stale P && at_stop_wait o s && all_done o s
    then Some (set_opc o TStopDrain RStopDrain (set_gen_cancelled (gen s) s)) else None
  | LStopJoin o =>
    if (if fix_stale P then at_stop_drain o s && drained s else at_stop_wait o s && all_done o s) then
      let s1 := set_run_mu None s in
      match o with
      | ORun =>
        let s2 := if fix_c09 P then set_reload_mu None s1 else s1 in
        match took s with
        | Some e => Some (set_runt (TRet (Some (fail_result e))) s2)
        | None => Some (set_runt TToStopped s2)
        end
      | ORel k => Some (upd_rel k (set_rpc RSetCfg) s1)
      end
    else None
  (* ---- the configuration callback ---- *)
  | LCb ORun r =>
    match runt s with
    | TBootCb =>
      match r with
      | CbSome c => Some (set_runt TBootLaunch (set_last_cb (Some c) (set_cfg (Some c) s)))
      | _ => Some (set_runt (TRet internal_err) (set_error (set_run_mu None s)))
      end
    | _ => None
    end
  | LCb (ORel k) r =>
    match rel_pc k s with
    | Some RCb =>
      match r with
      | CbSome nc =>
        let oc := entries_of s in
        let ch := membership_changed P oc nc in
        Some (upd_rel k (fun x => mkRel (if ch then RStopBegin else RInPlaceSet) oc nc (r_calls x)
                                        (if ch then PRestart else PInPlace))
                      (set_last_cb (Some nc) s))
      | _ =>
        Some (upd_rel k (fun x => set_rpath PFailedCb (set_rpc RRet x))
                      (set_reload_mu None (set_error s)))
      end
    | _ => None
    end
  (* ---- kids ---- *)
  | LKRun i c =>
    match nth_error (kids s) i with
    | Some k =>
      match k_pc k with
      | KLaunched =>
        if N.eqb (k_child k) c then
          let reset := ever c s && negb (active c s) in
          let sg := if reset then remove_N c (sigs s) else sigs s in
          (* repaired lifecycle: the cycle reset releases the Stop() callers that were waiting *)
          let ws := if reset && fix_lc P then map (release_worker c) (workers s) else workers s in
          Some (set_workers ws (set_sigs sg (set_kids (upd i (set_kpc KInRun) (kids s)) s)))
        else None
      | _ => None
      end
    | None => None
    end
  | LKExit i c e =>
    match nth_error (kids s) i with
    | Some k =>
      match k_pc k with
      | KInRun =>
        if N.eqb (k_child k) c && exit_ok P k e s
        then Some (set_kids (upd i (set_kpc (if benign e then KDone else KExited e)) (kids s)) s)
        else None
      | _ => None
      end
    | None => None
    end
  | LKSend i =>
    match nth_error (kids s) i with
    | Some k =>
      match k_pc k with
      | KExited e =>
        let s1 := set_kids (upd i (set_kpc KDone) (kids s)) s in
        match e with
        | None => Some s1
        | Some x =>
          if is_cancel x then Some s1
          else
            let s2 := set_fail_sent true s1 in
            if Nat.ltb (length (errq s)) (errcap s)
            then Some (set_errq (errq s ++ [Wrap x]) s2) else Some s2
        end
      | _ => None
      end
    | None => None
    end
  (* ---- stop workers ---- *)
  | LWCall j c =>
    match nth_error (workers s) j with
    | Some w =>
      match w_pc w with
      | WNew =>
        if N.eqb (w_child w) c
        then Some (set_sigs (add_N c (sigs s)) (set_workers (upd j (set_wpc WCalled) (workers s)) s))
        else None
      | _ => None
      end
    | None => None
    end
  | LWUnblock j =>
    match nth_error (workers s) j with
    | Some w =>
      match w_pc w with
      | WCalled =>
        if negb (is_nonblocking P (w_child w)) && ever (w_child w) s && negb (active (w_child w) s)
        then Some (set_workers (upd j (set_wpc WUnblocked) (workers s)) s) else None
      | _ => None
      end
    | None => None
    end
  | LWRet j c =>
    match nth_error (workers s) j with
    | Some w =>
      if N.eqb (w_child w) c then
        match w_pc w with
        | WUnblocked => Some (set_workers (upd j (set_wpc WDone) (workers s)) s)
        | WCalled => if is_nonblocking P c
                     then Some (set_workers (upd j (set_wpc WDone) (workers s)) s) else None
        | _ => None
        end
      else None
    | None => None
    end
  (* ---- Reload callers ---- *)
  | LRlLock k =>
    match rel_pc k s with
    | Some RCalled =>
      if mu_free (reload_mu s) then
        match transition FReloading s with
        | Some s2 => Some (upd_rel k (set_rpc RCb) (set_reload_mu (Some (ORel k)) s2))
        | None => Some (upd_rel k (fun x => set_rpath PFailedFsm (set_rpc RRet x)) (set_error s))
        end
      else None
    | _ => None
    end
  | LRlSetInPlace k =>
    match nth_error (reloaders s) k with
    | Some x =>
      match r_pc x with
      | RInPlaceSet => Some (upd_rel k (set_rpc (RInPlace 0)) (set_cfg (Some (r_new x)) s))
      | _ => None
      end
    | None => None
    end
  | LRlCfg k c v =>
    match nth_error (reloaders s) k with
    | Some x =>
      match r_pc x with
      | RInPlace i =>
        match nth_error (r_new x) i, c_rk (spec_of P c) with
        | Some (c', v'), RWC =>
          if N.eqb c c' && N.eqb v v'
          then Some (upd_rel k (fun y => add_call (c, Some v) (set_rpc (RInPlace (S i)) y)) s)
          else None
        | _, _ => None
        end
      | _ => None
      end
    | None => None
    end
  | LRlPlain k c =>
    match nth_error (reloaders s) k with
    | Some x =>
      match r_pc x with
      | RInPlace i =>
        match nth_error (r_new x) i, c_rk (spec_of P c) with
        | Some (c', _), RPlain =>
          if N.eqb c c'
          then Some (upd_rel k (fun y => add_call (c, None) (set_rpc (RInPlace (S i)) y)) s)
          else None
        | _, _ => None
        end
      | _ => None
      end
    | None => None
    end
  | LRlSkip k =>
    match nth_error (reloaders s) k with
    | Some x =>
      match r_pc x with
      | RInPlace i =>
        match nth_error (r_new x) i with
        | Some (c', _) =>
          match c_rk (spec_of P c') with
          | RNone => Some (upd_rel k (set_rpc (RInPlace (S i))) s)
          | _ => None
          end
        | None => None
        end
      | _ => None
      end
    | None => None
    end
  | LRlSetCfg k =>
    match nth_error (reloaders s) k with
    | Some x =>
      match r_pc x with
      | RSetCfg => Some (upd_rel k (set_rpc RBootLock) (set_cfg (Some (r_new x)) s))
      | _ => None
      end
    | None => None
    end
  | LRlFinish k =>
    match nth_error (reloaders s) k with
    | Some x =>
      let fin := match r_pc x with
                 | RFinish => true
                 | RInPlace i => match nth_error (r_new x) i with None => true | Some _ => false end
                 | _ => false
                 end in
      if fin then
        let s1 := match transition FRunning s with Some s2 => s2 | None => set_error s end in
        Some (upd_rel k (set_rpc RRet) (set_reload_mu None s1))
      else None
    | None => None
    end
  | LRlRet k =>
    match rel_pc k s with
    | Some RRet => Some (upd_rel k (set_rpc RDone) s)
    | _ => None
    end
  (* ---- Stop callers ---- *)
  | LSSignal k =>
    match nth_error (stoppers s) k with
    | Some SCalled => Some (set_lc_stopped true (set_stoppers (upd k (fun _ => SWaiting) (stoppers s)) s))
    | _ => None
    end
  | LSRet k =>
    match nth_error (stoppers s) k with
    | Some SWaiting =>
      if lc_done s then Some (set_stoppers (upd k (fun _ => SDone) (stoppers s)) s) else None
    | _ => None
    end
  end.

(* ------------------------------------------------------------------ observation *)

Definition obs (l : label) : option event :=
  match l with
  | LRunCall => Some (EApiCall OpRun 0)
  | LReloadCall k => Some (EApiCall OpReload k)
  | LStopApi k => Some (EApiCall OpStop k)
  | LCancel => Some ECancel
  | LState st => Some (EState st)
  | LRunRet r => Some (EApiRet OpRun 0 (classify r))
  | LCb _ r => Some (ECallback r)
  | LKRun _ c => Some (ERunCall c)
  | LKExit _ c e => Some (ERunRet c e)
  | LWCall _ c => Some (EStopCall c)
  | LWRet _ c => Some (EStopRet c)
  | LRlCfg _ c v => Some (EReloadCfg c v)
  | LRlPlain _ c => Some (EReloadPlain c)
  | LRlRet k => Some (EApiRet OpReload k cls_nil)
  | LSRet k => Some (EApiRet OpStop k cls_nil)
  | _ => None
  end.

(* ------------------------------------------------------------------ acceptor plumbing *)

Definition fstate_eqb (a b : fstate) : bool :=
  match a, b with
  | FNew, FNew | FBooting, FBooting | FRunning, FRunning | FReloading, FReloading
  | FStopping, FStopping | FStopped, FStopped | FError, FError => true
  | _, _ => false
  end.
Definition apiop_eqb (a b : apiop) : bool :=
  match a, b with OpRun, OpRun | OpStop, OpStop | OpReload, OpReload => true | _, _ => false end.
Definition entry_eqb (a b : entry) : bool := N.eqb (fst a) (fst b) && N.eqb (snd a) (snd b).
Definition cbret_eqb (a b : cbret) : bool :=
  match a, b with
  | CbSome x, CbSome y => list_eqb entry_eqb x y
  | CbNil, CbNil | CbErr, CbErr => true
  | _, _ => false
  end.
Definition cls_eqb (a b : rescls) : bool :=
  Bool.eqb (rc_nil a) (rc_nil b) && Bool.eqb (rc_failed a) (rc_failed b) &&
  list_eqb N.eqb (rc_leaves a) (rc_leaves b) && Bool.eqb (rc_cancel a) (rc_cancel b).

Definition event_eqb (a b : event) : bool :=
  match a, b with
  | EApiCall o k, EApiCall o' k' => apiop_eqb o o' && Nat.eqb k k'
  | EApiRet o k r, EApiRet o' k' r' => apiop_eqb o o' && Nat.eqb k k' && cls_eqb r r'
  | ERunCall c, ERunCall c' => N.eqb c c'
  | ERunRet c e, ERunRet c' e' => N.eqb c c' && oerr_eqb e e'
  | EStopCall c, EStopCall c' => N.eqb c c'
  | EStopRet c, EStopRet c' => N.eqb c c'
  | EReloadCfg c v, EReloadCfg c' v' => N.eqb c c' && N.eqb v v'
  | EReloadPlain c, EReloadPlain c' => N.eqb c c'
  | ECallback r, ECallback r' => cbret_eqb r r'
  | ECancel, ECancel => true
  | EState x, EState y => fstate_eqb x y
  | _, _ => false
  end.

Definition owners (s : state) : list owner := ORun :: map ORel (seq 0 (length (reloaders s))).

(* candidate internal labels *)
Definition taus (s : state) : list label :=
  [LRunBegin; LToRunning; LSelCtx; LSelStop; LSelErr; LTransIf; LTearLock; LToStopped; LRunExit]
  ++ flat_map (fun o => [LBootLock o; LBootLaunch o; LStopBegin o; LStopCancel o; LStopJoin o]) (owners s)
  ++ map LKSend (seq 0 (length (kids s)))
  ++ map LWUnblock (seq 0 (length (workers s)))
  ++ flat_map (fun k => [LRlLock k; LRlSetInPlace k; LRlSkip k; LRlSetCfg k; LRlFinish k])
              (seq 0 (length (reloaders s)))
  ++ map LSSignal (seq 0 (length (stoppers s))).

(* candidate labels for an observed event *)
Definition vis (s : state) (e : event) : list label :=
  match e with
  | EApiCall OpRun _ => [LRunCall]
  | EApiCall OpReload k => [LReloadCall k]
  | EApiCall OpStop k => [LStopApi k]
  | EApiRet OpRun _ _ => match runt s with TOut r => [LRunRet r] | _ => [] end
  | EApiRet OpReload k _ => [LRlRet k]
  | EApiRet OpStop k _ => [LSRet k]
  | ERunCall c => map (fun i => LKRun i c) (seq 0 (length (kids s)))
  | ERunRet c e => map (fun i => LKExit i c e) (seq 0 (length (kids s)))
  | EStopCall c => map (fun j => LWCall j c) (seq 0 (length (workers s)))
  | EStopRet c => map (fun j => LWRet j c) (seq 0 (length (workers s)))
  | EReloadCfg c v => map (fun k => LRlCfg k c v) (seq 0 (length (reloaders s)))
  | EReloadPlain c => map (fun k => LRlPlain k c) (seq 0 (length (reloaders s)))
  | ECallback r => map (fun o => LCb o r) (owners s)
  | ECancel => [LCancel]
  | EState st => [LState st]
  end.

(* ---- deduplication key (soundness of the acceptor does not depend on it) ---- *)

Definition kb (b : bool) : N := if b then 1%N else 0%N.
Definition kn (n : nat) : N := N.of_nat n.
Fixpoint kerr (e : err) : list N :=
  match e with
  | Leaf x => [0%N; x]
  | Canceled => [1%N]
  | Deadline => [2%N]
  | Wrap x => 3%N :: kerr x
  | Join es => 4%N :: kn (length es) ::
               (fix go (l : list err) : list N := match l with [] => [] | x :: t => kerr x ++ go t end) es
  end.
Definition koerr (e : oerr) : list N := match e with None => [0%N] | Some x => 1%N :: kerr x end.
Definition kowner (o : owner) : list N := match o with ORun => [0%N] | ORel k => [1%N; kn k] end.
Definition koowner (o : option owner) : list N := match o with None => [0%N] | Some x => 1%N :: kowner x end.
Definition kcfg (c : config) : list N :=
  kn (length c) :: flat_map (fun e => [fst e; snd e]) c.
Definition kocfg (c : option config) : list N := match c with None => [0%N] | Some x => 1%N :: kcfg x end.
Definition kfsm (f : fstate) : N :=
  match f with FNew => 0 | FBooting => 1 | FRunning => 2 | FReloading => 3 | FStopping => 4
             | FStopped => 5 | FError => 6 end%N.
Definition ktpc (p : tpc) : list N :=
  match p with
  | TIdle => [0] | TCalled => [1] | TBootLock => [2] | TBootCb => [3] | TBootLaunch => [4]
  | TToRunning => [5] | TSelect => [6] | TTransIf => [7] | TTearLock => [8] | TStopBegin => [9]
  | TStopWait => [10] | TToStopped => [11] | TRet r => 12 :: koerr r | TDone r => 13 :: koerr r
  | TOut r => 14 :: koerr r | TStopDrain => [15]
  end%N.
Definition kkpc (p : kpc) : list N :=
  match p with KLaunched => [0] | KInRun => [1] | KExited e => 2 :: koerr e | KDone => [3] end%N.
Definition kwpc (p : wpc) : N :=
  match p with WNew => 0 | WCalled => 1 | WUnblocked => 2 | WDone => 3 end%N.
Definition krpc (p : rpc) : list N :=
  match p with
  | RCalled => [0] | RCb => [1] | RInPlaceSet => [2] | RInPlace i => [3; kn i] | RStopBegin => [4]
  | RStopWait => [5] | RSetCfg => [6] | RBootLock => [7] | RBootLaunch => [8] | RFinish => [9]
  | RRet => [10] | RDone => [11] | RStopDrain => [12]
  end%N.
Definition kspc (p : spc) : N := match p with SCalled => 0 | SWaiting => 1 | SDone => 2 end%N.
Definition krpath (p : rpath) : N :=
  match p with PNone => 0 | PFailedFsm => 1 | PFailedCb => 2 | PInPlace => 3 | PRestart => 4 end%N.

Definition key (s : state) : list N :=
  [kfsm (fsm s); kb (pctx s); kb (rctx s); kb (lc_stopped s); kb (lc_done s);
   kb (fail_sent s); kb (oops s); kn (errcap s); kn (gen s); kn (gen_cancelled s)]
  ++ kocfg (cfg s) ++ ktpc (runt s)
  ++ match took s with None => [0%N] | Some e => 1%N :: kerr e end
  ++ koowner (reload_mu s) ++ koowner (run_mu s)
  ++ kn (length (errq s)) :: flat_map kerr (errq s)
  ++ kn (length (kids s)) :: flat_map (fun k => kn (k_gen k) :: k_child k :: kkpc (k_pc k) ++ kowner (k_by k)) (kids s)
  ++ kn (length (workers s)) :: flat_map (fun w => w_child w :: kwpc (w_pc w) :: kowner (w_owner w)) (workers s)
  ++ kn (length (sigs s)) :: sort_N (sigs s)
  ++ kn (length (reloaders s)) ::
     flat_map (fun r => krpc (r_pc r) ++ kcfg (r_old r) ++ kcfg (r_new r) ++ [kn (length (r_calls r)); krpath (r_path r)])
              (reloaders s)
  ++ kn (length (stoppers s)) :: map kspc (stoppers s)
  ++ kocfg (last_cb s).
