(* Protocol model of runnables/httpserver/{runner,reload,state}.go as a labelled transition
   system for LTS.accept_from (DESIGN.md 6.2).  The schedule is the label list; every
   nondeterministic choice (scheduler, select among ready cases, environment, result of
   http.Server.Shutdown) is in the choice of label.

   Threads: the Run thread, one serve goroutine per boot, any number of Reload and Stop
   callers.  r.mutex is explicit ([holder]); serverCloseOnce is [once_done], re-armed by boot;
   [server] is the r.server pointer; [errs] is the serverErrors channel (cap 1).

   MODELLED, NOT VERIFIED (assumed behaviour of external code):
   * net/http.Server and the kernel socket table: the abstract network [net]:
     ListenAndServe binds iff the address is free, otherwise returns a bind error;
     Shutdown unbinds first and returns later with ok / deadline / other error (its result is
     a free choice here; the timed model HttpDrain.v constrains it); a dial succeeds iff the
     address is bound by anyone.  Addresses are opaque strings (no aliasing, no ":0").
   * http.ServeMux: the oracle [mux_ok] (a deterministic function of the ordered pattern
     list): false = ServeMux.Handle panics while getMux registers the routes.
   * timing assumption T1: the serve goroutine reaches net.Listen before the first 100 ms tick
     of the readiness probe, and an error already waiting in serverErrors is taken by the
     probe's select before a tick (the select has been blocked on it since t=0).
   [validated] selects the code as it is (false) or with the candidate repair of NewConfig
   (true: trial registration on a scratch mux, error instead of a later panic). *)
From Coq Require Export List NArith ZArith Bool.
From GS Require Export HttpCfg.
From GS Require Import LTS.
Export ListNotations.

Inductive fsm := FNew | FBooting | FRunning | FReloading | FStopping | FStopped | FError | FUnknown.

(* go-fsm transitions.Typical *)
Definition fsm_allowed (a b : fsm) : bool :=
  match a, b with
  | FNew, FBooting | FNew, FError
  | FBooting, FRunning | FBooting, FError
  | FRunning, FReloading | FRunning, FStopping | FRunning, FError
  | FReloading, FRunning | FReloading, FError
  | FStopping, FStopped | FStopping, FError
  | FStopped, FNew | FStopped, FError
  | FError, FError | FError, FStopping | FError, FStopped
  | FUnknown, FUnknown => true
  | _, _ => false
  end.

Definition fsm_code (f : fsm) : N :=
  match f with FNew => 0 | FBooting => 1 | FRunning => 2 | FReloading => 3 | FStopping => 4
             | FStopped => 5 | FError => 6 | FUnknown => 7 end%N.
Definition fsm_eqb (a b : fsm) : bool := N.eqb (fsm_code a) (fsm_code b).

Inductive owner := Foreign | Own (sid : nat).
Inductive who := ByRun | ByReload (i : nat).

(* result of one stopServer / http.Server.Shutdown *)
Inductive sres := SOk | STimeout | SFail | SNotRunning.
(* what Run returns *)
Inductive rres := ROk | RBootErr | RHttpErr | RStop (r : sres) | RTransErr.
(* what the configuration callback returns at reload time *)
(* CbErrOld: an error that wraps the exported sentinel ErrOldConfig.  reloadConfig wraps every callback error as
   "%w: %w" (ErrConfigCallback, err) and Reload tests errors.Is(err, ErrOldConfig) BEFORE the default branch, so such
   an error takes the "Config unchanged, skipping reload" path: the state returns to Running, nothing is touched. *)
Inductive cbres := CbErr | CbErrOld | CbNil | CbCfg (c : config).

Definition sres_code (r : sres) : N := match r with SOk => 0 | STimeout => 1 | SFail => 2 | SNotRunning => 3 end%N.
Definition rres_code (r : rres) : N :=
  match r with ROk => 0 | RBootErr => 1 | RHttpErr => 2 | RTransErr => 3 | RStop x => 4 + sres_code x end%N.

Inductive sv_pc := SvStart | SvListening | SvFailed | SvExited.
Record srv := { s_cfg : config; s_pc : sv_pc; s_shut : bool }.

Inductive run_pc :=
| RNew | RCalled | RWantBoot | RInBoot | RBooted | RSelect | RWantStop | RInStop
| RStopDone (r : sres)   (* shutdown(): stopServer returned r and r.mutex is released; Transition(Stopped) /
                            setStateError still to come (a Reload caller can take the mutex in between) *)
| RRet (r : rres) | RDone.

(* what the holder of r.mutex is doing *)
Inductive crit :=
| KFree
| KFetch            (* Reload: Transition(Reloading) done, callback not yet called *)
| KUnchanged        (* Reload: Equal said unchanged, Transition(Running) pending *)
| KStopPending      (* Reload after setConfig(new) / Run.shutdown: about to stopServer *)
| KStopWait (sid : nat)   (* stopServer: Shutdown(sid) called *)
| KWantBoot         (* about to boot *)
| KProbe (sid : nat)      (* boot: server created and goroutine spawned; readiness probe *)
| KBootFail (sid : nat)   (* boot: probe failed, stopServer(new) pending *)
| KCleanup (sid : nat)    (* boot: Shutdown(new) called *)
| KFinish.          (* Reload: boot ok, Transition(Running) pending *)

Record state := {
  fsm_st : fsm;
  cur : config;                 (* r.config *)
  server : option nat;          (* r.server *)
  once_done : bool;             (* serverCloseOnce *)
  errs : list nat;              (* serverErrors (cap 1): the sid whose ListenAndServe failed *)
  servers : list srv;           (* every server ever created; sid = index *)
  net : list (str * owner);     (* the socket table *)
  rpc : run_pc;
  holder : option who;          (* r.mutex *)
  kpc : crit;
  rl_wait : list nat;           (* Reload callers that have not yet locked the mutex *)
  rl_ret : list nat;            (* Reload callers about to return *)
  stoppers : list nat;          (* Stop callers inside lc.Stop *)
  stop_req : bool;              (* stopCh closed *)
  cancelled : bool;             (* parent context cancelled *)
  run_cancelled : bool;         (* runCancel() called *)
  crashed : bool                (* the process panicked *)
}.

Inductive label :=
| LRunCall | LRunStart | LRunLock | LRunFinishBoot | LRunWake | LRunServeErr | LRunLockStop | LRunFinishStop
| LRunRet (r : rres)
| LStopCall (j : nat) | LStopRet (j : nat) | LCancel
| LReloadCall (i : nat) | LReloadBegin (i : nat) | LReloadRet (i : nat)
| LFetch (r : cbres) | LUnchanged | LFinish
| LStopSkip | LStopCallS (sid : nat) | LShutdownRet (sid : nat) (r : sres)
| LBootReject | LBootCrash | LBootCreate (sid : nat) (c : config)
| LProbeOk | LProbeErr | LProbeCancelled | LProbeTimeout | LCleanupCall (sid : nat)
| LBindOk (sid : nat) | LBindFail (sid : nat) | LPushErr (sid : nat) | LLasClosed (sid : nat)
| LServeSkip (sid : nat)
| LForeignBind (a : str) | LForeignFree (a : str)
| LObsState (f : fsm) | LObsDial (a : str) (b : bool)
| LObsServe (a : str) (tbl : list (str * option str))
| LObsCensus (n : nat)
| LQuiesce.

Inductive event :=
| ERunCall | ERunRet (r : rres)
| EStopCall (j : nat) | EStopRet (j : nat) | ECancel
| EReloadCall (i : nat) | EReloadRet (i : nat)
| ECallback (r : cbres)
| EShutdownCall (sid : nat) | EShutdownRet (sid : nat) (r : sres)
| ECreate (sid : nat) (c : config)
| ECrash
| ELasFail (sid : nat) | ELasClosed (sid : nat)
| EForeignBind (a : str) | EForeignFree (a : str)
| EState (f : fsm) | EDial (a : str) (b : bool) | EServe (a : str) (tbl : list (str * option str))
| ECensus (n : nat)
| EQuiesce.

Definition obs (l : label) : option event :=
  match l with
  | LRunCall => Some ERunCall
  | LRunRet r => Some (ERunRet r)
  | LStopCall j => Some (EStopCall j)
  | LStopRet j => Some (EStopRet j)
  | LCancel => Some ECancel
  | LReloadCall i => Some (EReloadCall i)
  | LReloadRet i => Some (EReloadRet i)
  | LFetch r => Some (ECallback r)
  | LStopCallS sid => Some (EShutdownCall sid)
  | LCleanupCall sid => Some (EShutdownCall sid)
  | LShutdownRet sid r => Some (EShutdownRet sid r)
  | LBootCreate sid c => Some (ECreate sid c)
  | LBootCrash => Some ECrash
  | LBindFail sid => Some (ELasFail sid)
  | LLasClosed sid => Some (ELasClosed sid)
  | LForeignBind a => Some (EForeignBind a)
  | LForeignFree a => Some (EForeignFree a)
  | LObsState f => Some (EState f)
  | LObsDial a b => Some (EDial a b)
  | LObsServe a t => Some (EServe a t)
  | LObsCensus n => Some (ECensus n)
  | LQuiesce => Some EQuiesce
  | _ => None
  end.

(* ---- small helpers ---- *)

Fixpoint mem (x : nat) (l : list nat) : bool :=
  match l with [] => false | y :: t => Nat.eqb x y || mem x t end.
Fixpoint remove1 (x : nat) (l : list nat) : list nat :=
  match l with [] => [] | y :: t => if Nat.eqb x y then t else y :: remove1 x t end.

Fixpoint net_get (n : list (str * owner)) (a : str) : option owner :=
  match n with
  | [] => None
  | (k, o) :: t => if str_eqb k a then Some o else net_get t a
  end.
Definition owner_eqb (a b : owner) : bool :=
  match a, b with Foreign, Foreign => true | Own i, Own j => Nat.eqb i j | _, _ => false end.
(* a foreign process closes its listener on address a *)
Fixpoint net_del (n : list (str * owner)) (a : str) : list (str * owner) :=
  match n with
  | [] => []
  | (k, o) :: t => if str_eqb k a && owner_eqb o Foreign then net_del t a else (k, o) :: net_del t a
  end.
(* http.Server.Shutdown closes the listeners of that server only *)
Fixpoint net_unbind (n : list (str * owner)) (sid : nat) : list (str * owner) :=
  match n with
  | [] => []
  | (k, o) :: t => if owner_eqb o (Own sid) then net_unbind t sid else (k, o) :: net_unbind t sid
  end.
Definition bound_any (n : list (str * owner)) (a : str) : bool :=
  match net_get n a with Some _ => true | None => false end.

Fixpoint upd_srv (l : list srv) (i : nat) (f : srv -> srv) : list srv :=
  match l, i with
  | [], _ => []
  | x :: t, O => f x :: t
  | x :: t, S k => x :: upd_srv t k f
  end.
Definition set_pc (p : sv_pc) (x : srv) : srv := {| s_cfg := s_cfg x; s_pc := p; s_shut := s_shut x |}.
Definition set_shut (x : srv) : srv := {| s_cfg := s_cfg x; s_pc := s_pc x; s_shut := true |}.

Definition sv_pc_code (p : sv_pc) : N :=
  match p with SvStart => 0 | SvListening => 1 | SvFailed => 2 | SvExited => 3 end%N.
Definition sv_pc_eqb (a b : sv_pc) : bool := N.eqb (sv_pc_code a) (sv_pc_code b).

(* the route a request for path p reaches on a server created from routes rs: getMux registers
   route.Path -> &route for each route (first registration; a second one would have panicked) *)
Fixpoint route_of_path (rs : list route) (p : str) : option str :=
  match rs with
  | [] => None
  | r :: t => if str_eqb (rpath r) p then Some (rname r) else route_of_path t p
  end.
Definition ostr_eqb (a b : option str) : bool :=
  match a, b with None, None => true | Some x, Some y => str_eqb x y | _, _ => false end.

Definition ctx_cancelled (s : state) : bool := cancelled s || run_cancelled s.

(* C18: the goroutines the runner creates on its own behalf are the serve goroutines started by boot()
   ("go func() { server.ListenAndServe() ... }()"): one per server ever created, alive until ListenAndServe has
   returned and (after a bind failure) its error has been sent.  Run, Reload and stopServer start nothing else. *)
Definition serve_alive (x : srv) : bool := negb (sv_pc_eqb (s_pc x) SvExited).
Definition census (s : state) : nat := length (filter serve_alive (servers s)).

(* record updates *)
Definition with_fsm (s : state) f := {| fsm_st := f; cur := cur s; server := server s; once_done := once_done s;
  errs := errs s; servers := servers s; net := net s; rpc := rpc s; holder := holder s; kpc := kpc s;
  rl_wait := rl_wait s; rl_ret := rl_ret s; stoppers := stoppers s; stop_req := stop_req s;
  cancelled := cancelled s; run_cancelled := run_cancelled s; crashed := crashed s |}.
Definition with_cur (s : state) c := {| fsm_st := fsm_st s; cur := c; server := server s; once_done := once_done s;
  errs := errs s; servers := servers s; net := net s; rpc := rpc s; holder := holder s; kpc := kpc s;
  rl_wait := rl_wait s; rl_ret := rl_ret s; stoppers := stoppers s; stop_req := stop_req s;
  cancelled := cancelled s; run_cancelled := run_cancelled s; crashed := crashed s |}.
Definition with_server (s : state) v o := {| fsm_st := fsm_st s; cur := cur s; server := v; once_done := o;
  errs := errs s; servers := servers s; net := net s; rpc := rpc s; holder := holder s; kpc := kpc s;
  rl_wait := rl_wait s; rl_ret := rl_ret s; stoppers := stoppers s; stop_req := stop_req s;
  cancelled := cancelled s; run_cancelled := run_cancelled s; crashed := crashed s |}.
Definition with_errs (s : state) e := {| fsm_st := fsm_st s; cur := cur s; server := server s; once_done := once_done s;
  errs := e; servers := servers s; net := net s; rpc := rpc s; holder := holder s; kpc := kpc s;
  rl_wait := rl_wait s; rl_ret := rl_ret s; stoppers := stoppers s; stop_req := stop_req s;
  cancelled := cancelled s; run_cancelled := run_cancelled s; crashed := crashed s |}.
Definition with_srvnet (s : state) sv n := {| fsm_st := fsm_st s; cur := cur s; server := server s; once_done := once_done s;
  errs := errs s; servers := sv; net := n; rpc := rpc s; holder := holder s; kpc := kpc s;
  rl_wait := rl_wait s; rl_ret := rl_ret s; stoppers := stoppers s; stop_req := stop_req s;
  cancelled := cancelled s; run_cancelled := run_cancelled s; crashed := crashed s |}.
Definition with_rpc (s : state) p := {| fsm_st := fsm_st s; cur := cur s; server := server s; once_done := once_done s;
  errs := errs s; servers := servers s; net := net s; rpc := p; holder := holder s; kpc := kpc s;
  rl_wait := rl_wait s; rl_ret := rl_ret s; stoppers := stoppers s; stop_req := stop_req s;
  cancelled := cancelled s; run_cancelled := run_cancelled s; crashed := crashed s |}.
Definition with_crit (s : state) h k := {| fsm_st := fsm_st s; cur := cur s; server := server s; once_done := once_done s;
  errs := errs s; servers := servers s; net := net s; rpc := rpc s; holder := h; kpc := k;
  rl_wait := rl_wait s; rl_ret := rl_ret s; stoppers := stoppers s; stop_req := stop_req s;
  cancelled := cancelled s; run_cancelled := run_cancelled s; crashed := crashed s |}.
Definition with_rl (s : state) w r := {| fsm_st := fsm_st s; cur := cur s; server := server s; once_done := once_done s;
  errs := errs s; servers := servers s; net := net s; rpc := rpc s; holder := holder s; kpc := kpc s;
  rl_wait := w; rl_ret := r; stoppers := stoppers s; stop_req := stop_req s;
  cancelled := cancelled s; run_cancelled := run_cancelled s; crashed := crashed s |}.
Definition with_env (s : state) st sr c rc := {| fsm_st := fsm_st s; cur := cur s; server := server s; once_done := once_done s;
  errs := errs s; servers := servers s; net := net s; rpc := rpc s; holder := holder s; kpc := kpc s;
  rl_wait := rl_wait s; rl_ret := rl_ret s; stoppers := st; stop_req := sr;
  cancelled := c; run_cancelled := rc; crashed := crashed s |}.
Definition with_crashed (s : state) := {| fsm_st := fsm_st s; cur := cur s; server := server s; once_done := once_done s;
  errs := errs s; servers := servers s; net := net s; rpc := rpc s; holder := holder s; kpc := kpc s;
  rl_wait := rl_wait s; rl_ret := rl_ret s; stoppers := stoppers s; stop_req := stop_req s;
  cancelled := cancelled s; run_cancelled := run_cancelled s; crashed := true |}.

(* r.fsm.Transition(to): the state changes iff the table allows it *)
Definition transition (s : state) (to : fsm) : state :=
  if fsm_allowed (fsm_st s) to then with_fsm s to else s.
(* a function that does "if err := Transition(to); err != nil { setStateError() }" *)
Definition transition_or_error (s : state) (to : fsm) : state :=
  if fsm_allowed (fsm_st s) to then with_fsm s to else with_fsm s FError.

Definition init (c : config) : state := {|
  fsm_st := FNew; cur := c; server := None; once_done := false; errs := []; servers := []; net := [];
  rpc := RNew; holder := None; kpc := KFree; rl_wait := []; rl_ret := []; stoppers := [];
  stop_req := false; cancelled := false; run_cancelled := false; crashed := false |}.

(* What stopServer can report after calling http.Server.Shutdown under context.WithTimeout(Background, D), D = the
   CURRENT configuration's DrainTimeout (on a Reload: the new one's).  stopServer tests the deadline AFTER Shutdown
   returned and BEFORE looking at Shutdown's own result, so with D <= 0 (context expired at creation) the result is the
   timeout whatever Shutdown did - an idle server included.  For D > 0 the untimed model leaves the result free; the
   timed composition model/HttpCompose.v ties it to the drain model HttpDrain.v. *)
Definition sres_allowed (d : Z) (r : sres) : bool :=
  match r with
  | SNotRunning => false
  | STimeout => true
  | SOk | SFail => (0 <? d)%Z
  end.

Section Model.
  (* [stop_locked]: false = Run.shutdown as it was (Transition(Stopping) BEFORE r.mutex.Lock: refused while a
     Reload is in the Reloading state, so that Run() then closes the listener under the state Running);
     true = with hooks/candidate-fix-c12-stopping-under-mutex.patch (the mutex is taken first, so an in-flight
     Reload has left Reloading before the transition is attempted). *)
  Variable stop_locked : bool.
  Variable validated : bool.
  Variable mux_ok : list str -> bool.

  (* ---- continuations of the mutex-protected sections, by holder ---- *)

  (* boot() returned an error *)
  Definition fail_boot (s : state) : option state :=
    match holder s with
    | Some ByRun => Some (with_rpc (with_crit (with_fsm s FError) None KFree) (RRet RBootErr))
    | Some (ByReload i) =>
      let s1 := with_crit (with_fsm s FError) None KFree in
      Some (with_rl s1 (rl_wait s1) (i :: rl_ret s1))
    | None => None
    end.

  (* boot() returned nil *)
  Definition boot_ok (s : state) : option state :=
    match holder s with
    | Some ByRun => Some (with_rpc (with_crit s None KFree) RBooted)
    | Some (ByReload _) => Some (with_crit s (holder s) KFinish)
    | None => None
    end.

  (* the end of Run's shutdown(), after r.mutex.Unlock(): setStateError and return the stopServer error, or
     Transition(Stopped) (setStateError and the transition error when it is refused) *)
  Definition finish_stop (s : state) (r : sres) : state :=
    match r with
    | SOk => if fsm_allowed (fsm_st s) FStopped
             then with_rpc (with_fsm s FStopped) (RRet ROk)
             else with_rpc (with_fsm s FError) (RRet RTransErr)
    | _ => with_rpc (with_fsm s FError) (RRet (RStop r))
    end.

  (* stopServer returned r (r.server has been reset to nil) *)
  Definition stop_done (s : state) (r : sres) : option state :=
    match holder s with
    | Some ByRun =>
      let s1 := with_crit s None KFree in
      (* the code as it is: the mutex is released first, the state transition is a separate step (a waiting Reload
         may lock, be refused Reloading from Stopping, and return in between - first seen as a rejected trace of a
         thorough run).  The legacy variant (stop_locked = false, code that no longer exists) keeps the fused step. *)
      if stop_locked then Some (with_rpc s1 (RStopDone r)) else Some (finish_stop s1 r)
    | Some (ByReload i) =>
      match r with
      | SOk => Some (with_crit s (holder s) KWantBoot)
      | _ => let s1 := with_crit (with_fsm s FError) None KFree in
             Some (with_rl s1 (rl_wait s1) (i :: rl_ret s1))
      end
    | None => None
    end.

  (* a Reload body finishes with "Transition(Running) or setStateError", unlocks and returns *)
  Definition reload_finish (s : state) : option state :=
    match holder s with
    | Some (ByReload i) =>
      let s1 := with_crit (transition_or_error s FRunning) None KFree in
      Some (with_rl s1 (rl_wait s1) (i :: rl_ret s1))
    | _ => None
    end.

  Definition srv_at (s : state) (sid : nat) : option srv := nth_error (servers s) sid.

  (* the listener of the server whose Shutdown is in flight may still accept for an instant:
     http.Server.Shutdown closes it some time between its call and its return *)
  Definition closing (s : state) (a : str) : bool :=
    match kpc s with
    | KStopWait sid | KCleanup sid =>
      match srv_at s sid with
      | Some sv => str_eqb (addr (s_cfg sv)) a     (* whatever the serve goroutine has logged meanwhile: the
                                                      dial may have completed before ListenAndServe returned *)
      | None => false
      end
    | _ => false
    end.

  (* labels other than LQuiesce *)
  Definition step_core (s : state) (l : label) : option state :=
    if crashed s then None else
    match l with
    (* ---------------- Run ---------------- *)
    | LRunCall => match rpc s with RNew => Some (with_rpc s RCalled) | _ => None end
    | LRunStart =>                         (* lc.Started; r.ctx = runCtx; Transition(Booting) *)
      match rpc s with
      | RCalled => if fsm_allowed (fsm_st s) FBooting
                   then Some (with_rpc (with_fsm s FBooting) RWantBoot)
                   else Some (with_rpc s (RRet RTransErr))
      | _ => None
      end
    | LRunLock =>
      match rpc s, holder s with
      | RWantBoot, None => Some (with_rpc (with_crit s (Some ByRun) KWantBoot) RInBoot)
      | _, _ => None
      end
    | LRunFinishBoot =>                    (* Transition(Running) after a successful boot *)
      match rpc s with
      | RBooted => if fsm_allowed (fsm_st s) FRunning
                   then Some (with_rpc (with_fsm s FRunning) RSelect)
                   else Some (with_rpc (with_fsm s FError) (RRet RTransErr))
      | _ => None
      end
    | LRunWake =>                          (* select: ctx.Done or StopCh; runCancel; Transition(Stopping) *)
      match rpc s with
      | RSelect => if cancelled s || stop_req s
                   then let s1 := with_env s (stoppers s) (stop_req s) (cancelled s) true in
                        Some (with_rpc (if stop_locked then s1 else transition s1 FStopping) RWantStop)
                   else None
      | _ => None
      end
    | LRunServeErr =>                      (* select: serverErrors; setStateError; return *)
      match rpc s, errs s with
      | RSelect, _ :: rest =>        (* the deferred runCancel() runs as Run returns *)
        Some (with_rpc (with_fsm (with_errs (with_env s (stoppers s) (stop_req s) (cancelled s) true) rest) FError)
                       (RRet RHttpErr))
      | _, _ => None
      end
    | LRunLockStop =>
      match rpc s, holder s with
      | RWantStop, None =>                 (* r.mutex.Lock(); repaired: Transition(Stopping) under the mutex *)
        Some (with_rpc (with_crit (if stop_locked then transition s FStopping else s) (Some ByRun) KStopPending) RInStop)
      | _, _ => None
      end
    | LRunFinishStop =>                    (* after r.mutex.Unlock(): Transition(Stopped) / setStateError *)
      match rpc s with
      | RStopDone r => Some (finish_stop s r)
      | _ => None
      end
    | LRunRet r =>
      match rpc s with
      | RRet r' => if N.eqb (rres_code r) (rres_code r') then Some (with_rpc s RDone) else None
      | _ => None
      end
    (* ---------------- Stop / cancel ---------------- *)
    | LStopCall j =>
      if mem j (stoppers s) then None
      else Some (with_env s (j :: stoppers s) true (cancelled s) (run_cancelled s))
    | LStopRet j =>                        (* lc.Stop returns once Run's deferred done() has run *)
      if mem j (stoppers s)
      then match rpc s with
           | RRet _ | RDone => Some (with_env s (remove1 j (stoppers s)) (stop_req s) (cancelled s) (run_cancelled s))
           | _ => None
           end
      else None
    | LCancel => Some (with_env s (stoppers s) (stop_req s) true (run_cancelled s))
    (* ---------------- Reload ---------------- *)
    | LReloadCall i =>
      if mem i (rl_wait s) || mem i (rl_ret s) then None
      else match holder s with
           | Some (ByReload k) => if Nat.eqb i k then None else Some (with_rl s (i :: rl_wait s) (rl_ret s))
           | _ => Some (with_rl s (i :: rl_wait s) (rl_ret s))
           end
    | LReloadBegin i =>                    (* r.mutex.Lock(); Transition(Reloading) or return *)
      if mem i (rl_wait s)
      then match holder s with
           | None =>
             if fsm_allowed (fsm_st s) FReloading
             then Some (with_crit (with_fsm (with_rl s (remove1 i (rl_wait s)) (rl_ret s)) FReloading)
                                  (Some (ByReload i)) KFetch)
             else Some (with_rl s (remove1 i (rl_wait s)) (i :: rl_ret s))
           | Some _ => None
           end
      else None
    | LReloadRet i =>
      if mem i (rl_ret s) then Some (with_rl s (rl_wait s) (remove1 i (rl_ret s))) else None
    | LFetch r =>                          (* reloadConfig: callback, Equal, setConfig *)
      match kpc s, holder s with
      | KFetch, Some (ByReload i) =>
        match r with
        | CbErr | CbNil =>
          let s1 := with_crit (with_fsm s FError) None KFree in
          Some (with_rl s1 (rl_wait s1) (i :: rl_ret s1))
        | CbErrOld => Some (with_crit s (holder s) KUnchanged)     (* errors.Is(err, ErrOldConfig): "unchanged" *)
        | CbCfg c =>
          if go_config_equal c (cur s)
          then Some (with_crit s (holder s) KUnchanged)
          else Some (with_crit (with_cur s c) (holder s) KStopPending)
        end
      | _, _ => None
      end
    | LUnchanged => match kpc s with KUnchanged => reload_finish s | _ => None end
    | LFinish => match kpc s with KFinish => reload_finish s | _ => None end
    (* ---------------- stopServer ---------------- *)
    | LStopSkip =>                         (* once already done, or r.server == nil inside the once *)
      match kpc s with
      | KStopPending =>
        if once_done s then stop_done (with_server s None true) SOk
        else match server s with
             | None => stop_done (with_server s None true) SNotRunning
             | Some _ => None
             end
      | _ => None
      end
    | LStopCallS sid =>                    (* once.Do: r.server.Shutdown(ctx with DrainTimeout) *)
      match kpc s, server s with
      | KStopPending, Some sid' =>
        if once_done s then None
        else if Nat.eqb sid sid'
        then Some (with_crit (with_srvnet (with_server s (server s) true)
                                          (upd_srv (servers s) sid set_shut) (net_unbind (net s) sid))
                             (holder s) (KStopWait sid))
        else None
      | _, _ => None
      end
    | LShutdownRet sid r =>                (* the result of stopServer's once body, as stopServer classifies it *)
      if sres_allowed (drain (cur s)) r then
      match kpc s with
      | KStopWait sid' =>
        if Nat.eqb sid sid'
        then stop_done (with_server s None (once_done s)) r
        else None
      | KCleanup sid' =>
        if Nat.eqb sid sid'
        then fail_boot (with_server s None (once_done s))
        else None
      | _ => None
      end
      else None
    (* ---------------- boot ---------------- *)
    | LBootReject =>                       (* NewConfig returned an error *)
      match kpc s with
      | KWantBoot => if new_config_ok validated mux_ok (routes (cur s)) then None else fail_boot s
      | _ => None
      end
    | LBootCrash =>                        (* getMux: ServeMux.Handle panics *)
      match kpc s with
      | KWantBoot => if new_config_ok validated mux_ok (routes (cur s)) && negb (mux_ok (map rpath (routes (cur s))))
                     then Some (with_crashed s) else None
      | _ => None
      end
    | LBootCreate sid c =>                 (* createServer; re-arm the once; go ListenAndServe *)
      match kpc s with
      | KWantBoot =>
        if new_config_ok validated mux_ok (routes (cur s)) && mux_ok (map rpath (routes (cur s)))
           && Nat.eqb sid (length (servers s)) && config_eqb c (cur s)
        then Some (with_crit (with_srvnet (with_server s (Some sid) false)
                                          (servers s ++ [{| s_cfg := cur s; s_pc := SvStart; s_shut := false |}])
                                          (net s))
                             (holder s) (KProbe sid))
        else None
      | _ => None
      end
    | LProbeOk =>                          (* a tick: the dial succeeds *)
      match kpc s with
      | KProbe sid =>
        match srv_at s sid, errs s with
        | Some sv, [] =>
          (* T1: by the first tick the serve goroutine has tried to bind and, on failure, sent its error *)
          if (sv_pc_eqb (s_pc sv) SvListening || sv_pc_eqb (s_pc sv) SvExited)
             && bound_any (net s) (addr (s_cfg sv)) then boot_ok s else None
        | _, _ => None
        end
      | _ => None
      end
    | LProbeErr =>                         (* case err := <-r.serverErrors *)
      match kpc s, errs s with
      | KProbe sid, _ :: rest => Some (with_crit (with_errs s rest) (holder s) (KBootFail sid))
      | _, _ => None
      end
    | LProbeCancelled =>                   (* case <-probeCtx.Done() *)
      match kpc s with
      | KProbe sid => if ctx_cancelled s then Some (with_crit s (holder s) (KBootFail sid)) else None
      | _ => None
      end
    | LProbeTimeout =>                     (* 5 s of refused dials: ErrServerReadinessTimeout *)
      match kpc s with
      | KProbe sid =>
        match srv_at s sid with
        | Some sv => if bound_any (net s) (addr (s_cfg sv)) then None else Some (with_crit s (holder s) (KBootFail sid))
        | None => None
        end
      | _ => None
      end
    | LCleanupCall sid =>                  (* boot's stopServer(new): the once was just re-armed *)
      match kpc s, server s with
      | KBootFail sid', Some sid'' =>
        if Nat.eqb sid sid' && Nat.eqb sid sid'' && negb (once_done s)
        then Some (with_crit (with_srvnet (with_server s (server s) true)
                                          (upd_srv (servers s) sid set_shut) (net_unbind (net s) sid))
                             (holder s) (KCleanup sid))
        else None
      | _, _ => None
      end
    (* ---------------- serve goroutines ---------------- *)
    | LBindOk sid =>
      match srv_at s sid with
      | Some sv =>
        if sv_pc_eqb (s_pc sv) SvStart && negb (s_shut sv) && negb (bound_any (net s) (addr (s_cfg sv)))
        then Some (with_srvnet s (upd_srv (servers s) sid (set_pc SvListening))
                               ((addr (s_cfg sv), Own sid) :: net s))
        else None
      | None => None
      end
    | LBindFail sid =>
      match srv_at s sid with
      | Some sv =>
        (* net.Listen fails: address in use.  A ListenAndServe that passed its shutting-down test just before
           Shutdown was called still reaches net.Listen; it can then only fail on a foreign binder *)
        if sv_pc_eqb (s_pc sv) SvStart &&
           (if s_shut sv
            then match net_get (net s) (addr (s_cfg sv)) with Some Foreign => true | _ => false end
            else bound_any (net s) (addr (s_cfg sv)))
        then Some (with_srvnet s (upd_srv (servers s) sid (set_pc SvFailed)) (net s))
        else None
      | None => None
      end
    | LPushErr sid =>                      (* r.serverErrors <- err (blocks while the buffer is full) *)
      match srv_at s sid, errs s with
      | Some sv, [] =>
        if sv_pc_eqb (s_pc sv) SvFailed
        then Some (with_errs (with_srvnet s (upd_srv (servers s) sid (set_pc SvExited)) (net s)) [sid])
        else None
      | _, _ => None
      end
    | LServeSkip sid =>                    (* the goroutine finds r.server == nil ("Server was nil, not starting") *)
      match srv_at s sid, server s with
      | Some sv, None =>
        if s_shut sv && sv_pc_eqb (s_pc sv) SvStart
        then Some (with_srvnet s (upd_srv (servers s) sid (set_pc SvExited)) (net s))
        else None
      | _, _ => None
      end
    | LLasClosed sid =>                    (* ListenAndServe returns ErrServerClosed *)
      match srv_at s sid with
      | Some sv =>
        if s_shut sv && (sv_pc_eqb (s_pc sv) SvStart || sv_pc_eqb (s_pc sv) SvListening)
        then Some (with_srvnet s (upd_srv (servers s) sid (set_pc SvExited)) (net s))
        else None
      | None => None
      end
    (* ---------------- environment and observations ---------------- *)
    | LForeignBind a =>
      if bound_any (net s) a then None else Some (with_srvnet s (servers s) ((a, Foreign) :: net s))
    | LForeignFree a =>
      match net_get (net s) a with
      | Some Foreign => Some (with_srvnet s (servers s) (net_del (net s) a))
      | _ => None
      end
    | LObsState f => if fsm_eqb f (fsm_st s) then Some s else None
    | LObsDial a b =>
      (* a dial that races with an in-flight Shutdown may still be accepted by the closing listener *)
      if Bool.eqb (bound_any (net s) a) b || (b && closing s a) then Some s else None
    | LObsServe a tbl =>
      match net_get (net s) a with
      | Some (Own sid) =>
        match srv_at s sid with
        | Some sv =>
          if forallb (fun pm => ostr_eqb (route_of_path (routes (s_cfg sv)) (fst pm)) (snd pm)) tbl
          then Some s else None
        | None => None
        end
      | _ => None
      end
    | LObsCensus n => if Nat.eqb (census s) n then Some s else None
    | LQuiesce => None
    end.

  (* candidate internal labels of a state (a superset of the enabled ones) *)
  Definition taus (s : state) : list label :=
    [LRunStart; LRunLock; LRunFinishBoot; LRunWake; LRunServeErr; LRunLockStop; LRunFinishStop; LUnchanged; LFinish;
     LStopSkip; LBootReject; LProbeOk; LProbeErr; LProbeCancelled; LProbeTimeout]
    ++ map LReloadBegin (rl_wait s)
    ++ flat_map (fun sid => [LBindOk sid; LPushErr sid; LServeSkip sid]) (seq 0 (length (servers s))).

  Definition quiescent (s : state) : bool :=
    forallb (fun l => match step_core s l with Some _ => false | None => true end) (taus s).

  Definition step (s : state) (l : label) : option state :=
    match l with
    | LQuiesce => if crashed s then None else if quiescent s then Some s else None
    | _ => step_core s l
    end.

  (* candidate labels for an observed event *)
  Definition vis (s : state) (e : event) : list label :=
    match e with
    | ERunCall => [LRunCall]
    | ERunRet r => [LRunRet r]
    | EStopCall j => [LStopCall j]
    | EStopRet j => [LStopRet j]
    | ECancel => [LCancel]
    | EReloadCall i => [LReloadCall i]
    | EReloadRet i => [LReloadRet i]
    | ECallback r => [LFetch r]
    | EShutdownCall sid => [LStopCallS sid; LCleanupCall sid]
    | EShutdownRet sid r => [LShutdownRet sid r]
    | ECreate sid c => [LBootCreate sid c]
    | ECrash => [LBootCrash]
    | ELasFail sid => [LBindFail sid]
    | ELasClosed sid => [LLasClosed sid]
    | EForeignBind a => [LForeignBind a]
    | EForeignFree a => [LForeignFree a]
    | EState f => [LObsState f]
    | EDial a b => [LObsDial a b]
    | EServe a t => [LObsServe a t]
    | ECensus n => [LObsCensus n]
    | EQuiesce => [LQuiesce]
    end.
End Model.

(* ---- event equality (for the acceptor) ---- *)

Definition cbres_eqb (a b : cbres) : bool :=
  match a, b with
  | CbErr, CbErr | CbErrOld, CbErrOld | CbNil, CbNil => true
  | CbCfg x, CbCfg y => config_eqb x y
  | _, _ => false
  end.
Fixpoint tbl_eqb (a b : list (str * option str)) : bool :=
  match a, b with
  | [], [] => true
  | (p, m) :: a', (q, n) :: b' => str_eqb p q && ostr_eqb m n && tbl_eqb a' b'
  | _, _ => false
  end.

Definition event_eqb (a b : event) : bool :=
  match a, b with
  | ERunCall, ERunCall | ECancel, ECancel | ECrash, ECrash | EQuiesce, EQuiesce => true
  | ERunRet x, ERunRet y => N.eqb (rres_code x) (rres_code y)
  | EStopCall x, EStopCall y | EStopRet x, EStopRet y | EReloadCall x, EReloadCall y
  | EReloadRet x, EReloadRet y | EShutdownCall x, EShutdownCall y
  | ELasFail x, ELasFail y | ELasClosed x, ELasClosed y => Nat.eqb x y
  | ECallback x, ECallback y => cbres_eqb x y
  | EShutdownRet i x, EShutdownRet j y => Nat.eqb i j && N.eqb (sres_code x) (sres_code y)
  | ECreate i x, ECreate j y => Nat.eqb i j && config_eqb x y
  | EForeignBind x, EForeignBind y | EForeignFree x, EForeignFree y => str_eqb x y
  | EState x, EState y => fsm_eqb x y
  | EDial x b, EDial y c => str_eqb x y && Bool.eqb b c
  | EServe x t, EServe y u => str_eqb x y && tbl_eqb t u
  | ECensus x, ECensus y => Nat.eqb x y
  | _, _ => false
  end.

(* ---- dedup key ---- *)

Definition kstr (a : str) : list N := N.of_nat (length a) :: a.
Definition kbool (b : bool) : N := if b then 1%N else 0%N.
Definition kz (z : Z) : list N :=
  match z with Z0 => [0%N] | Zpos p => [1%N; Npos p] | Zneg p => [2%N; Npos p] end.
Definition kroute (r : route) : list N := kstr (rname r) ++ kstr (rpath r).
Definition kcfg (c : config) : list N :=
  kstr (addr c) ++ kz (drain c) ++ kz (read_to c) ++ kz (write_to c) ++ kz (idle_to c)
  ++ N.of_nat (length (routes c)) :: flat_map kroute (routes c).
Definition knats (l : list nat) : list N := N.of_nat (length l) :: map N.of_nat l.
Definition kcrit (k : crit) : list N :=
  match k with
  | KFree => [0] | KFetch => [1] | KUnchanged => [2] | KStopPending => [3]
  | KStopWait i => [4; N.of_nat i] | KWantBoot => [5] | KProbe i => [6; N.of_nat i]
  | KBootFail i => [7; N.of_nat i] | KCleanup i => [8; N.of_nat i] | KFinish => [9]
  end%N.
Definition krpc (p : run_pc) : list N :=
  match p with
  | RNew => [0] | RCalled => [1] | RWantBoot => [2] | RInBoot => [3] | RBooted => [4] | RSelect => [5]
  | RWantStop => [6] | RInStop => [7] | RRet r => [8; rres_code r] | RDone => [9] | RStopDone r => [10; sres_code r]
  end%N.
Definition kowner (o : owner) : list N := match o with Foreign => [0%N] | Own i => [1%N; N.of_nat i] end.

Definition key (s : state) : list N :=
  fsm_code (fsm_st s) :: kcfg (cur s)
  ++ (match server s with None => [0%N] | Some i => [1%N; N.of_nat i] end)
  ++ [kbool (once_done s)] ++ knats (errs s)
  ++ N.of_nat (length (servers s))
     :: flat_map (fun x => kcfg (s_cfg x) ++ [sv_pc_code (s_pc x); kbool (s_shut x)]) (servers s)
  ++ N.of_nat (length (net s)) :: flat_map (fun p => kstr (fst p) ++ kowner (snd p)) (net s)
  ++ krpc (rpc s)
  ++ (match holder s with None => [0%N] | Some ByRun => [1%N] | Some (ByReload i) => [2%N; N.of_nat i] end)
  ++ kcrit (kpc s) ++ knats (rl_wait s) ++ knats (rl_ret s) ++ knats (stoppers s)
  ++ [kbool (stop_req s); kbool (cancelled s); kbool (run_cancelled s); kbool (crashed s)].

(* THE switch: false = the code as it is in /repo (NewConfig does not validate patterns);
   flip to true once hooks/fix-c19-validate-mux-patterns.patch is committed in /repo *)
(* the same for Run.shutdown: false = /repo before hooks/candidate-fix-c12-stopping-under-mutex.patch *)
Definition stop_locked_now : bool := true.
Definition validated_now : bool := true.   (* /repo d243ed6: NewConfig validates the patterns *)

(* BootCrash's guard as a stand-alone predicate (used by the C19 driver): does booting this route
   list panic? *)
Definition predicts_crash (validated : bool) (mux_ok : list str -> bool) (rs : list route) : bool :=
  new_config_ok validated mux_ok rs && negb (mux_ok (map rpath rs)).

(* ---- the acceptor instance used by the correspondence check (LTS.accept_from) ---- *)
Definition http_accept (stop_locked validated : bool) (mux_ok : list str -> bool) (fuel : nat) (c0 : config)
  (t : list event) : list state * bool :=
  accept_from state label event (step stop_locked validated mux_ok) obs (taus) (vis) event_eqb key fuel [init c0] t.

Definition http_depth (stop_locked validated : bool) (mux_ok : list str -> bool) (fuel : nat) (c0 : config)
  (t : list event) : nat :=
  accept_depth state label event (step stop_locked validated mux_ok) obs (taus) (vis) event_eqb key fuel [init c0] t.
