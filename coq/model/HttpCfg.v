(* Pure model of runnables/httpserver/{config,routes}.go: Route.Equal, Routes.Equal,
   Config.Equal, written AS THE CODE IS (length test; sorted-name key compared through
   fmt.Sprintf("%v"); path map with later-wins; per-route compare), and of NewConfig's
   acceptance test.  Strings are lists of bytes.  No proofs here. *)
From Coq Require Export List NArith ZArith Bool.
Export ListNotations.

Definition str := list N.

Fixpoint str_eqb (a b : str) : bool :=
  match a, b with
  | [], [] => true
  | x :: a', y :: b' => N.eqb x y && str_eqb a' b'
  | _, _ => false
  end.

(* Go's string comparison (bytewise lexicographic), used by slices.Sort *)
Fixpoint str_cmp (a b : str) : comparison :=
  match a, b with
  | [], [] => Eq
  | [], _ :: _ => Lt
  | _ :: _, [] => Gt
  | x :: a', y :: b' => match N.compare x y with Eq => str_cmp a' b' | c => c end
  end.

Definition str_leb (a b : str) : bool :=
  match str_cmp a b with Gt => false | _ => true end.

(* slices.Sort on strings: any sorting algorithm gives the same list; insertion sort here *)
Fixpoint insert_sorted (x : str) (l : list str) : list str :=
  match l with
  | [] => [x]
  | y :: t => if str_leb x y then x :: l else y :: insert_sorted x t
  end.

Fixpoint sort_strs (l : list str) : list str :=
  match l with
  | [] => []
  | x :: t => insert_sorted x (sort_strs t)
  end.

(* fmt.Sprintf("%v", []string{...}) = "[" + strings.Join(xs, " ") + "]" *)
Fixpoint join_sp (l : list str) : str :=
  match l with
  | [] => []
  | [x] => x
  | x :: t => x ++ 32%N :: join_sp t
  end.

Definition sprintf_v (l : list str) : str := 91%N :: join_sp l ++ [93%N].

(* the key Routes.Equal compares: slices.Sort(names); fmt.Sprintf("%v", names) *)
Definition go_names_key (names : list str) : str := sprintf_v (sort_strs names).

Record route := { rname : str; rpath : str }.

Record config := {
  addr : str;
  drain : Z; read_to : Z; write_to : Z; idle_to : Z;   (* time.Duration = int64 nanoseconds *)
  routes : list route
}.

(* func (r Route) Equal(other Route) bool *)
Definition route_equal (r o : route) : bool :=
  if negb (str_eqb (rpath r) (rpath o)) then false
  else if negb (str_eqb (rname r) (rname o)) then false
  else true.

(* routeMap := make(map[string]Route); for _, route := range r { routeMap[route.Path] = route }
   represented as an association list searched from the most recent insertion (later wins) *)
Definition route_map (r : list route) : list (str * route) :=
  fold_left (fun m x => (rpath x, x) :: m) r [].

Fixpoint map_get (m : list (str * route)) (p : str) : option route :=
  match m with
  | [] => None
  | (k, v) :: t => if str_eqb k p then Some v else map_get t p
  end.

Section RoutesEqual.
  (* the name key: in the code slices.Sort + fmt.Sprintf("%v") (= go_names_key) *)
  Variable names_key : list str -> str.

  (* func (r Routes) Equal(other Routes) bool *)
  Definition routes_equal (r o : list route) : bool :=
    if negb (Nat.eqb (length r) (length o)) then false
    else if negb (str_eqb (names_key (map rname r)) (names_key (map rname o))) then false
    else
      let m := route_map r in
      forallb (fun x => match map_get m (rpath x) with
                        | Some y => route_equal y x
                        | None => false
                        end) o.

  (* func (c *Config) Equal(other *Config) bool, other non-nil *)
  Definition config_equal (c o : config) : bool :=
    if negb (str_eqb (addr c) (addr o)) then false
    else if negb (Z.eqb (drain c) (drain o)) then false
    else if negb (routes_equal (routes c) (routes o)) then false
    else if negb (Z.eqb (read_to c) (read_to o)) then false
    else if negb (Z.eqb (write_to c) (write_to o)) then false
    else if negb (Z.eqb (idle_to c) (idle_to o)) then false
    else true.
End RoutesEqual.

(* the code's instance *)
Definition go_routes_equal := routes_equal go_names_key.
Definition go_config_equal := config_equal go_names_key.

(* structural identity of two configurations (used by the protocol model to recognise the
   configuration a server was created from; NOT the code's Equal) *)
Definition route_eqb (a b : route) : bool :=
  str_eqb (rname a) (rname b) && str_eqb (rpath a) (rpath b).

Fixpoint routes_eqb (a b : list route) : bool :=
  match a, b with
  | [], [] => true
  | x :: a', y :: b' => route_eqb x y && routes_eqb a' b'
  | _, _ => false
  end.

Definition config_eqb (a b : config) : bool :=
  str_eqb (addr a) (addr b) && Z.eqb (drain a) (drain b) && Z.eqb (read_to a) (read_to b)
  && Z.eqb (write_to a) (write_to b) && Z.eqb (idle_to a) (idle_to b)
  && routes_eqb (routes a) (routes b).

(* NewConfig(addr, routes, opts...): the only test is len(routes) == 0 (code as it is).
   With [validated] (candidate repair hooks/fix-c19-validate-mux-patterns.patch) NewConfig also
   registers the patterns on a scratch ServeMux under recover and returns an error if that
   panics; [mux_ok] is the oracle for "ServeMux.Handle accepts this ordered pattern list". *)
Definition new_config_ok (validated : bool) (mux_ok : list str -> bool) (rs : list route) : bool :=
  match rs with
  | [] => false
  | _ => if validated then mux_ok (map rpath rs) else true
  end.

(* ---- the public construction paths of a *Config (config.go) ----
   NewConfig(addr, routes, opts...) starts from the defaults, applies the functional options IN ORDER and then
   validates c.Routes.  Options: WithDrainTimeout/ReadTimeout/WriteTimeout/IdleTimeout set one field;
   WithConfigCopy(src) copies the four timeouts (and ServerCreator and the request context, which the model does
   not carry) from src - NOT the address and NOT the routes - and is a no-op for a nil src;
   WithServerCreator / WithRequestContext (nil arguments included) touch no modelled field.
   No option can change the address or the routes, and - this is what C19 needs - nothing an option copies
   decides whether the routes are validated. *)
Inductive copt :=
| ODrain (z : Z) | ORead (z : Z) | OWrite (z : Z) | OIdle (z : Z)
| OCopy (src : option config)
| ONone.

Definition default_config (a : str) (rs : list route) : config :=
  {| addr := a; drain := 30000000000%Z; read_to := 15000000000%Z; write_to := 15000000000%Z;
     idle_to := 60000000000%Z; routes := rs |}.

Definition apply_opt (c : config) (o : copt) : config :=
  match o with
  | ODrain z => {| addr := addr c; drain := z; read_to := read_to c; write_to := write_to c; idle_to := idle_to c; routes := routes c |}
  | ORead z => {| addr := addr c; drain := drain c; read_to := z; write_to := write_to c; idle_to := idle_to c; routes := routes c |}
  | OWrite z => {| addr := addr c; drain := drain c; read_to := read_to c; write_to := z; idle_to := idle_to c; routes := routes c |}
  | OIdle z => {| addr := addr c; drain := drain c; read_to := read_to c; write_to := write_to c; idle_to := z; routes := routes c |}
  | OCopy (Some src) => {| addr := addr c; drain := drain src; read_to := read_to src; write_to := write_to src;
                           idle_to := idle_to src; routes := routes c |}
  | OCopy None | ONone => c
  end.

(* NewConfig: None = an error is returned *)
Definition new_config (validated : bool) (mux_ok : list str -> bool) (a : str) (rs : list route)
  (opts : list copt) : option config :=
  let c := fold_left apply_opt opts (default_config a rs) in
  if new_config_ok validated mux_ok (routes c) then Some c else None.

(* boot(): NewConfig(cfg.ListenAddr, cfg.Routes, WithConfigCopy(cfg), WithRequestContext(r.ctx)) *)
Definition boot_config (validated : bool) (mux_ok : list str -> bool) (c : config) : option config :=
  new_config validated mux_ok (addr c) (routes c) [OCopy (Some c); ONone].

(* does any path occur twice? (the hypothesis of C13_equal_iff is its negation) *)
Fixpoint path_in (p : str) (l : list route) : bool :=
  match l with
  | [] => false
  | x :: t => str_eqb (rpath x) p || path_in p t
  end.

Fixpoint paths_nodup (l : list route) : bool :=
  match l with
  | [] => true
  | x :: t => negb (path_in (rpath x) t) && paths_nodup t
  end.

(* the specification side of C13_equal_iff, executable: same address and timeouts and the
   same SET of (name, path) pairs *)
Fixpoint route_in (x : route) (l : list route) : bool :=
  match l with
  | [] => false
  | y :: t => route_eqb x y || route_in x t
  end.

Definition same_route_set (a b : list route) : bool :=
  forallb (fun x => route_in x b) a && forallb (fun x => route_in x a) b.

Definition config_equiv (a b : config) : bool :=
  str_eqb (addr a) (addr b) && Z.eqb (drain a) (drain b) && Z.eqb (read_to a) (read_to b)
  && Z.eqb (write_to a) (write_to b) && Z.eqb (idle_to a) (idle_to b)
  && same_route_set (routes a) (routes b).
