(* Executable model of supervisor.PIDZero (supervisor.go, reload.go, shutdown.go, state.go)
   as a labelled transition system: the schedule is the label list.  No proofs here.

   Threads: Main (Run), one goroutine per runnable, the reload manager with one listener per
   ReloadSender, the shutdown manager with one listener per ShutdownSender, the state-monitor
   manager with one monitor per Stateable, one pending sender per consumed SIGHUP, external API
   callers, subscription closers.  The body of shutdownOnce lives in its own field [sd]: whoever
   calls Shutdown first merely starts it, every caller waits for [SdDone].

   The model follows the code as repaired by the fix: commits d5d0029 (errorChan never closed),
   da46feb (trigger listener spawns the shutdown), ddc3dd2/8eb6141 (gate), 977a5ea (SIGHUP),
   aa7dec7 (monitor first value), 00876a0 (launch gate; only started runnables are stopped),
   4585550 (finals), and the repairs for C03 (a cancelled readiness wait still returns a queued
   failure: LGateCtx) and C06 (startRunnable broadcasts the map after storing the initial state:
   LRunCall).

   Run() is an action of the environment: the initial state has no Run() goroutine and no manager
   (main = MNew).  LRunEnter is the (logged) call of Run(), LRunEntered the moment Run() sets
   p.runEntered and launches its managers - unless Shutdown() has closed the launch gate before, in
   which case Run() starts nothing at all and goes to reap().  A Shutdown() that closes the gate
   BEFORE p.runEntered is set stops EVERY registered runnable (stopCount = len(p.runnables),
   supervisor.go Shutdown), although no Run was invoked. *)
From Coq Require Import List NArith Bool Arith.
Import ListNotations.

(* ------------------------------------------------------------------ configuration *)

Inductive sstyle := StopNonBlocking | StopUntilRunDone.
Inductive rstyle := ExitOnSignal | ExitFree | ExitNever.

Record rspec := {
  stateable : bool;
  reloadable : bool;
  rsender : bool;       (* ReloadSender *)
  ssender : bool;       (* ShutdownSender *)
  stop_style : sstyle;
  run_exit : rstyle;
  held_sub : bool;      (* GetStateChan blocks until the environment releases it *)
}.

Record config := {
  specs : list rspec;
  startup_may_fire : bool;     (* the startup deadline is short enough to fire *)
  shutdown_may_fire : bool;    (* the shutdown timeout is short enough to fire *)
}.

Definition nrun (c : config) : nat := length (specs c).
Definition dflt_spec : rspec :=
  {| stateable := false; reloadable := false; rsender := false; ssender := false;
     stop_style := StopNonBlocking; run_exit := ExitOnSignal; held_sub := false |}.
Definition spec (c : config) (i : nat) : rspec := nth i (specs c) dflt_spec.
Definition any_spec (f : rspec -> bool) (c : config) : bool := existsb f (specs c).

(* ------------------------------------------------------------------ values *)

Definition st := nat.                    (* runnable state names, numbered by the harness *)
Definition errid := nat.                 (* identity of an error value returned by a mock *)

Inductive result := ResNil | ResErr (e : errid) | ResTimeout.

Inductive sig := SigInt | SigTerm | SigHup | SigOther.

Inductive op := OpShutdown | OpReloadAll | OpSignal (s : sig).

(* who completes a rendezvous on the reload channel *)
Inductive sender := SndCaller (k : nat) | SndHup | SndListener (i : nat).

(* observable part of a quiescent state *)
Record snapshot := {
  sn_blocked : list nat;                 (* API callers still blocked, ascending *)
  sn_smap : list (option st);            (* GetStateMap per runnable index *)
  sn_run_returned : bool;
  sn_gor : nat;                          (* library goroutine census *)
}.

Inductive event :=
| ERunCall (i : nat)
| ERunRet (i : nat) (e : option (errid * bool))      (* Some (id, is_cancellation) *)
| EStopCall (i : nat)
| EStopRet (i : nat)
| EReloadCall (i : nat)
| EReloadRet (i : nat)
| EPollBegin (i : nat)                                (* Main entered a (slow) IsRunning() call *)
| EPoll (i : nat) (b : bool)
| EEmit (i : nat) (s : st)
| ETrigR (i : nat)                                    (* a reload trigger is offered by runnable i *)
| ETrigS (i : nat)                                    (* a shutdown trigger is offered by runnable i *)
| ESubRel (i : nat)                                   (* runnable i's GetStateChan is released *)
| EQuiet                                              (* the system was observed quiescent *)
| ECall (k : nat) (o : op)
| ERet (k : nat) (o : op)
| EParentCancel
| ERunReturn (r : result)
| ERunEnter                                           (* the environment calls Run() *)
| EEntered                                            (* evidence that Run() has set p.runEntered (its next log record was seen) *)
| ESubscribe (c : nat)
| ESubRecv (c : nat) (m : list (option st))
| ESubCancel (c : nat)
| ESubClosed (c : nat)
| ESnap (o : snapshot).

(* ------------------------------------------------------------------ state *)

(* RnStored: startRunnable has stored the initial state of a Stateable runnable and broadcast the map;
   the runnable's Run has not been entered yet *)
Inductive rn_pc := RnNot | RnLaunched | RnStored | RnRunning | RnSending (e : errid) | RnDone.

Inductive main_pc :=
| MNew                       (* Run() has not been called *)
| MEntering                  (* Run() was called; p.runEntered is not set yet *)
| MLaunch (i : nat)          (* about to launch runnable i (i = n: go to reap) *)
| MGate (i : nat)            (* inside blockUntilRunnableReady for i *)
| MGateCheck (i : nat)       (* IsRunning() was true; about to look at errorChan *)
| MReap
| MExit (r : result)         (* about to call Shutdown(), then return r *)
| MWaitSd (r : result)       (* inside Shutdown() *)
| MReturned (r : result).

Inductive sd_pc :=
| SdNot
| SdNext (k : nat)           (* k runnables still to stop; next is index k-1 *)
| SdIn (i : nat)             (* inside runnables[i].Stop() *)
| SdCancel                   (* all stopped; about to cancel the context *)
| SdWait                     (* waiting for wg or the shutdown timeout *)
| SdDone.

Inductive rm_pc := RmAbsent | RmIdle | RmNext (j : nat) | RmIn (j : nat) | RmDrain | RmDone.
Inductive ls_pc := LsAbsent | LsIdle | LsFwd | LsDone.
Inductive mon_pc := MoAbsent | MoNot | MoFirst | MoLoop (last : option st) | MoBcast (last : option st) | MoDone.

Inductive cstate := CNew | CPending | CReady.   (* API caller: logged, not yet inside / blocked inside the library / about to return *)

Record subscriber := {
  sub_id : nat;
  sub_buf : list (list (option st));     (* cap 10 *)
  sub_started : bool;                    (* SubscribeStateChanges has run (initial snapshot taken) *)
  sub_registered : bool;                 (* still in stateSubscribers *)
  sub_cancelled : bool;                  (* its context ended *)
  sub_closed : bool;                     (* channel closed *)
}.

Record aux_state := {
  rtrig : list nat;                      (* reload-trigger offers not yet received *)
  strig : list nat;                      (* shutdown-trigger offers not yet received *)
  sub_ok : list bool;                    (* GetStateChan of i may return *)
  polling : bool;                        (* Main is inside a (slow) IsRunning() call *)
  finals : list (option st);             (* final state Shutdown recorded for i after its Stop() (repo fix for C06) *)
  run_entered : bool;                    (* p.runEntered: Run() has passed its first critical section *)
  sd_all : bool;                         (* ghost: Shutdown closed the launch gate before p.runEntered was set: it stops
                                            every registered runnable *)
  su_fired : bool;                       (* ghost: a start-up deadline has fired (LGateTimeout was taken) *)
}.

Record state := {
  main : main_pc;
  rn : list rn_pc;
  stop_called : list bool;               (* Stop() has been invoked on i *)
  errq : list errid;
  sigq : list sig;
  own_cancel : bool;                     (* p.cancel() was called by Shutdown *)
  parent_cancel : bool;
  sd : sd_pc;
  sd_timed_out : bool;
  sd_trig : nat;                         (* goroutines spawned by trigger listeners, inside Shutdown() *)
  rm : rm_pc;
  rls : list ls_pc;                      (* reload-trigger listeners, per runnable *)
  sls : list ls_pc;                      (* shutdown-trigger listeners, per runnable (LsFwd unused) *)
  sdm_done : bool;                       (* shutdown manager exited (or absent) *)
  stm_done : bool;                       (* state-monitor manager exited (or absent) *)
  mon : list mon_pc;
  mq : list (list st);                   (* values in flight to monitor i *)
  cur : list st;                         (* the runnable's true state *)
  smap : list (option st);
  hup : nat;                             (* pending 'go p.ReloadAll()' goroutines *)
  callers : list (nat * op * cstate);
  subs : list subscriber;
  passes : nat;                          (* reload passes begun *)
  aux : aux_state;
  hist : list event;                     (* newest first *)
}.

Definition ctx_done (s : state) : bool := own_cancel s || parent_cancel s.

(* ------------------------------------------------------------------ helpers *)

Fixpoint upd {A} (l : list A) (i : nat) (x : A) : list A :=
  match l, i with
  | [], _ => []
  | _ :: t, O => x :: t
  | h :: t, S j => h :: upd t j x
  end.

Definition get {A} (d : A) (l : list A) (i : nat) : A := nth i l d.

Definition rn_at (s : state) (i : nat) : rn_pc := get RnDone (rn s) i.
Definition mon_at (s : state) (i : nat) : mon_pc := get MoAbsent (mon s) i.

Definition rn_finished (p : rn_pc) : bool :=
  match p with RnNot | RnDone => true | _ => false end.

Definition ls_finished (p : ls_pc) : bool :=
  match p with LsAbsent | LsDone => true | _ => false end.

Definition mon_finished (p : mon_pc) : bool :=
  match p with MoAbsent | MoDone => true | _ => false end.

Definition rm_finished (p : rm_pc) : bool :=
  match p with RmAbsent | RmDone => true | _ => false end.

(* p.wg: runnable goroutines + the three managers *)
Definition wg_zero (s : state) : bool :=
  forallb (fun p => match p with RnNot | RnDone => true | _ => false end) (rn s)
  && rm_finished (rm s) && sdm_done s && stm_done s.

(* first Reloadable index >= j, or n *)
Fixpoint next_reloadable (l : list rspec) (j : nat) (fuel : nat) : nat :=
  match fuel with
  | O => j
  | S f => if reloadable (nth j l dflt_spec) then j
           else if Nat.leb (length l) j then j else next_reloadable l (S j) f
  end.

Definition rm_after (c : config) (j : nat) : rm_pc :=
  let k := next_reloadable (specs c) j (nrun c) in
  if Nat.ltb k (nrun c) then RmNext k else RmIdle.

Definition cur_at (s : state) (i : nat) : st := get 0 (cur s) i.

(* broadcastState: every registered subscriber with room gets the snapshot *)
Definition broadcast (m : list (option st)) (l : list subscriber) : list subscriber :=
  map (fun b => if sub_registered b && Nat.ltb (length (sub_buf b)) 10 && existsb (fun o => match o with Some _ => true | None => false end) m
                then {| sub_id := sub_id b; sub_buf := sub_buf b ++ [m]; sub_started := true; sub_registered := true;
                        sub_cancelled := sub_cancelled b; sub_closed := sub_closed b |}
                else b) l.

Fixpoint find_caller (k : nat) (l : list (nat * op * cstate)) : option (op * cstate) :=
  match l with
  | [] => None
  | (k', o, c) :: t => if Nat.eqb k k' then Some (o, c) else find_caller k t
  end.

Fixpoint set_caller (k : nat) (c : cstate) (l : list (nat * op * cstate)) : list (nat * op * cstate) :=
  match l with
  | [] => []
  | (k', o, c') :: t => if Nat.eqb k k' then (k', o, c) :: t else (k', o, c') :: set_caller k c t
  end.

Fixpoint del_caller (k : nat) (l : list (nat * op * cstate)) : list (nat * op * cstate) :=
  match l with
  | [] => []
  | (k', o, c') :: t => if Nat.eqb k k' then t else (k', o, c') :: del_caller k t
  end.

Fixpoint find_sub (c : nat) (l : list subscriber) : option subscriber :=
  match l with
  | [] => None
  | b :: t => if Nat.eqb c (sub_id b) then Some b else find_sub c t
  end.

Fixpoint set_sub (b : subscriber) (l : list subscriber) : list subscriber :=
  match l with
  | [] => []
  | b' :: t => if Nat.eqb (sub_id b) (sub_id b') then b :: t else b' :: set_sub b t
  end.

Definition op_eqb (a b : op) : bool :=
  match a, b with
  | OpShutdown, OpShutdown => true
  | OpReloadAll, OpReloadAll => true
  | OpSignal x, OpSignal y =>
    match x, y with
    | SigInt, SigInt | SigTerm, SigTerm | SigHup, SigHup | SigOther, SigOther => true
    | _, _ => false
    end
  | _, _ => false
  end.

(* ------------------------------------------------------------------ record updates *)

Definition with_hist (s : state) (e : event) : state :=
  {| main := main s; rn := rn s; stop_called := stop_called s; errq := errq s; sigq := sigq s;
     own_cancel := own_cancel s; parent_cancel := parent_cancel s; sd := sd s;
     sd_timed_out := sd_timed_out s; sd_trig := sd_trig s; rm := rm s; rls := rls s; sls := sls s;
     sdm_done := sdm_done s; stm_done := stm_done s; mon := mon s; mq := mq s; cur := cur s;
     smap := smap s; hup := hup s; callers := callers s; subs := subs s; passes := passes s; aux := aux s;
     hist := e :: hist s |}.

Definition set_main (s : state) (m : main_pc) : state :=
  {| main := m; rn := rn s; stop_called := stop_called s; errq := errq s; sigq := sigq s;
     own_cancel := own_cancel s; parent_cancel := parent_cancel s; sd := sd s;
     sd_timed_out := sd_timed_out s; sd_trig := sd_trig s; rm := rm s; rls := rls s; sls := sls s;
     sdm_done := sdm_done s; stm_done := stm_done s; mon := mon s; mq := mq s; cur := cur s;
     smap := smap s; hup := hup s; callers := callers s; subs := subs s; passes := passes s; aux := aux s;
     hist := hist s |}.

Definition set_rn (s : state) (i : nat) (p : rn_pc) : state :=
  {| main := main s; rn := upd (rn s) i p; stop_called := stop_called s; errq := errq s; sigq := sigq s;
     own_cancel := own_cancel s; parent_cancel := parent_cancel s; sd := sd s;
     sd_timed_out := sd_timed_out s; sd_trig := sd_trig s; rm := rm s; rls := rls s; sls := sls s;
     sdm_done := sdm_done s; stm_done := stm_done s; mon := mon s; mq := mq s; cur := cur s;
     smap := smap s; hup := hup s; callers := callers s; subs := subs s; passes := passes s; aux := aux s;
     hist := hist s |}.

Definition set_errq (s : state) (q : list errid) : state :=
  {| main := main s; rn := rn s; stop_called := stop_called s; errq := q; sigq := sigq s;
     own_cancel := own_cancel s; parent_cancel := parent_cancel s; sd := sd s;
     sd_timed_out := sd_timed_out s; sd_trig := sd_trig s; rm := rm s; rls := rls s; sls := sls s;
     sdm_done := sdm_done s; stm_done := stm_done s; mon := mon s; mq := mq s; cur := cur s;
     smap := smap s; hup := hup s; callers := callers s; subs := subs s; passes := passes s; aux := aux s;
     hist := hist s |}.

Definition set_sigq (s : state) (q : list sig) : state :=
  {| main := main s; rn := rn s; stop_called := stop_called s; errq := errq s; sigq := q;
     own_cancel := own_cancel s; parent_cancel := parent_cancel s; sd := sd s;
     sd_timed_out := sd_timed_out s; sd_trig := sd_trig s; rm := rm s; rls := rls s; sls := sls s;
     sdm_done := sdm_done s; stm_done := stm_done s; mon := mon s; mq := mq s; cur := cur s;
     smap := smap s; hup := hup s; callers := callers s; subs := subs s; passes := passes s; aux := aux s;
     hist := hist s |}.

Definition set_sd (s : state) (p : sd_pc) : state :=
  {| main := main s; rn := rn s; stop_called := stop_called s; errq := errq s; sigq := sigq s;
     own_cancel := own_cancel s; parent_cancel := parent_cancel s; sd := p;
     sd_timed_out := sd_timed_out s; sd_trig := sd_trig s; rm := rm s; rls := rls s; sls := sls s;
     sdm_done := sdm_done s; stm_done := stm_done s; mon := mon s; mq := mq s; cur := cur s;
     smap := smap s; hup := hup s; callers := callers s; subs := subs s; passes := passes s; aux := aux s;
     hist := hist s |}.

Definition set_stop_called (s : state) (i : nat) : state :=
  {| main := main s; rn := rn s; stop_called := upd (stop_called s) i true; errq := errq s; sigq := sigq s;
     own_cancel := own_cancel s; parent_cancel := parent_cancel s; sd := sd s;
     sd_timed_out := sd_timed_out s; sd_trig := sd_trig s; rm := rm s; rls := rls s; sls := sls s;
     sdm_done := sdm_done s; stm_done := stm_done s; mon := mon s; mq := mq s; cur := cur s;
     smap := smap s; hup := hup s; callers := callers s; subs := subs s; passes := passes s; aux := aux s;
     hist := hist s |}.

Definition set_cancel (s : state) (own parent timed : bool) : state :=
  {| main := main s; rn := rn s; stop_called := stop_called s; errq := errq s; sigq := sigq s;
     own_cancel := own; parent_cancel := parent; sd := sd s;
     sd_timed_out := timed; sd_trig := sd_trig s; rm := rm s; rls := rls s; sls := sls s;
     sdm_done := sdm_done s; stm_done := stm_done s; mon := mon s; mq := mq s; cur := cur s;
     smap := smap s; hup := hup s; callers := callers s; subs := subs s; passes := passes s; aux := aux s;
     hist := hist s |}.

Definition set_sd_trig (s : state) (n : nat) : state :=
  {| main := main s; rn := rn s; stop_called := stop_called s; errq := errq s; sigq := sigq s;
     own_cancel := own_cancel s; parent_cancel := parent_cancel s; sd := sd s;
     sd_timed_out := sd_timed_out s; sd_trig := n; rm := rm s; rls := rls s; sls := sls s;
     sdm_done := sdm_done s; stm_done := stm_done s; mon := mon s; mq := mq s; cur := cur s;
     smap := smap s; hup := hup s; callers := callers s; subs := subs s; passes := passes s; aux := aux s;
     hist := hist s |}.

Definition set_rm (s : state) (p : rm_pc) (np : nat) : state :=
  {| main := main s; rn := rn s; stop_called := stop_called s; errq := errq s; sigq := sigq s;
     own_cancel := own_cancel s; parent_cancel := parent_cancel s; sd := sd s;
     sd_timed_out := sd_timed_out s; sd_trig := sd_trig s; rm := p; rls := rls s; sls := sls s;
     sdm_done := sdm_done s; stm_done := stm_done s; mon := mon s; mq := mq s; cur := cur s;
     smap := smap s; hup := hup s; callers := callers s; subs := subs s; passes := np; aux := aux s;
     hist := hist s |}.

Definition set_listeners (s : state) (r sl : list ls_pc) (sdm stm : bool) : state :=
  {| main := main s; rn := rn s; stop_called := stop_called s; errq := errq s; sigq := sigq s;
     own_cancel := own_cancel s; parent_cancel := parent_cancel s; sd := sd s;
     sd_timed_out := sd_timed_out s; sd_trig := sd_trig s; rm := rm s; rls := r; sls := sl;
     sdm_done := sdm; stm_done := stm; mon := mon s; mq := mq s; cur := cur s;
     smap := smap s; hup := hup s; callers := callers s; subs := subs s; passes := passes s; aux := aux s;
     hist := hist s |}.

Definition set_mon (s : state) (m : list mon_pc) (q : list (list st)) : state :=
  {| main := main s; rn := rn s; stop_called := stop_called s; errq := errq s; sigq := sigq s;
     own_cancel := own_cancel s; parent_cancel := parent_cancel s; sd := sd s;
     sd_timed_out := sd_timed_out s; sd_trig := sd_trig s; rm := rm s; rls := rls s; sls := sls s;
     sdm_done := sdm_done s; stm_done := stm_done s; mon := m; mq := q; cur := cur s;
     smap := smap s; hup := hup s; callers := callers s; subs := subs s; passes := passes s; aux := aux s;
     hist := hist s |}.

Definition set_cur (s : state) (c : list st) (q : list (list st)) : state :=
  {| main := main s; rn := rn s; stop_called := stop_called s; errq := errq s; sigq := sigq s;
     own_cancel := own_cancel s; parent_cancel := parent_cancel s; sd := sd s;
     sd_timed_out := sd_timed_out s; sd_trig := sd_trig s; rm := rm s; rls := rls s; sls := sls s;
     sdm_done := sdm_done s; stm_done := stm_done s; mon := mon s; mq := q; cur := c;
     smap := smap s; hup := hup s; callers := callers s; subs := subs s; passes := passes s; aux := aux s;
     hist := hist s |}.

Definition set_smap (s : state) (m : list (option st)) (b : list subscriber) : state :=
  {| main := main s; rn := rn s; stop_called := stop_called s; errq := errq s; sigq := sigq s;
     own_cancel := own_cancel s; parent_cancel := parent_cancel s; sd := sd s;
     sd_timed_out := sd_timed_out s; sd_trig := sd_trig s; rm := rm s; rls := rls s; sls := sls s;
     sdm_done := sdm_done s; stm_done := stm_done s; mon := mon s; mq := mq s; cur := cur s;
     smap := m; hup := hup s; callers := callers s; subs := b; passes := passes s; aux := aux s;
     hist := hist s |}.

Definition set_hup (s : state) (n : nat) : state :=
  {| main := main s; rn := rn s; stop_called := stop_called s; errq := errq s; sigq := sigq s;
     own_cancel := own_cancel s; parent_cancel := parent_cancel s; sd := sd s;
     sd_timed_out := sd_timed_out s; sd_trig := sd_trig s; rm := rm s; rls := rls s; sls := sls s;
     sdm_done := sdm_done s; stm_done := stm_done s; mon := mon s; mq := mq s; cur := cur s;
     smap := smap s; hup := n; callers := callers s; subs := subs s; passes := passes s; aux := aux s;
     hist := hist s |}.

Definition set_callers (s : state) (l : list (nat * op * cstate)) : state :=
  {| main := main s; rn := rn s; stop_called := stop_called s; errq := errq s; sigq := sigq s;
     own_cancel := own_cancel s; parent_cancel := parent_cancel s; sd := sd s;
     sd_timed_out := sd_timed_out s; sd_trig := sd_trig s; rm := rm s; rls := rls s; sls := sls s;
     sdm_done := sdm_done s; stm_done := stm_done s; mon := mon s; mq := mq s; cur := cur s;
     smap := smap s; hup := hup s; callers := l; subs := subs s; passes := passes s; aux := aux s;
     hist := hist s |}.

Definition set_aux (s : state) (a : aux_state) : state :=
  {| main := main s; rn := rn s; stop_called := stop_called s; errq := errq s; sigq := sigq s;
     own_cancel := own_cancel s; parent_cancel := parent_cancel s; sd := sd s;
     sd_timed_out := sd_timed_out s; sd_trig := sd_trig s; rm := rm s; rls := rls s; sls := sls s;
     sdm_done := sdm_done s; stm_done := stm_done s; mon := mon s; mq := mq s; cur := cur s;
     smap := smap s; hup := hup s; callers := callers s; subs := subs s; passes := passes s; aux := a;
     hist := hist s |}.

(* ------------------------------------------------------------------ initial state *)

Definition init (c : config) : state :=
  let n := nrun c in
  {| main := MNew;
     rn := repeat RnNot n;
     stop_called := repeat false n;
     errq := []; sigq := [];
     own_cancel := false; parent_cancel := false;
     sd := SdNot; sd_timed_out := false; sd_trig := 0;
     (* the managers are started by Run() (LRunEntered) *)
     rm := RmAbsent;
     rls := map (fun _ => LsAbsent) (specs c);
     sls := map (fun _ => LsAbsent) (specs c);
     sdm_done := true;
     stm_done := true;
     mon := map (fun _ => MoAbsent) (specs c);
     mq := repeat [] n;
     cur := repeat 0 n;
     smap := repeat None n;
     hup := 0; callers := []; subs := []; passes := 0;
     aux := {| rtrig := repeat 0 n; strig := repeat 0 n;
               sub_ok := map (fun r => negb (held_sub r)) (specs c); polling := false;
               finals := repeat None n; run_entered := false; sd_all := false; su_fired := false |};
     hist := [] |}.

(* ------------------------------------------------------------------ labels *)

Inductive label :=
(* Main *)
| LRunEnter                              (* visible: the environment calls Run() *)
| LRunEntered                            (* tau: Run() sets p.runEntered and launches the managers (if the launch gate is open) *)
| LSeenEntered                           (* visible: Run() was observed past its first critical section *)
| LLaunch (i : nat)                      (* tau: wg.Go(runnable i); then gate or next *)
| LPollBegin (i : nat)                   (* Main enters IsRunning(); reported only for slow answers *)
| LPoll (i : nat) (b : bool)             (* IsRunning() answered b *)
| LGateDecide (i : nat)                  (* tau: pendingError check after IsRunning()=true *)
| LGateErr (i : nat)                     (* tau: select took errorChan *)
| LGateTimeout (i : nat)                 (* tau: startup deadline fired *)
| LGateCtx (i : nat)                     (* tau: context cancelled while waiting *)
| LReapErr                               (* tau *)
| LReapCtx                               (* tau *)
| LReapSig                               (* tau: take the head of signalChan *)
| LMainShutdown                          (* tau: Main calls Shutdown() *)
| LMainReturn (r : result)                (* visible: Run() returns r *)
(* runnable goroutines *)
| LRunStore (i : nat)                    (* tau: startRunnable stores the initial state and broadcasts the map *)
| LRunCall (i : nat)
| LRunRet (i : nat) (e : option (errid * bool))
| LErrSend (i : nat)                     (* tau: errorChan <- err *)
(* shutdown body *)
| LStopCall (i : nat)
| LStopRet (i : nat)
| LSdCancel                              (* tau: p.cancel() *)
| LSdWgDone                              (* tau: wg.Wait() returned *)
| LSdTimeout                             (* tau: shutdown timeout fired *)
(* reload *)
| LRmAccept (w : sender)                 (* tau: rendezvous on reloadListener *)
| LReloadCall (j : nat)
| LReloadRet (j : nat)
| LRmCtx                                 (* tau: manager sees ctx.Done, waits for its listeners *)
| LRmExit                                (* tau: listeners drained, manager returns *)
| LTrigR (i : nat)                       (* runnable i offers a reload trigger *)
| LTrigRecvR (i : nat)                   (* tau: listener i receives it *)
(* shutdown manager *)
| LTrigS (i : nat)                       (* runnable i offers a shutdown trigger *)
| LTrigRecvS (i : nat)                   (* tau: listener i receives it, spawns Shutdown() and leaves *)
| LSdmExit                               (* tau *)
(* state monitors *)
| LMonSub (i : nat)                      (* tau: monitor i obtained its state channel *)
| LMonRecv (i : nat)                     (* tau: monitor i takes one value (and swaps it into the map) *)
| LMonBcast (i : nat)                    (* tau: monitor i broadcasts the current map *)
| LStmExit                               (* tau *)
| LEmit (i : nat) (x : st)               (* the runnable changes state *)
(* environment / API *)
| LCall (k : nat) (o : op)
| LCallerGo (k : nat)                    (* tau: a logged Shutdown() call actually enters the library *)
| LSigPut (k : nat)                      (* tau: SendSignal's send completes *)
| LCallerCtx (k : nat)                   (* tau: SendSignal / ReloadAll gives up on ctx.Done *)
| LRet (k : nat) (o : op)
| LParentCancel
| LSubscribe (c : nat)                   (* the environment is about to subscribe *)
| LSubDo (c : nat)                       (* tau: SubscribeStateChanges runs: register, initial snapshot *)
| LSubRecv (c : nat) (m : list (option st))
| LSubCancel (c : nat)
| LSubUnreg (c : nat)                    (* tau: closer goroutine unsubscribes and closes *)
| LSubClosed (c : nat)                   (* the consumer observes the closed channel *)
| LSubRel (i : nat)
| LQuiet
| LSnap (o : snapshot)
(* helper goroutines leaving on their own (ctx.Done / end of Shutdown).  The acceptor does not explore them (they are
   not in [taus]: a helper's exit is observable only through its manager's join, which subsumes it - keeping the
   frontier small); they exist so that theorems can say that every helper CAN leave and count it until it has *)
| LRlsExit (i : nat)                     (* tau: reload-trigger listener i leaves on ctx.Done *)
| LSlsExit (i : nat)                     (* tau: shutdown-trigger listener i leaves on ctx.Done *)
| LMonExit (i : nat)                     (* tau: state monitor i leaves on ctx.Done (GetStateChan honours its context) *)
| LHupExit                               (* tau: a 'go p.ReloadAll()' goroutine gives up on ctx.Done *)
| LSdTrigExit.                           (* tau: a trigger-spawned 'go p.Shutdown()' goroutine returns once Shutdown is done *)

Definition obs (l : label) : option event :=
  match l with
  | LRunEnter => Some ERunEnter
  | LSeenEntered => Some EEntered
  | LPollBegin i => Some (EPollBegin i)
  | LPoll i b => Some (EPoll i b)
  | LMainReturn r => Some (ERunReturn r)
  | LRunCall i => Some (ERunCall i)
  | LRunRet i e => Some (ERunRet i e)
  | LStopCall i => Some (EStopCall i)
  | LStopRet i => Some (EStopRet i)
  | LReloadCall j => Some (EReloadCall j)
  | LReloadRet j => Some (EReloadRet j)
  | LTrigR i => Some (ETrigR i)
  | LTrigS i => Some (ETrigS i)
  | LEmit i x => Some (EEmit i x)
  | LCall k o => Some (ECall k o)
  | LRet k o => Some (ERet k o)
  | LParentCancel => Some EParentCancel
  | LSubscribe c => Some (ESubscribe c)
  | LSubRecv c m => Some (ESubRecv c m)
  | LSubCancel c => Some (ESubCancel c)
  | LSubClosed c => Some (ESubClosed c)
  | LSubRel i => Some (ESubRel i)
  | LQuiet => Some EQuiet
  | LSnap o => Some (ESnap o)
  | _ => None
  end.

(* ------------------------------------------------------------------ step *)

Definition after_launch (c : config) (i : nat) : main_pc :=
  if Nat.ltb (S i) (nrun c) then MLaunch (S i) else MReap.

(* number of runnables Run() has started (always a prefix of the registration order) *)
Definition launched (s : state) : nat :=
  length (filter (fun p => match p with RnNot => false | _ => true end) (rn s)).

Definition sd_next (k : nat) : sd_pc := match k with O => SdCancel | S _ => SdNext k end.

Definition store_state (c : config) (s : state) (i : nat) : state :=
  if stateable (spec c i) then set_smap s (upd (smap s) i (Some (cur_at s i))) (subs s) else s.

Definition run_may_return (c : config) (s : state) (i : nat) : bool :=
  match run_exit (spec c i) with
  | ExitOnSignal => get false (stop_called s) i || ctx_done s
  | ExitFree => true
  | ExitNever => false
  end.

Definition stop_may_return (c : config) (s : state) (i : nat) : bool :=
  match stop_style (spec c i) with
  | StopNonBlocking => true
  | StopUntilRunDone => match rn_at s i with RnSending _ | RnDone => true | _ => false end
  end.

Definition opt_st_eqb (a b : option st) : bool :=
  match a, b with
  | Some x, Some y => Nat.eqb x y
  | None, None => true
  | _, _ => false
  end.

Fixpoint smap_eqb (a b : list (option st)) : bool :=
  match a, b with
  | [], [] => true
  | x :: a', y :: b' => opt_st_eqb x y && smap_eqb a' b'
  | _, _ => false
  end.

Definition mark_ls_done (l : list ls_pc) : list ls_pc :=
  map (fun p => match p with LsAbsent => LsAbsent | _ => LsDone end) l.

Definition mark_mon_done (l : list mon_pc) : list mon_pc :=
  map (fun p => match p with MoAbsent => MoAbsent | _ => MoDone end) l.

Definition set_rtrig (s : state) (l : list nat) : state :=
  set_aux s {| rtrig := l; strig := strig (aux s); sub_ok := sub_ok (aux s); polling := polling (aux s); finals := finals (aux s);
               run_entered := run_entered (aux s); sd_all := sd_all (aux s); su_fired := su_fired (aux s) |}.
Definition set_strig (s : state) (l : list nat) : state :=
  set_aux s {| rtrig := rtrig (aux s); strig := l; sub_ok := sub_ok (aux s); polling := polling (aux s); finals := finals (aux s);
               run_entered := run_entered (aux s); sd_all := sd_all (aux s); su_fired := su_fired (aux s) |}.
Definition set_sub_ok (s : state) (l : list bool) : state :=
  set_aux s {| rtrig := rtrig (aux s); strig := strig (aux s); sub_ok := l; polling := polling (aux s); finals := finals (aux s);
               run_entered := run_entered (aux s); sd_all := sd_all (aux s); su_fired := su_fired (aux s) |}.
Definition set_polling (s : state) (b : bool) : state :=
  set_aux s {| rtrig := rtrig (aux s); strig := strig (aux s); sub_ok := sub_ok (aux s); polling := b; finals := finals (aux s);
               run_entered := run_entered (aux s); sd_all := sd_all (aux s); su_fired := su_fired (aux s) |}.
Definition set_finals (s : state) (l : list (option st)) : state :=
  set_aux s {| rtrig := rtrig (aux s); strig := strig (aux s); sub_ok := sub_ok (aux s); polling := polling (aux s);
               finals := l;
               run_entered := run_entered (aux s); sd_all := sd_all (aux s); su_fired := su_fired (aux s) |}.
Definition set_run_entered (s : state) : state :=
  set_aux s {| rtrig := rtrig (aux s); strig := strig (aux s); sub_ok := sub_ok (aux s); polling := polling (aux s);
               finals := finals (aux s);
               run_entered := true; sd_all := sd_all (aux s); su_fired := su_fired (aux s) |}.
Definition set_sd_all (s : state) : state :=
  set_aux s {| rtrig := rtrig (aux s); strig := strig (aux s); sub_ok := sub_ok (aux s); polling := polling (aux s);
               finals := finals (aux s);
               run_entered := run_entered (aux s); sd_all := true; su_fired := su_fired (aux s) |}.
Definition set_su_fired (s : state) : state :=
  set_aux s {| rtrig := rtrig (aux s); strig := strig (aux s); sub_ok := sub_ok (aux s); polling := polling (aux s);
               finals := finals (aux s);
               run_entered := run_entered (aux s); sd_all := sd_all (aux s); su_fired := true |}.

(* how many runnables Shutdown will stop (stopCount): what Run() has started so far when Run() is driving
   the start-up, every registered runnable when Run() has not been entered *)
Definition stop_count (c : config) (s : state) : nat :=
  if run_entered (aux s) then launched s else nrun c.

(* the moment Shutdown closes the launch gate (00876a0): from here on Run() starts nothing *)
Definition start_shutdown (c : config) (s : state) : state :=
  match sd s with
  | SdNot => set_sd (if run_entered (aux s) then s else set_sd_all s) (sd_next (stop_count c s))
  | _ => s
  end.

(* Run(), launch gate open: the reload manager with one listener per ReloadSender, the state monitor with one
   monitor per Stateable, the shutdown manager with one listener per ShutdownSender *)
Definition start_managers (c : config) (s : state) : state :=
  set_mon
    (set_listeners
       (set_rm s (if any_spec reloadable c then RmIdle else RmAbsent) (passes s))
       (map (fun r => if rsender r && any_spec reloadable c then LsIdle else LsAbsent) (specs c))
       (map (fun r => if ssender r then LsIdle else LsAbsent) (specs c))
       (negb (any_spec ssender c)) (negb (any_spec stateable c)))
    (map (fun r => if stateable r then MoNot else MoAbsent) (specs c)) (mq s).

(* Shutdown, after the wait for the goroutines has COMPLETED (not after its timeout): the final states
   recorded after each Stop() are stored again - a state monitor that was still catching up may have written
   an older value over one of them, and the monitors are gone now (repo fix for C06) *)
Fixpoint overlay (f m : list (option st)) : list (option st) :=
  match f, m with
  | Some v :: f', _ :: m' => Some v :: overlay f' m'
  | None :: f', x :: m' => x :: overlay f' m'
  | _, _ => m
  end.
Definition restore_finals (s : state) : state := set_smap s (overlay (finals (aux s)) (smap s)) (subs s).

(* all labels except the quiescence observations *)
Definition step0 (c : config) (s : state) (l : label) : option state :=
  let n := nrun c in
  match l with
  | LRunEnter =>
    match main s with
    | MNew => Some (with_hist (set_main s MEntering) ERunEnter)
    | _ => None
    end
  | LRunEntered =>
    match main s with
    | MEntering =>
      let s1 := set_run_entered s in
      Some (set_main (match sd s with SdNot => start_managers c s1 | _ => s1 end) (MLaunch 0))
    | _ => None
    end
  | LSeenEntered =>
    if run_entered (aux s) then Some (with_hist s EEntered) else None
  | LLaunch i =>
    match main s with
    | MLaunch j =>
      if Nat.eqb i j && Nat.ltb i n then
        match sd s with
        | SdNot => Some (set_main (set_rn s i RnLaunched)
                                  (if stateable (spec c i) then MGate i else after_launch c i))
        | _ => Some (set_main s MReap)      (* the launch gate is closed: leave the start-up loop *)
        end
      else None
    | _ => None
    end
  | LPollBegin i =>
    match main s with
    | MGate j => if Nat.eqb i j && negb (polling (aux s))
                 then Some (with_hist (set_polling s true) (EPollBegin i)) else None
    | _ => None
    end
  | LPoll i b =>
    match main s with
    | MGate j => if Nat.eqb i j
                 then Some (with_hist (set_polling (if b then set_main s (MGateCheck i) else s) false) (EPoll i b))
                 else None
    | _ => None
    end
  | LGateDecide i =>
    match main s with
    | MGateCheck j =>
      if Nat.eqb i j then
        match errq s with
        | e :: q => Some (set_main (set_errq s q) (MExit (ResErr e)))
        | [] => Some (set_main s (after_launch c i))
        end
      else None
    | _ => None
    end
  | LGateErr i =>
    match main s, errq s with
    | MGate j, e :: q => if Nat.eqb i j && negb (polling (aux s))
                         then Some (set_main (set_errq s q) (MExit (ResErr e))) else None
    | _, _ => None
    end
  | LGateTimeout i =>
    match main s with
    | MGate j => if Nat.eqb i j && startup_may_fire c && negb (ctx_done s) && negb (polling (aux s))
                 then Some (set_main (set_su_fired s) (MExit ResTimeout)) else None
    | _ => None
    end
  | LGateCtx i =>
    match main s with
    | MGate j => if Nat.eqb i j && ctx_done s && negb (polling (aux s))
                 then match errq s with
                      | e :: q => Some (set_main (set_errq s q) (MExit (ResErr e)))  (* pendingError() *)
                      | [] => Some (set_main s (after_launch c i))
                      end
                 else None
    | _ => None
    end
  | LReapErr =>
    match main s, errq s with
    | MReap, e :: q => Some (set_main (set_errq s q) (MExit (ResErr e)))
    | _, _ => None
    end
  | LReapCtx =>
    match main s with
    | MReap => if ctx_done s then Some (set_main s (MExit ResNil)) else None
    | _ => None
    end
  | LReapSig =>
    match main s, sigq s with
    | MReap, g :: q =>
      let s1 := set_sigq s q in
      match g with
      | SigInt | SigTerm => Some (set_main s1 (MExit ResNil))
      | SigHup => Some (if any_spec reloadable c then set_hup s1 (S (hup s1)) else s1)
      | SigOther => Some s1
      end
    | _, _ => None
    end
  | LMainShutdown =>
    match main s with
    | MExit r => Some (set_main (start_shutdown c s) (MWaitSd r))
    | _ => None
    end
  | LMainReturn r =>
    match main s, sd s with
    | MWaitSd r', SdDone =>
      match r, r' with
      | ResNil, ResNil | ResTimeout, ResTimeout => Some (with_hist (set_main s (MReturned r)) (ERunReturn r))
      | ResErr a, ResErr b => if Nat.eqb a b then Some (with_hist (set_main s (MReturned r)) (ERunReturn r)) else None
      | _, _ => None
      end
    | _, _ => None
    end
  | LRunCall i =>
    match rn_at s i with
    | RnLaunched => if Nat.ltb i n && negb (stateable (spec c i))
                    then Some (with_hist (set_rn s i RnRunning) (ERunCall i))
                    else None
    | RnStored => if Nat.ltb i n
                  then Some (with_hist (set_rn s i RnRunning) (ERunCall i))
                  else None
    | _ => None
    end
  | LRunStore i =>
    (* startRunnable, before it calls Run: stateMap.Store(r, initialState); broadcastState() *)
    match rn_at s i with
    | RnLaunched => if Nat.ltb i n && stateable (spec c i)
                    then Some (set_smap (set_rn s i RnStored) (upd (smap s) i (Some (cur_at s i)))
                                        (broadcast (upd (smap s) i (Some (cur_at s i))) (subs s)))
                    else None
    | _ => None
    end
  | LRunRet i e =>
    match rn_at s i with
    | RnRunning =>
      if Nat.ltb i n && run_may_return c s i then
        Some (with_hist (set_rn s i (match e with
                                     | Some (id, false) => RnSending id
                                     | _ => RnDone
                                     end)) (ERunRet i e))
      else None
    | _ => None
    end
  | LErrSend i =>
    match rn_at s i with
    | RnSending e => if Nat.ltb i n then Some (set_errq (set_rn s i RnDone) (errq s ++ [e])) else None
    | _ => None
    end
  | LStopCall i =>
    match sd s with
    | SdNext (S j) => if Nat.eqb i j
                      then Some (with_hist (set_stop_called (set_sd s (SdIn i)) i) (EStopCall i))
                      else None
    | _ => None
    end
  | LStopRet i =>
    match sd s with
    | SdIn j =>
      if Nat.eqb i j && stop_may_return c s i then
        Some (with_hist (store_state c (if stateable (spec c i)
                                        then set_finals (set_sd s (sd_next i)) (upd (finals (aux s)) i (Some (cur_at s i)))
                                        else set_sd s (sd_next i)) i) (EStopRet i))
      else None
    | _ => None
    end
  | LSdCancel =>
    match sd s with
    | SdCancel => Some (set_sd (set_cancel s true (parent_cancel s) (sd_timed_out s)) SdWait)
    | _ => None
    end
  | LSdWgDone =>
    match sd s with
    | SdWait => if wg_zero s then Some (restore_finals (set_sd s SdDone)) else None
    | _ => None
    end
  | LSdTimeout =>
    match sd s with
    | SdWait => if shutdown_may_fire c
                then Some (set_sd (set_cancel s (own_cancel s) (parent_cancel s) true) SdDone)
                else None
    | _ => None
    end
  | LRmAccept w =>
    match rm s with
    | RmIdle =>
      let go (s1 : state) := Some (set_rm s1 (rm_after c 0) (S (passes s1))) in
      match w with
      | SndCaller k =>
        match find_caller k (callers s) with
        | Some (OpReloadAll, CPending) => go (set_callers s (set_caller k CReady (callers s)))
        | _ => None
        end
      | SndHup => match hup s with S h => go (set_hup s h) | O => None end
      | SndListener i =>
        match get LsAbsent (rls s) i with
        | LsFwd => go (set_listeners s (upd (rls s) i LsIdle) (sls s) (sdm_done s) (stm_done s))
        | _ => None
        end
      end
    | _ => None
    end
  | LReloadCall j =>
    match rm s with
    | RmNext k => if Nat.eqb j k then Some (with_hist (set_rm s (RmIn j) (passes s)) (EReloadCall j)) else None
    | _ => None
    end
  | LReloadRet j =>
    match rm s with
    | RmIn k => if Nat.eqb j k
                then Some (with_hist (store_state c (set_rm s (rm_after c (S j)) (passes s)) j) (EReloadRet j))
                else None
    | _ => None
    end
  | LRmCtx =>
    match rm s with
    | RmIdle => if ctx_done s then Some (set_rm s RmDrain (passes s)) else None
    | _ => None
    end
  | LRmExit =>
    match rm s with
    | RmDrain =>
      (* every listener leaves on ctx.Done; their exits are only observable through this join *)
      Some (set_rm (set_listeners s (mark_ls_done (rls s)) (sls s) (sdm_done s) (stm_done s)) RmDone (passes s))
    | _ => None
    end
  | LTrigR i =>
    if Nat.ltb i n then
      Some (with_hist (set_rtrig s (upd (rtrig (aux s)) i (S (get 0 (rtrig (aux s)) i)))) (ETrigR i))
    else None
  | LTrigRecvR i =>
    match get LsAbsent (rls s) i, get 0 (rtrig (aux s)) i with
    | LsIdle, S t =>
      Some (set_rtrig (set_listeners s (upd (rls s) i LsFwd) (sls s) (sdm_done s) (stm_done s))
                      (upd (rtrig (aux s)) i t))
    | _, _ => None
    end
  | LTrigS i =>
    if Nat.ltb i n then
      Some (with_hist (set_strig s (upd (strig (aux s)) i (S (get 0 (strig (aux s)) i)))) (ETrigS i))
    else None
  | LTrigRecvS i =>
    match get LsAbsent (sls s) i, get 0 (strig (aux s)) i with
    | LsIdle, S t =>
      let s1 := set_listeners s (rls s) (upd (sls s) i LsDone) (sdm_done s) (stm_done s) in
      let s2 := set_strig s1 (upd (strig (aux s)) i t) in
      Some (start_shutdown c (set_sd_trig s2 (S (sd_trig s2))))
    | _, _ => None
    end
  | LSdmExit =>
    if negb (sdm_done s) && ctx_done s
    then Some (set_listeners s (rls s) (mark_ls_done (sls s)) true (stm_done s)) else None
  | LMonSub i =>
    match mon_at s i with
    | MoNot => if get false (sub_ok (aux s)) i
               then Some (set_mon s (upd (mon s) i MoFirst) (upd (mq s) i [cur_at s i])) else None
    | _ => None
    end
  | LMonRecv i =>
    match get [] (mq s) i with
    | v :: q =>
      match mon_at s i with
      | MoFirst =>
        match get None (smap s) i with
        | Some p =>
          if Nat.eqb p v
          then Some (set_mon s (upd (mon s) i (MoLoop (Some p))) (upd (mq s) i q))
          else Some (set_mon (set_smap s (upd (smap s) i (Some v)) (subs s))
                             (upd (mon s) i (MoBcast (Some v))) (upd (mq s) i q))
        | None => Some (set_mon s (upd (mon s) i (MoLoop None)) (upd (mq s) i q))
        end
      | MoLoop last =>
        if opt_st_eqb (Some v) last
        then Some (set_mon s (mon s) (upd (mq s) i q))
        else Some (set_mon (set_smap s (upd (smap s) i (Some v)) (subs s))
                           (upd (mon s) i (MoBcast (Some v))) (upd (mq s) i q))
      | _ => None
      end
    | [] => None
    end
  | LMonBcast i =>
    match mon_at s i with
    | MoBcast last =>
      Some (set_mon (set_smap s (smap s) (broadcast (smap s) (subs s))) (upd (mon s) i (MoLoop last)) (mq s))
    | _ => None
    end
  | LStmExit =>
    if negb (stm_done s) && ctx_done s
    then Some (set_listeners (set_mon s (mark_mon_done (mon s)) (map (fun _ => []) (mq s)))
                             (rls s) (sls s) (sdm_done s) true) else None
  | LEmit i x =>
    if Nat.ltb i n && stateable (spec c i) then
      let q := match mon_at s i with
               | MoFirst | MoLoop _ | MoBcast _ => upd (mq s) i (get [] (mq s) i ++ [x])
               | _ => mq s
               end in
      Some (with_hist (set_cur s (upd (cur s) i x) q) (EEmit i x))
    else None
  | LCall k o =>
    match find_caller k (callers s) with
    | Some _ => None
    | None =>
      Some (with_hist (set_callers s (callers s ++ [(k, o, match o with OpShutdown => CNew | _ => CPending end)]))
                      (ECall k o))
    end
  | LCallerGo k =>
    match find_caller k (callers s) with
    | Some (OpShutdown, CNew) => Some (start_shutdown c (set_callers s (set_caller k CPending (callers s))))
    | _ => None
    end
  | LSigPut k =>
    match find_caller k (callers s), sigq s with
    | Some (OpSignal g, CPending), [] =>
      Some (set_sigq (set_callers s (set_caller k CReady (callers s))) [g])
    | _, _ => None
    end
  | LCallerCtx k =>
    match find_caller k (callers s) with
    | Some (OpSignal _, CPending) | Some (OpReloadAll, CPending) =>
      if ctx_done s then Some (set_callers s (set_caller k CReady (callers s))) else None
    | _ => None
    end
  | LRet k o =>
    match find_caller k (callers s) with
    | Some (o', cs) =>
      if op_eqb o o' &&
         match o, cs with
         | OpShutdown, CNew => false
         | OpShutdown, _ => match sd s with SdDone => true | _ => false end
         | _, CReady => true
         | _, _ => false
         end
      then Some (with_hist (set_callers s (del_caller k (callers s))) (ERet k o))
      else None
    | None => None
    end
  | LParentCancel =>
    Some (with_hist (set_cancel s (own_cancel s) true (sd_timed_out s)) EParentCancel)
  | LSubscribe c0 =>
    match find_sub c0 (subs s) with
    | Some _ => None
    | None =>
      Some (with_hist (set_smap s (smap s)
                         (subs s ++ [{| sub_id := c0; sub_buf := []; sub_started := false; sub_registered := false;
                                        sub_cancelled := false; sub_closed := false |}]))
                      (ESubscribe c0))
    end
  | LSubDo c0 =>
    match find_sub c0 (subs s) with
    | Some b =>
      if sub_started b then None else
      Some (set_smap s (smap s)
              (set_sub {| sub_id := c0; sub_buf := [smap s]; sub_started := true; sub_registered := true;
                          sub_cancelled := sub_cancelled b; sub_closed := false |} (subs s)))
    | None => None
    end
  | LSubRecv c0 m =>
    match find_sub c0 (subs s) with
    | Some b =>
      match sub_buf b with
      | m' :: q =>
        if smap_eqb m m' then
          Some (with_hist (set_smap s (smap s)
                             (set_sub {| sub_id := c0; sub_buf := q; sub_started := sub_started b; sub_registered := sub_registered b;
                                         sub_cancelled := sub_cancelled b; sub_closed := sub_closed b |} (subs s)))
                          (ESubRecv c0 m))
        else None
      | [] => None
      end
    | None => None
    end
  | LSubCancel c0 =>
    match find_sub c0 (subs s) with
    | Some b =>
      if sub_cancelled b then None else
      Some (with_hist (set_smap s (smap s)
                         (set_sub {| sub_id := c0; sub_buf := sub_buf b; sub_started := sub_started b; sub_registered := sub_registered b;
                                     sub_cancelled := true; sub_closed := sub_closed b |} (subs s)))
                      (ESubCancel c0))
    | None => None
    end
  | LSubUnreg c0 =>
    match find_sub c0 (subs s) with
    | Some b =>
      if sub_started b && sub_cancelled b && negb (sub_closed b) then
        Some (set_smap s (smap s)
                (set_sub {| sub_id := c0; sub_buf := sub_buf b; sub_started := true; sub_registered := false;
                            sub_cancelled := true; sub_closed := true |} (subs s)))
      else None
    | None => None
    end
  | LSubClosed c0 =>
    match find_sub c0 (subs s) with
    | Some b => match sub_buf b with
                | [] => if sub_closed b then Some (with_hist s (ESubClosed c0)) else None
                | _ => None
                end
    | None => None
    end
  | LSubRel i =>
    if Nat.ltb i n then
      Some (with_hist (set_sub_ok s (upd (sub_ok (aux s)) i true)) (ESubRel i))
    else None
  | LQuiet => None
  | LSnap _ => None
  | LRlsExit i =>
    match get LsAbsent (rls s) i with
    | LsIdle | LsFwd =>
      if ctx_done s then Some (set_listeners s (upd (rls s) i LsDone) (sls s) (sdm_done s) (stm_done s)) else None
    | _ => None
    end
  | LSlsExit i =>
    match get LsAbsent (sls s) i with
    | LsIdle | LsFwd =>
      if ctx_done s then Some (set_listeners s (rls s) (upd (sls s) i LsDone) (sdm_done s) (stm_done s)) else None
    | _ => None
    end
  | LMonExit i =>
    match mon_at s i with
    | MoNot | MoFirst | MoLoop _ =>
      if ctx_done s then Some (set_mon s (upd (mon s) i MoDone) (upd (mq s) i [])) else None
    | _ => None
    end
  | LHupExit =>
    match hup s with
    | S h => if ctx_done s then Some (set_hup s h) else None
    | O => None
    end
  | LSdTrigExit =>
    match sd_trig s, sd s with
    | S t, SdDone => Some (set_sd_trig s t)
    | _, _ => None
    end
  end.

(* ------------------------------------------------------------------ label enumeration *)

Definition idxs (c : config) : list nat := seq 0 (nrun c).

(* internal labels that may be enabled, timers excluded *)
Definition taus_nt (c : config) (s : state) : list label :=
  let ix := idxs c in
  map LLaunch ix ++ map LGateDecide ix ++ map LGateErr ix ++ map LGateCtx ix
  ++ [LRunEntered; LReapErr; LReapCtx; LReapSig; LMainShutdown]
  ++ map LErrSend ix ++ map LRunStore ix
  ++ [LSdCancel; LSdWgDone]
  ++ map (fun kc => LRmAccept (SndCaller (fst (fst kc)))) (callers s)
  ++ [LRmAccept SndHup] ++ map (fun i => LRmAccept (SndListener i)) ix
  ++ [LRmCtx; LRmExit; LSdmExit; LStmExit]
  ++ map LTrigRecvR ix ++ map LTrigRecvS ix
  ++ map LMonSub ix ++ map LMonRecv ix ++ map LMonBcast ix
  ++ map (fun kc => LSigPut (fst (fst kc))) (callers s)
  ++ map (fun kc => LCallerCtx (fst (fst kc))) (callers s)
  ++ map (fun b => LSubUnreg (sub_id b)) (subs s) ++ map (fun b => LSubDo (sub_id b)) (subs s)
  ++ map (fun kc => LCallerGo (fst (fst kc))) (callers s).

(* timer expiries: internal, but a goroutine waiting for one is blocked *)
Definition timer_taus (c : config) (s : state) : list label :=
  map LGateTimeout (idxs c) ++ [LSdTimeout].

Definition taus (c : config) (s : state) : list label := taus_nt c s ++ timer_taus c s.

(* visible labels the implementation performs by itself (not the environment) *)
Definition autos (c : config) (s : state) : list label :=
  let ix := idxs c in
  map LRunCall ix ++ map LStopCall ix ++ map LReloadCall ix
  ++ map (fun kc => LRet (fst (fst kc)) (snd (fst kc))) (callers s)
  ++ match main s with MWaitSd r => [LMainReturn r] | _ => [] end.

Definition quiescent (c : config) (s : state) : bool :=
  forallb (fun l => match step0 c s l with None => true | Some _ => false end) (taus_nt c s ++ autos c s).

Definition count_if {A} (f : A -> bool) (l : list A) : nat := length (filter f l).

(* Library goroutine census.  A helper goroutine whose only remaining step is to leave on
   ctx.Done (trigger listeners, state monitors, pending SIGHUP senders) or on the end of Shutdown
   (goroutines spawned by a shutdown trigger) is counted as gone: its exit is not a separate
   transition of the model (it is observable only through its manager's join). *)
Definition census (s : state) : nat :=
  let live := negb (ctx_done s) in
  (match main s with MNew | MReturned _ => 0 | _ => 1 end)
  + count_if (fun p => match p with RnLaunched | RnStored | RnRunning | RnSending _ => true | _ => false end) (rn s)
  + (if rm_finished (rm s) then 0 else 1)
  + (if live then count_if (fun p => negb (ls_finished p)) (rls s) else 0)
  + (if sdm_done s then 0 else 1)
  + (if live then count_if (fun p => negb (ls_finished p)) (sls s) else 0)
  + (if stm_done s then 0 else 1)
  + (if live then count_if (fun p => negb (mon_finished p)) (mon s) else 0)
  + (if live then hup s else 0)
  + (match sd s with SdDone => 0 | _ => sd_trig s end)
  + length (callers s)
  + (match sd s with SdWait => 1 | SdDone => if sd_timed_out s && negb (wg_zero s) then 1 else 0 | _ => 0 end)
  + count_if (fun b => negb (sub_closed b)) (subs s).

Fixpoint insert_sorted (x : nat) (l : list nat) : list nat :=
  match l with
  | [] => [x]
  | y :: t => if Nat.leb x y then x :: l else y :: insert_sorted x t
  end.

Definition snapshot_of (s : state) : snapshot :=
  {| sn_blocked := fold_right insert_sorted [] (map (fun kc => fst (fst kc)) (callers s));
     sn_smap := smap s;
     sn_run_returned := match main s with MReturned _ => true | _ => false end;
     sn_gor := census s |}.

Fixpoint natlist_eqb (a b : list nat) : bool :=
  match a, b with
  | [], [] => true
  | x :: a', y :: b' => Nat.eqb x y && natlist_eqb a' b'
  | _, _ => false
  end.

Definition snapshot_eqb (a b : snapshot) : bool :=
  natlist_eqb (sn_blocked a) (sn_blocked b) && smap_eqb (sn_smap a) (sn_smap b)
  && Bool.eqb (sn_run_returned a) (sn_run_returned b) && Nat.eqb (sn_gor a) (sn_gor b).

Definition step (c : config) (s : state) (l : label) : option state :=
  match l with
  | LSnap o => if quiescent c s && snapshot_eqb (snapshot_of s) o
               then Some (with_hist s (ESnap o)) else None
  | LQuiet => if quiescent c s then Some (with_hist s EQuiet) else None
  | _ => step0 c s l
  end.

(* ------------------------------------------------------------------ acceptor plumbing *)

Definition result_eqb (a b : result) : bool :=
  match a, b with
  | ResNil, ResNil | ResTimeout, ResTimeout => true
  | ResErr x, ResErr y => Nat.eqb x y
  | _, _ => false
  end.

Definition oerr_eqb (a b : option (errid * bool)) : bool :=
  match a, b with
  | None, None => true
  | Some (x, p), Some (y, q) => Nat.eqb x y && Bool.eqb p q
  | _, _ => false
  end.

Definition event_eqb (a b : event) : bool :=
  match a, b with
  | ERunCall i, ERunCall j | EStopCall i, EStopCall j | EStopRet i, EStopRet j
  | EReloadCall i, EReloadCall j | EReloadRet i, EReloadRet j
  | ETrigR i, ETrigR j | ETrigS i, ETrigS j | ESubRel i, ESubRel j
  | ESubscribe i, ESubscribe j | ESubCancel i, ESubCancel j | ESubClosed i, ESubClosed j => Nat.eqb i j
  | ERunRet i e, ERunRet j f => Nat.eqb i j && oerr_eqb e f
  | EPoll i b, EPoll j d => Nat.eqb i j && Bool.eqb b d
  | EPollBegin i, EPollBegin j => Nat.eqb i j
  | EEmit i x, EEmit j y => Nat.eqb i j && Nat.eqb x y
  | ECall k o, ECall k' o' | ERet k o, ERet k' o' => Nat.eqb k k' && op_eqb o o'
  | EParentCancel, EParentCancel => true
  | ERunEnter, ERunEnter => true
  | EEntered, EEntered => true
  | EQuiet, EQuiet => true
  | ERunReturn r, ERunReturn r' => result_eqb r r'
  | ESubRecv c0 m, ESubRecv c1 m' => Nat.eqb c0 c1 && smap_eqb m m'
  | ESnap o, ESnap o' => snapshot_eqb o o'
  | _, _ => false
  end.

(* the label that produces a given event *)
Definition vis (c : config) (s : state) (e : event) : list label :=
  match e with
  | ERunCall i => [LRunCall i]
  | ERunRet i x => [LRunRet i x]
  | EStopCall i => [LStopCall i]
  | EStopRet i => [LStopRet i]
  | EReloadCall i => [LReloadCall i]
  | EReloadRet i => [LReloadRet i]
  | EPoll i b => [LPoll i b]
  | EPollBegin i => [LPollBegin i]
  | EEmit i x => [LEmit i x]
  | ETrigR i => [LTrigR i]
  | ETrigS i => [LTrigS i]
  | ECall k o => [LCall k o]
  | ERet k o => [LRet k o]
  | EParentCancel => [LParentCancel]
  | ERunReturn r => [LMainReturn r]
  | ERunEnter => [LRunEnter]
  | EEntered => [LSeenEntered]
  | ESubscribe c0 => [LSubscribe c0]
  | ESubRecv c0 m => [LSubRecv c0 m]
  | ESubCancel c0 => [LSubCancel c0]
  | ESubClosed c0 => [LSubClosed c0]
  | ESubRel i => [LSubRel i]
  | EQuiet => [LQuiet]
  | ESnap o => [LSnap o]
  end.

(* deduplication key: everything except the history (identical for all states compatible with a
   given trace prefix) *)
Definition nn (x : nat) : N := N.of_nat x.
Definition bb (b : bool) : N := if b then 1%N else 0%N.

Definition key_result (r : result) : list N :=
  match r with ResNil => [0%N] | ResErr e => [1%N; nn e] | ResTimeout => [2%N] end.

Definition key_main (m : main_pc) : list N :=
  match m with
  | MLaunch i => [0%N; nn i] | MGate i => [1%N; nn i] | MGateCheck i => [2%N; nn i]
  | MReap => [3%N] | MExit r => 4%N :: key_result r | MWaitSd r => 5%N :: key_result r
  | MReturned r => 6%N :: key_result r
  | MNew => [7%N] | MEntering => [8%N]
  end.

Definition key_rn (p : rn_pc) : list N :=
  match p with
  | RnNot => [0%N] | RnLaunched => [1%N] | RnRunning => [2%N] | RnSending e => [3%N; nn e] | RnDone => [4%N]
  | RnStored => [5%N]
  end.

Definition key_sd (p : sd_pc) : list N :=
  match p with
  | SdNot => [0%N] | SdNext k => [1%N; nn k] | SdIn i => [2%N; nn i] | SdCancel => [3%N]
  | SdWait => [4%N] | SdDone => [5%N]
  end.

Definition key_rm (p : rm_pc) : list N :=
  match p with
  | RmAbsent => [0%N] | RmIdle => [1%N] | RmNext j => [2%N; nn j] | RmIn j => [3%N; nn j]
  | RmDrain => [4%N] | RmDone => [5%N]
  end.

Definition key_ls (p : ls_pc) : N :=
  match p with LsAbsent => 0%N | LsIdle => 1%N | LsFwd => 2%N | LsDone => 3%N end.

Definition key_ost (o : option st) : list N :=
  match o with None => [0%N] | Some x => [1%N; nn x] end.

Definition key_mon (p : mon_pc) : list N :=
  match p with
  | MoAbsent => [0%N] | MoNot => [1%N] | MoFirst => [2%N] | MoLoop l => 3%N :: key_ost l | MoDone => [4%N]
  | MoBcast l => 5%N :: key_ost l
  end.

Definition key_sig (g : sig) : N :=
  match g with SigInt => 0%N | SigTerm => 1%N | SigHup => 2%N | SigOther => 3%N end.

Definition key_op (o : op) : list N :=
  match o with OpShutdown => [0%N] | OpReloadAll => [1%N] | OpSignal g => [2%N; key_sig g] end.

Definition sep : N := 255%N.

Definition key_sub (b : subscriber) : list N :=
  nn (sub_id b) :: bb (sub_started b) :: bb (sub_registered b) :: bb (sub_cancelled b) :: bb (sub_closed b)
  :: flat_map (fun m => sep :: flat_map key_ost m) (sub_buf b).

Definition key (s : state) : list N :=
  key_main (main s) ++ sep :: flat_map key_rn (rn s) ++ sep :: map bb (stop_called s)
  ++ sep :: map nn (errq s) ++ sep :: map key_sig (sigq s)
  ++ [sep; bb (own_cancel s); bb (parent_cancel s); bb (sd_timed_out s); nn (sd_trig s)]
  ++ key_sd (sd s) ++ sep :: key_rm (rm s) ++ sep :: map key_ls (rls s) ++ sep :: map key_ls (sls s)
  ++ [sep; bb (sdm_done s); bb (stm_done s)]
  ++ flat_map key_mon (mon s) ++ sep :: flat_map (fun q => sep :: map nn q) (mq s)
  ++ sep :: map nn (cur s) ++ sep :: flat_map key_ost (smap s)
  ++ [sep; nn (hup s); nn (passes s)] ++ map nn (rtrig (aux s)) ++ sep :: map nn (strig (aux s))
  ++ sep :: map bb (sub_ok (aux s)) ++ [sep; bb (polling (aux s)); bb (run_entered (aux s)); bb (sd_all (aux s)); bb (su_fired (aux s))]
  ++ flat_map key_ost (finals (aux s)) ++ [sep]
  ++ flat_map (fun kc => nn (fst (fst kc)) :: key_op (snd (fst kc)) ++ [match snd kc with CPending => 0%N | CReady => 1%N | CNew => 2%N end]) (callers s)
  ++ sep :: flat_map (fun b => sep :: key_sub b) (subs s).
