(* Model of internal/finitestate.Machine (go-fsm v2 + the broadcast manager + the
   GetStateChan forwarder).  No proofs here.

   What the code does (read off go-fsm v2.3.0 fsm.go, hooks/broadcast/manager.go and
   /repo/internal/finitestate/machine.go):

   * Transition / TransitionBool / TransitionIfCurrentState / SetState take the machine's
     write mutex, check, store the new state (an atomic.Value) and then run the
     post-transition hook, i.e. broadcast.Manager.Broadcast, STILL HOLDING the mutex.
     GetState is a lock-free atomic load.
   * Broadcast takes the manager's own mutex for the whole broadcast, starts one goroutine per
     subscriber that does  select { ch <- state ; <-time.After(5s) }  and waits for all of them.
     So a machine call returns only when every subscriber's channel (cap 1) has taken the value
     or its 5 s timer fired (the value is then dropped for that subscriber).  Registration and
     un-registration of a subscriber take the manager's mutex, hence never overlap a broadcast.
   * finitestate.GetStateChan: register with the manager (channel [bch], cap 1), THEN read the
     current state, push it into a fresh wrapped channel [wch] (cap 1), start the forwarder
     goroutine (bch -> wch, closes wch when bch is closed) and return wch.  A cleanup goroutine
     waits for the context, un-registers and closes bch.

   The model fuses "store the state" and "take the manager mutex + snapshot the subscribers"
   into the single label [LOp]: the only things that can happen in between are lock-free loads
   (equivalent to loads after the label) and a registration / un-registration (equivalent to one
   just before the label).  [pend] is the set of subscribers the running broadcast still has to
   serve; the machine mutex and the manager mutex are held exactly while [pend <> []].

   The forwarder.  Unchanged code (legacy):  for s := range userCh { wrappedCh <- s }  - a forwarder
   holding a value while the consumer does not read is blocked in the send forever, also after the
   subscriber's context was cancelled (goroutine leak, C18).  Repaired code:
     for s := range userCh {
       select { case wrappedCh <- s:
                case <-ctx.Done(): select { case wrappedCh <- s:
                                            case <-time.After(forwardGrace): } } }   // 100 ms
   i.e. once the context is cancelled a value the forwarder holds waits for room in the wrapped
   channel only for a bounded grace; then it is discarded (label [LFwdAbort], a TIMED internal step
   like the broadcast timeout [LDrop]; the subscriber "did not keep up": the ghost flag [dropped] is
   set) and the forwarder goes on with the manager channel until the cleanup goroutine closes it;
   then it closes the wrapped channel and ends ([LFwdClose], as before).  A consumer that keeps
   reading after the cancel still receives everything.
   [stepx fx] is the model with ([fx] = true) or without the repair; [fix_fwd] says which variant
   [step] - the one all theorems and the correspondence checks are about - is. *)
From Coq Require Export List NArith Bool.
Export ListNotations.

Inductive st := New | Booting | Running | Reloading | Stopping | Stopped | Error | Unknown.

Definition st_code (s : st) : N :=
  match s with
  | New => 0 | Booting => 1 | Running => 2 | Reloading => 3
  | Stopping => 4 | Stopped => 5 | Error => 6 | Unknown => 7
  end%N.

Definition st_eqb (a b : st) : bool :=
  match a, b with
  | New, New | Booting, Booting | Running, Running | Reloading, Reloading
  | Stopping, Stopping | Stopped, Stopped | Error, Error | Unknown, Unknown => true
  | _, _ => false
  end.

Definition all_st : list st := [New; Booting; Running; Reloading; Stopping; Stopped; Error; Unknown].

(* the transition table as dumped from the linked go-fsm: allowed pairs + defined states *)
Record tcfg := mkCfg { tb : list (st * st); sts : list st }.

Definition allowedb (c : tcfg) (a b : st) : bool :=
  existsb (fun p => st_eqb (fst p) a && st_eqb (snd p) b) (tb c).

Definition has_state (c : tcfg) (a : st) : bool := existsb (st_eqb a) (sts c).

(* the documented lifecycle: New -> Booting -> Running <-> Reloading, Running -> Stopping -> Stopped *)
Definition lifecycle_edge (a b : st) : bool :=
  match a, b with
  | New, Booting | Booting, Running | Running, Reloading | Reloading, Running
  | Running, Stopping | Stopping, Stopped => true
  | _, _ => false
  end.

(* everything else the table may contain: entering Error from any lifecycle state (or Error),
   leaving Error towards Stopping/Stopped (shutdown of a failed runner), restarting a stopped
   runner, and the isolated Unknown state *)
Definition documented (a b : st) : bool :=
  lifecycle_edge a b
  || (st_eqb b Error && negb (st_eqb a Unknown))
  || (st_eqb a Error && (st_eqb b Stopping || st_eqb b Stopped))
  || (st_eqb a Stopped && st_eqb b New)
  || (st_eqb a Unknown && st_eqb b Unknown).

(* first step of a history that is outside the documented graph *)
Fixpoint first_undocumented (a : st) (l : list st) : option (st * st) :=
  match l with
  | [] => None
  | b :: t => if documented a b then first_undocumented b t else Some (a, b)
  end.

Fixpoint first_bad_step (c : tcfg) (a : st) (l : list st) : option (st * st) :=
  match l with
  | [] => None
  | b :: t => if allowedb c a b || st_eqb b Error then first_bad_step c b t else Some (a, b)
  end.

(* the machine calls used by the runners *)
Inductive op :=
| OTrans (to : st)              (* Transition / TransitionBool *)
| OTransIf (from to : st)       (* TransitionIfCurrentState *)
| OSet (to : st).               (* SetState: bypasses the table *)

(* Some s' = the call succeeds and stores s' (and broadcasts it, even when s' = cur) *)
Definition op_result (c : tcfg) (cur : st) (o : op) : option st :=
  match o with
  | OTrans to => if allowedb c cur to then Some to else None
  | OTransIf from to => if st_eqb cur from && allowedb c cur to then Some to else None
  | OSet to => if has_state c to then Some to else None
  end.

Inductive stage := SReg | SLive.

Record sub := mkSub {
  sg : stage;            (* SReg: registered, state not yet read; SLive: channel returned *)
  bch : list st;         (* the manager's channel, cap 1 *)
  bclosed : bool;
  hand : option st;      (* value the forwarder holds between its receive and its send *)
  wch : list st;         (* wrapped channel, cap 1 *)
  wclosed : bool;
  cancelled : bool;      (* the subscriber's context *)
  unsub : bool;          (* cleanup goroutine has un-registered (and closed bch) *)
  dropped : bool;        (* a broadcast timed out on this subscriber, or the repaired forwarder discarded a
                            value after the cancel because the wrapped channel stayed full for the whole
                            grace period: it did not keep up *)
  got : list st;         (* what the consumer received, oldest first *)
  gotclosed : bool;      (* the consumer saw the channel closed *)
  reg_at : nat;          (* ghost: number of state changes so far at registration *)
  read_at : nat;         (* ghost: ... when the state was read *)
  unsub_at : nat         (* ghost: ... at un-registration *)
}.

Record state := mkState {
  cur : st;
  hist : list st;        (* every value stored so far, oldest first (the initial New excluded) *)
  pend : list nat;       (* subscribers the current broadcast has still to serve *)
  subs : list sub
}.

Definition init : state := mkState New [] [] [].

Inductive label :=
| LOp (o : op) (ok : bool)     (* a machine call and its outcome *)
| LSub                          (* GetStateChan: registration with the manager *)
| LRead (i : nat)               (* GetStateChan: load state, push, start forwarder, return *)
| LDeliver (i : nat)            (* broadcast goroutine: send succeeded *)
| LDrop (i : nat)               (* broadcast goroutine: 5 s timer fired, value dropped *)
| LFwdTake (i : nat)
| LFwdPut (i : nat)
| LFwdClose (i : nat)
| LCancel (i : nat)
| LUnsub (i : nat)
| LRecv (i : nat) (v : st)
| LRecvClosed (i : nat)
| LGet (v : st)                 (* GetState() = v *)
| LIsRun (b : bool)             (* IsRunning() = b  (GetState() == Running in all three runners) *)
| LFwdAbort (i : nat).          (* repaired forwarder: cancelled, wrapped channel full, grace expired: value discarded *)

Fixpoint upd (i : nat) (f : sub -> sub) (l : list sub) : list sub :=
  match l, i with
  | [], _ => []
  | x :: t, O => f x :: t
  | x :: t, S j => x :: upd j f t
  end.

Fixpoint memn (i : nat) (l : list nat) : bool :=
  match l with [] => false | x :: t => Nat.eqb x i || memn i t end.

Fixpoint remn (i : nat) (l : list nat) : list nat :=
  match l with [] => [] | x :: t => if Nat.eqb x i then remn i t else x :: remn i t end.

(* indices (from k) of the registered subscribers *)
Fixpoint live_from (k : nat) (l : list sub) : list nat :=
  match l with
  | [] => []
  | x :: t => if unsub x then live_from (S k) t else k :: live_from (S k) t
  end.

Definition set_subs (s : state) (l : list sub) : state := mkState (cur s) (hist s) (pend s) l.

Definition with_sub (s : state) (i : nat) (g : sub -> option sub) : option state :=
  match nth_error (subs s) i with
  | None => None
  | Some x => match g x with
              | None => None
              | Some y => Some (set_subs s (upd i (fun _ => y) (subs s)))
              end
  end.

Definition new_sub (n : nat) : sub :=
  mkSub SReg [] false None [] false false false false [] false n 0 0.

Definition is_nil {A} (l : list A) : bool := match l with [] => true | _ => false end.

Definition fix_fwd : bool := true.

Definition stepx (fx : bool) (c : tcfg) (s : state) (l : label) : option state :=
  match l with
  | LOp o ok =>
    if is_nil (pend s) then
      match op_result c (cur s) o with
      | Some to => if ok then Some (mkState to (hist s ++ [to]) (live_from 0 (subs s)) (subs s))
                   else None
      | None => if ok then None else Some s
      end
    else None
  | LSub =>
    if is_nil (pend s) then Some (set_subs s (subs s ++ [new_sub (length (hist s))])) else None
  | LRead i =>
    with_sub s i (fun x =>
      match sg x with
      | SReg => Some (mkSub SLive (bch x) (bclosed x) (hand x) [cur s] (wclosed x) (cancelled x)
                            (unsub x) (dropped x) (got x) (gotclosed x) (reg_at x)
                            (length (hist s)) (unsub_at x))
      | SLive => None
      end)
  | LDeliver i =>
    if memn i (pend s) then
      match with_sub s i (fun x =>
              if is_nil (bch x)
              then Some (mkSub (sg x) [cur s] (bclosed x) (hand x) (wch x) (wclosed x) (cancelled x)
                               (unsub x) (dropped x) (got x) (gotclosed x) (reg_at x) (read_at x)
                               (unsub_at x))
              else None) with
      | Some s' => Some (mkState (cur s') (hist s') (remn i (pend s)) (subs s'))
      | None => None
      end
    else None
  | LDrop i =>
    if memn i (pend s) then
      match with_sub s i (fun x =>
              if is_nil (bch x) then None
              else Some (mkSub (sg x) (bch x) (bclosed x) (hand x) (wch x) (wclosed x) (cancelled x)
                               (unsub x) true (got x) (gotclosed x) (reg_at x) (read_at x)
                               (unsub_at x))) with
      | Some s' => Some (mkState (cur s') (hist s') (remn i (pend s)) (subs s'))
      | None => None
      end
    else None
  | LFwdTake i =>
    with_sub s i (fun x =>
      match sg x, hand x, bch x with
      | SLive, None, v :: r =>
        Some (mkSub SLive r (bclosed x) (Some v) (wch x) (wclosed x) (cancelled x) (unsub x)
                    (dropped x) (got x) (gotclosed x) (reg_at x) (read_at x) (unsub_at x))
      | _, _, _ => None
      end)
  | LFwdPut i =>
    with_sub s i (fun x =>
      match hand x, wch x with
      | Some v, [] =>
        Some (mkSub (sg x) (bch x) (bclosed x) None [v] (wclosed x) (cancelled x) (unsub x)
                    (dropped x) (got x) (gotclosed x) (reg_at x) (read_at x) (unsub_at x))
      | _, _ => None
      end)
  | LFwdClose i =>
    with_sub s i (fun x =>
      match sg x, hand x, bch x with
      | SLive, None, [] =>
        if bclosed x && negb (wclosed x)
        then Some (mkSub SLive [] true None (wch x) true (cancelled x) (unsub x)
                         (dropped x) (got x) (gotclosed x) (reg_at x) (read_at x) (unsub_at x))
        else None
      | _, _, _ => None
      end)
  | LCancel i =>
    with_sub s i (fun x =>
      Some (mkSub (sg x) (bch x) (bclosed x) (hand x) (wch x) (wclosed x) true (unsub x)
                  (dropped x) (got x) (gotclosed x) (reg_at x) (read_at x) (unsub_at x)))
  | LUnsub i =>
    if is_nil (pend s) then
      with_sub s i (fun x =>
        if cancelled x && negb (unsub x)
        then Some (mkSub (sg x) (bch x) true (hand x) (wch x) (wclosed x) true true
                         (dropped x) (got x) (gotclosed x) (reg_at x) (read_at x)
                         (length (hist s)))
        else None)
    else None
  | LRecv i v =>
    with_sub s i (fun x =>
      match sg x, wch x with
      | SLive, w :: r =>
        if st_eqb w v
        then Some (mkSub SLive (bch x) (bclosed x) (hand x) r (wclosed x) (cancelled x) (unsub x)
                         (dropped x) (got x ++ [w]) (gotclosed x) (reg_at x) (read_at x)
                         (unsub_at x))
        else None
      | _, _ => None
      end)
  | LRecvClosed i =>
    with_sub s i (fun x =>
      match sg x, wch x with
      | SLive, [] =>
        if wclosed x && negb (gotclosed x)
        then Some (mkSub SLive (bch x) (bclosed x) (hand x) [] true (cancelled x) (unsub x)
                         (dropped x) (got x) true (reg_at x) (read_at x) (unsub_at x))
        else None
      | _, _ => None
      end)
  | LGet v => if st_eqb (cur s) v then Some s else None
  | LIsRun b => if Bool.eqb (st_eqb (cur s) Running) b then Some s else None
  | LFwdAbort i =>
    if fx then
      with_sub s i (fun x =>
        match sg x, hand x, wch x with
        | SLive, Some _, _ :: _ =>
          if cancelled x
          then Some (mkSub SLive (bch x) (bclosed x) None (wch x) (wclosed x) (cancelled x) (unsub x)
                           true (got x) (gotclosed x) (reg_at x) (read_at x) (unsub_at x))
          else None
        | _, _, _ => None
        end)
    else None
  end.

(* the model of the code as it is in the repository *)
Definition step : tcfg -> state -> label -> option state := stepx fix_fwd.

(* Candidate repair of the finding stream:stale-replay (hooks/candidate-fix-c08-a-*.patch, NOT in the
   repository): finitestate.Machine wraps every state-changing call and the pair "register with the
   broadcast manager; read the current state" of GetStateChan in one mutex.  In the model: no machine
   call and no other registration while some subscriber is between its registration and its read.
   [step_fixsub] is a restriction of [step] (every run of it is a run of [step], so every theorem about
   [step] holds of it) in which additionally read_at = reg_at for every subscriber: the stream is
   exactly s0 :: later changes - no duplicate, no stale replay (proofs/FsmExtra.v).
   [fix_sub] tells the correspondence driver which variant the repository is: with [true] a leading
   duplicate on the implementation's streams is a disagreement as well. *)
Definition fix_sub : bool := false.

Definition all_live (s : state) : bool :=
  forallb (fun x => match sg x with SLive => true | SReg => false end) (subs s).

Definition step_fixsub (c : tcfg) (s : state) (l : label) : option state :=
  match l with
  | LOp _ _ | LSub => if all_live s then step c s l else None
  | _ => step c s l
  end.

(* ------------------------------------------------------------------ *)
(* The executable predicates of the property (used by the theorems and by the driver) *)

(* the machine's state after [k] changes *)
Definition state_at (h : list st) (k : nat) : st :=
  match k with O => New | S j => nth j h New end.

(* changes number a+1 .. b *)
Definition segment (h : list st) (a b : nat) : list st := firstn (b - a) (skipn a h).

(* what a subscriber registered after [g] changes, which read the state after [r] changes and was
   un-registered after [u] changes is sent in total *)
Definition expected_stream (h : list st) (g r u : nat) : list st :=
  state_at h r :: segment h g u.

Fixpoint list_eqb (a b : list st) : bool :=
  match a, b with
  | [], [] => true
  | x :: a', y :: b' => st_eqb x y && list_eqb a' b'
  | _, _ => false
  end.

Fixpoint prefixb (a b : list st) : bool :=
  match a, b with
  | [], _ => true
  | x :: a', y :: b' => st_eqb x y && prefixb a' b'
  | _ :: _, [] => false
  end.

(* a walk: every step is in the table or targets Error *)
Fixpoint walk_okb (c : tcfg) (a : st) (l : list st) : bool :=
  match l with
  | [] => true
  | b :: t => (allowedb c a b || st_eqb b Error) && walk_okb c b t
  end.

Definition is_running (s : st) : bool := st_eqb s Running.

(* Run() result vs the state at return: nil <-> Stopped, otherwise Error *)
Definition result_okb (res_nil : bool) (at_ret : st) : bool :=
  if res_nil then st_eqb at_ret Stopped else st_eqb at_ret Error.

(* drop one leading duplicate *)
Definition drop_dup (l : list st) : list st :=
  match l with
  | a :: ((b :: _) as t) => if st_eqb a b then t else l
  | _ => l
  end.

(* Search for the instants (g <= r within [lo,hi], u within [ulo,uhi] or = length h when the
   subscription was never cancelled) that explain a received stream.  [closed]: the consumer saw
   the channel closed (then the stream must be complete), otherwise it must be a prefix.
   Result: Some (g, r) for the explanation with the smallest r - g. *)
Fixpoint range (a n : nat) : list nat :=
  match n with O => [] | S k => a :: range (S a) k end.

Definition fits (h got : list st) (closed : bool) (g r u : nat) : bool :=
  if closed then list_eqb got (expected_stream h g r u)
  else prefixb got (expected_stream h g r u).

Definition find_fit (h got : list st) (closed : bool) (lo hi ulo uhi : nat) (gap : nat)
  : option (nat * nat) :=
  let cands :=
    flat_map (fun g =>
      let r := g + gap in
      if Nat.leb r hi then
        if existsb (fun u => Nat.leb g u && fits h got closed g r u) (range ulo (S (uhi - ulo)))
        then [(g, r)] else []
      else []) (range lo (S (hi - lo))) in
  match cands with x :: _ => Some x | [] => None end.

(* classification of a subscriber's stream against the reference history:
   0 = s0 :: changes, 1 = one leading duplicate, 2 + k = stale replay of k+1 old values
   (reordering), None = not explained at all (loss / corruption) *)
Fixpoint classify_gap (h got : list st) (closed : bool) (lo hi ulo uhi : nat) (gap fuel : nat)
  : option nat :=
  match fuel with
  | O => None
  | S f =>
    match find_fit h got closed lo hi ulo uhi gap with
    | Some _ => Some gap
    | None => classify_gap h got closed lo hi ulo uhi (S gap) f
    end
  end.

Definition classify_stream (h got : list st) (closed : bool) (lo hi ulo uhi : nat) : option nat :=
  classify_gap h got closed lo hi ulo uhi 0 (S (hi - lo)).

(* ------------------------------------------------------------------ *)
(* OUTSIDE the property's hypothesis: a consumer that does not read for longer than the forwarder's
   grace after its subscription was cancelled.  The repaired forwarder ([LFwdAbort]) then discards the
   value in its hand - once per grace period, it is one goroutine - and goes on with the manager
   channel (which keeps being fed until the cleanup goroutine has un-registered the subscriber).  The
   stream the consumer finally reads is the expected one,  s0 :: changes,  with at most [k] values
   missing (k = number of whole grace periods between the cancel and the close), all of them among the
   values that had not yet reached the wrapped channel when the context was cancelled: with [c] a lower
   bound of the number of changes at the cancel, the changes up to c - 2 cannot be affected (the last
   two completed changes may still sit in the forwarder's hand and the manager channel), and neither can
   any of the [rcv] values the consumer had ALREADY RECEIVED when the context was cancelled: while the
   subscription is live nothing is ever discarded, whatever the consumer's speed below the broadcast
   timeout - a value missing among the first [rcv] is a loss on a live subscription.  Order is kept
   and s0 - put into the wrapped channel by GetStateChan itself - is never lost.
   The driver uses this classification only for a subscriber whose close was seen at least one grace
   period after its cancel (measured by the harness): such a subscriber is counted as "slow after
   cancel"; every other shortened stream remains a disagreement. *)
Fixpoint fits_lossy (got exp : list st) (skip k : nat) : bool :=
  match exp with
  | [] => is_nil got
  | y :: exp' =>
    (match got with x :: got' => st_eqb x y && fits_lossy got' exp' (pred skip) k | [] => false end)
    || (match skip, k with O, S k' => fits_lossy got exp' 0 k' | _, _ => false end)
  end.

Definition classify_slow (h got : list st) (lo hi ulo uhi k rcv : nat) : bool :=
  existsb (fun g =>
    existsb (fun r =>
      existsb (fun u => Nat.leb g u &&
                        match got with
                        | x :: got' => st_eqb x (state_at h r) &&
                                       fits_lossy got' (segment h g u) (Nat.max (ulo - 2 - g) (rcv - 1)) k
                        | [] => false
                        end)
              (range ulo (S (uhi - ulo))))
      (range g (S (hi - g))))
    (range lo (S (hi - lo))).
