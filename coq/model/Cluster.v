(* Model of runnables/httpcluster/entries.go: the entries planner, AS WRITTEN,
   including the derived map key  id ++ ":stop"  under which the old instance of a
   restarted server is filed (defect F9: server ids are arbitrary strings, so the
   derived key can collide with a real id).

   Go maps are association lists with unique keys; the iteration order of the one
   loop whose order matters (the loop over the current servers in
   buildPendingEntries) is an explicit argument [ord].  Configurations are abstract
   values whose [Config.Equal] is [N.eqb]; a running server's runtime (runner, ctx,
   cancel) is the number of the server instance (instances are numbered at creation).

   The boolean [fx] selects the candidate repair hooks/fix-c16-stop-key-collision.patch
   (the derived key is extended until it is unused).  [repaired] says which variant
   the correspondence check compares against; flip it when the repair is committed.
   No proofs here. *)
From Coq Require Export List NArith Bool.
Export ListNotations.
Open Scope N_scope.

Definition repaired : bool := true.

Definition id := list N.          (* a Go string: its bytes *)
Definition cfg := N.              (* abstract *httpserver.Config; Equal = N.eqb *)

Fixpoint id_eqb (a b : id) : bool :=
  match a, b with
  | [], [] => true
  | x :: a', y :: b' => N.eqb x y && id_eqb a' b'
  | _, _ => false
  end.

(* ":stop" *)
Definition sfx : id := [58; 115; 116; 111; 112].

Inductive action := ANone | AStart | AStop.

Definition action_eqb (a b : action) : bool :=
  match a, b with
  | ANone, ANone | AStart, AStart | AStop, AStop => true
  | _, _ => false
  end.

(* serverEntry: id, config, runtime (None = runner/ctx/cancel all nil), pending action *)
Record entry := mkE { e_id : id; e_cfg : cfg; e_rt : option N; e_act : action }.

Definition optN_eqb (a b : option N) : bool :=
  match a, b with
  | Some x, Some y => N.eqb x y
  | None, None => true
  | _, _ => false
  end.

Definition entry_eqb (a b : entry) : bool :=
  id_eqb (e_id a) (e_id b) && N.eqb (e_cfg a) (e_cfg b) &&
  optN_eqb (e_rt a) (e_rt b) && action_eqb (e_act a) (e_act b).

(* map[string]*serverEntry *)
Definition emap := list (id * entry).
(* map[string]*httpserver.Config handed to the cluster: None = nil config *)
Definition cmap := list (id * option cfg).

Fixpoint lookup {A : Type} (k : id) (m : list (id * A)) : option A :=
  match m with
  | [] => None
  | (k', v) :: t => if id_eqb k' k then Some v else lookup k t
  end.

Definition mem {A : Type} (k : id) (m : list (id * A)) : bool :=
  match lookup k m with Some _ => true | None => false end.

(* m[k] = v *)
Fixpoint insert {A : Type} (k : id) (v : A) (m : list (id * A)) : list (id * A) :=
  match m with
  | [] => [(k, v)]
  | (k', v') :: t => if id_eqb k' k then (k', v) :: t else (k', v') :: insert k v t
  end.

Definition keys {A : Type} (m : list (id * A)) : list id := map fst m.

Definition set_act (a : action) (e : entry) : entry := mkE (e_id e) (e_cfg e) (e_rt e) a.
Definition start_entry (k : id) (c : cfg) : entry := mkE k c None AStart.

(* newEntries: nil configs are skipped *)
Definition new_entries (m : cmap) : emap :=
  fold_left (fun acc p => match snd p with
                          | Some c => insert (fst p) (start_entry (fst p) c) acc
                          | None => acc
                          end) m [].

(* removeEntry *)
Definition remove_entry (k : id) (m : emap) : emap :=
  filter (fun p => negb (id_eqb (fst p) k)) m.

(* getPendingActions: (toStart, toStop), in iteration order *)
Definition pending_actions (m : emap) : list id * list id :=
  (keys (filter (fun p => action_eqb (e_act (snd p)) AStart) m),
   keys (filter (fun p => action_eqb (e_act (snd p)) AStop) m)).

Definition count (m : emap) : nat := length m.

(* commit: stop entries are dropped, every other action is cleared *)
Definition commit (m : emap) : emap :=
  map (fun p => (fst p, set_act ANone (snd p)))
      (filter (fun p => negb (action_eqb (e_act (snd p)) AStop)) m).

(* setRuntime / clearRuntime: None = the Go nil result (no such key) *)
Definition set_rt (r : option N) (e : entry) : entry := mkE (e_id e) (e_cfg e) r (e_act e).

Definition update_rt (k : id) (r : option N) (m : emap) : emap :=
  map (fun p => if id_eqb (fst p) k then (fst p, set_rt r (snd p)) else p) m.

Definition set_runtime (k : id) (inst : N) (m : emap) : option emap :=
  if mem k m then Some (update_rt k (Some inst) m) else None.

Definition clear_runtime (k : id) (m : emap) : option emap :=
  if mem k m then Some (update_rt k None m) else None.

(* processExistingServer: the (key, entry) pairs it yields, in order *)
Definition process_existing (k : id) (old : entry) (d : option cfg) : list (id * entry) :=
  match d with
  | None =>
    match e_rt old with
    | Some _ => [(k, set_act AStop old)]
    | None => []
    end
  | Some c =>
    if N.eqb (e_cfg old) c then [(k, set_act ANone old)]
    else match e_rt old with
         | Some _ => [(k ++ sfx, set_act AStop old); (k, start_entry k c)]
         | None => [(k, start_entry k c)]
         end
  end.

(* the repair: extend a derived key with ":stop" until nobody uses it *)
Fixpoint fresh_key (fuel : nat) (taken : id -> bool) (k : id) : id :=
  if taken k
  then match fuel with O => k | S f => fresh_key f taken (k ++ sfx) end
  else k.

Definition maxlen (l : list id) : nat := fold_right (fun k n => Nat.max (length k) n) O l.

Definition insert_yield (fx : bool) (cur des : emap) (k : id) (acc : emap) (p : id * entry) : emap :=
  let key :=
      if fx && negb (id_eqb (fst p) k)
      then fresh_key (S (maxlen (keys cur ++ keys des ++ keys acc)))
                     (fun x => mem x cur || mem x des || mem x acc) (fst p)
      else fst p in
  insert key (snd p) acc.

(* first loop of buildPendingEntries over the current servers, visited in order [ord] *)
Definition build_existing (fx : bool) (ord : list id) (cur des : emap) : emap :=
  fold_left (fun acc k =>
               match lookup k cur with
               | None => acc
               | Some old =>
                 fold_left (insert_yield fx cur des k)
                           (process_existing k old (option_map e_cfg (lookup k des))) acc
               end) ord [].

(* second loop: servers that are only in the desired map *)
Definition build_new (cur des : emap) (acc : emap) : emap :=
  fold_left (fun acc p => if mem (fst p) cur then acc
                          else insert (fst p) (start_entry (fst p) (e_cfg (snd p))) acc) des acc.

(* buildPendingEntries; [ord] is the iteration order of the current map (a permutation of its keys) *)
Definition build_pending (fx : bool) (ord : list id) (cur des : emap) : emap :=
  build_new cur des (build_existing fx ord cur des).

(* ---- all iteration orders ---- *)
Fixpoint ins_all {A : Type} (x : A) (l : list A) : list (list A) :=
  match l with
  | [] => [[x]]
  | y :: t => (x :: l) :: map (cons y) (ins_all x t)
  end.

Fixpoint perms {A : Type} (l : list A) : list (list A) :=
  match l with
  | [] => [[]]
  | x :: t => flat_map (ins_all x) (perms t)
  end.

Definition build_pending_all (fx : bool) (cur des : emap) : list emap :=
  map (fun o => build_pending fx o cur des) (perms (keys cur)).

(* equality of maps with unique keys, up to order *)
Definition emap_sub (a b : emap) : bool :=
  forallb (fun p => match lookup (fst p) b with
                    | Some e => entry_eqb (snd p) e
                    | None => false
                    end) a.

Definition emap_eqb (a b : emap) : bool :=
  Nat.eqb (length a) (length b) && emap_sub a b && emap_sub b a.

Definition in_result_set (r : emap) (rs : list emap) : bool := existsb (emap_eqb r) rs.

(* number of distinct results *)
Fixpoint dedup_maps (l : list emap) : list emap :=
  match l with
  | [] => []
  | m :: t => if existsb (emap_eqb m) t then dedup_maps t else m :: dedup_maps t
  end.

(* ---- id hygiene: no id equals another id followed by ":stop" ---- *)
Definition hygienicb (ids : list id) : bool :=
  forallb (fun x => negb (existsb (id_eqb (x ++ sfx)) ids)) ids.

(* a colliding pair (x, x ++ ":stop"), if any *)
Definition collision (ids : list id) : option id :=
  find (fun x => existsb (id_eqb (x ++ sfx)) ids) ids.

(* ---- the specification of a correct plan (what the property needs from the planner) ---- *)
Definition stops (r : emap) (i : N) : bool :=
  existsb (fun p => action_eqb (e_act (snd p)) AStop && optN_eqb (e_rt (snd p)) (Some i)) r.

Definition has_entry (r : emap) (k : id) (e : entry) : bool :=
  match lookup k r with Some e' => entry_eqb e e' | None => false end.

Definition dcfg (des : emap) (k : id) : option cfg := option_map e_cfg (lookup k des).

(* what the plan must contain for one current entry *)
Definition plan_cur_okb (des r : emap) (p : id * entry) : bool :=
  let (k, old) := p in
  match dcfg des k with
  | None => match e_rt old with Some i => stops r i | None => true end
  | Some c =>
    if N.eqb (e_cfg old) c then has_entry r k (set_act ANone old)
    else match e_rt old with
         | Some i => stops r i && has_entry r k (start_entry k c)
         | None => has_entry r k (start_entry k c)
         end
  end.

Definition plan_new_okb (cur r : emap) (p : id * entry) : bool :=
  mem (fst p) cur || has_entry r (fst p) (start_entry (fst p) (e_cfg (snd p))).

(* nothing else is in the plan: a stop entry carries the instance of a removed/changed current
   entry; any other entry sits under a desired id *)
Definition plan_only_okb (cur des : emap) (p : id * entry) : bool :=
  let (k, e) := p in
  match e_act e with
  | AStop =>
    match e_rt e with
    | Some i => existsb (fun q => optN_eqb (e_rt (snd q)) (Some i) &&
                                  match dcfg des (fst q) with
                                  | None => true
                                  | Some c => negb (N.eqb (e_cfg (snd q)) c)
                                  end) cur
    | None => false
    end
  | _ => mem k des
  end.

Definition plan_okb (cur des r : emap) : bool :=
  forallb (plan_cur_okb des r) cur && forallb (plan_new_okb cur r) des &&
  forallb (plan_only_okb cur des) r.

(* ---- wrappers used by the correspondence driver (variant selected by [repaired]) ---- *)
Definition build_pending_set (cur des : emap) : list emap := build_pending_all repaired cur des.
Definition ids_of (cur des : emap) : list id :=
  keys cur ++ filter (fun k => negb (mem k cur)) (keys des).
