(* Skeleton of a runnable built on lifecycle.StartStop, as composite / httpserver / httpcluster
   are written:

     func (r *Runner) Run(ctx) error {
         done := r.lc.Started()          // RRunCall   (first statement; logging aside)
         defer done()                    //            (every exit path ends with RReturn)
         ... boot ...                    // RLocal*, then RBootOk, or an early `return err`: RBootFail
         select {                        // (possibly in a for loop: RLocal at the select)
         case <-r.lc.StopCh(): ...       // RSelStop
         case <-ctx.Done(): ...          // RSelOther
         case err := <-errs: ...         // RSelOther
         }
         ... teardown ...                // RLocal*
         return                          // RReturn: the deferred done()
     }
     func (r *Runner) Stop() { r.lc.Stop() }   // RCaller l: a label of some goroutine in lc.Stop()

   The runner's own state (FSM, children, servers) is abstracted: boot/teardown steps are RLocal
   stutters, an early return and the non-stop select cases are "Run leaves for another reason".
   [rstep] embeds the lifecycle model ([step true], the code as it is in /repo); LifecycleRunnerProofs.v
   shows every runner schedule projects to a lifecycle schedule, so the C07 theorems transfer.

   [shape] / [all_ok]: the source facts that make Run()/Stop() of a bundled runner an instance of
   this skeleton; coq/gen/RunnerShape.v is regenerated from the repo on every run by
   harness/cmd/c07shape. *)
From Coq Require Import List Arith Bool String.
From GS Require Import Lifecycle.
Import ListNotations.

Inductive kpc := KIdle | KBoot | KSelect | KTeardown.
Record rstate := mkR { r_lc : state; r_pc : kpc }.
Definition rinit : rstate := mkR init KIdle.

Inductive rlabel :=
| RCaller (l : label)
| RRunCall | RBootOk | RBootFail | RSelStop | RSelOther | RLocal | RReturn.

Definition is_caller_label (l : label) : bool :=
  match l with
  | LSpawn | LSec1 _ | LWaitStarted _ | LSec2 _ | LWaitDone _ => true
  | _ => false
  end.

Definition lift (pc' : kpc) (o : option state) : option rstate :=
  match o with Some lc' => Some (mkR lc' pc') | None => None end.

Definition rstep (s : rstate) (l : rlabel) : option rstate :=
  match l, r_pc s with
  | RCaller c, pc => if is_caller_label c then lift pc (step true (r_lc s) c) else None
  | RRunCall, KIdle => lift KBoot (step true (r_lc s) LRunStart)
  | RBootOk, KBoot => Some (mkR (r_lc s) KSelect)
  | RBootFail, KBoot => lift KTeardown (step true (r_lc s) LRunExitOther)
  | RSelStop, KSelect => lift KTeardown (step true (r_lc s) LRunSeeStop)
  | RSelOther, KSelect => lift KTeardown (step true (r_lc s) LRunExitOther)
  | RLocal, KBoot => Some s
  | RLocal, KSelect => Some s
  | RLocal, KTeardown => Some s
  | RReturn, KTeardown => lift KIdle (step true (r_lc s) LDone)
  | _, _ => None
  end.

Fixpoint rrun (s : rstate) (ls : list rlabel) : option rstate :=
  match ls with
  | [] => Some s
  | l :: t => match rstep s l with Some s' => rrun s' t | None => None end
  end.

(* the lifecycle label a runner label performs (none for local steps) *)
Definition proj (l : rlabel) : list label :=
  match l with
  | RCaller c => [c]
  | RRunCall => [LRunStart]
  | RBootOk => []
  | RBootFail => [LRunExitOther]
  | RSelStop => [LRunSeeStop]
  | RSelOther => [LRunExitOther]
  | RLocal => []
  | RReturn => [LDone]
  end.

(* what a parked Stop() may rely on: its own steps, Run being invoked, boot finishing, the select
   taking the StopCh case, Run returning *)
Definition rhelpful (k : nat) : list rlabel :=
  map RCaller (own_labels k) ++ [RRunCall; RBootOk; RSelStop; RReturn].

Definition rmeasure (s : rstate) (c : caller) : nat :=
  2 * measure (r_lc s) c + match r_pc s with KBoot => 1 | _ => 0 end.

(* ---------- source shape of a bundled runner ---------- *)
Record shape := mkShape {
  sh_name : string;
  sh_started_first : bool;     (* Run begins with  done := r.lc.Started()  *)
  sh_defer_done : bool;        (* immediately followed by  defer done()     *)
  sh_stop_is_lc_stop : bool;   (* Stop() is exactly  r.lc.Stop()            *)
  sh_stopch_in_select : bool;  (* Run has a select with  case <-r.lc.StopCh() *)
  sh_lc_only_so : bool;        (* the lc field is used nowhere else         *)
  sh_done_only_deferred : bool (* the closure returned by Started() is used once: in that defer
                                  (no early call, not passed on, not captured, not reassigned) *)
}.

Definition shape_ok (sh : shape) : bool :=
  sh_started_first sh && sh_defer_done sh && sh_stop_is_lc_stop sh && sh_stopch_in_select sh &&
  sh_lc_only_so sh && sh_done_only_deferred sh.

Fixpoint names_eqb (a b : list string) : bool :=
  match a, b with
  | [], [] => true
  | x :: a', y :: b' => String.eqb x y && names_eqb a' b'
  | _, _ => false
  end.

Definition expected_runners : list string := ["composite"; "httpserver"; "httpcluster"]%string.

Definition all_ok (l : list shape) : bool :=
  names_eqb (map sh_name l) expected_runners && forallb shape_ok l.
