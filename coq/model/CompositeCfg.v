(* C19, composite part: the list handling of runnables/composite/{config,runner,reload}.go with every
   Go operation that can panic made explicit: slice indexing (entries[i], other.Entries[i]),
   sync.WaitGroup counters (negative counter panics), make(chan, n) with n < 0.  Entries are
   (runnable identity, configuration) pairs; the children's own behaviour is not part of this model
   (they are the environment, C09-C11).  No proofs here. *)
From Coq Require Export List NArith ZArith Bool.
Export ListNotations.

Inductive outcome (A : Type) := Done (a : A) | Panics.
Arguments Done {A} a.
Arguments Panics {A}.

Definition entry := (N * N)%type.        (* Runnable.String() identity, Config *)

(* sync.WaitGroup *)
Definition wg_add (c : Z) (n : nat) : outcome Z :=
  let c' := (c + Z.of_nat n)%Z in if (c' <? 0)%Z then Panics else Done c'.
Definition wg_done (c : Z) : outcome Z := if (c - 1 <? 0)%Z then Panics else Done (c - 1)%Z.

(* boot: len(cfg.Entries) == 0 returns at once; otherwise make(chan error, len), startWg.Add(len),
   one goroutine per entry each calling startWg.Done(), startWg.Wait().  Returns the entries started (in
   order) and the final WaitGroup counter. *)
Fixpoint start_all (es : list entry) (wg : Z) (acc : list entry) : outcome (list entry * Z) :=
  match es with
  | [] => Done (rev acc, wg)
  | e :: t => match wg_done wg with
              | Done wg' => start_all t wg' (e :: acc)
              | Panics => Panics
              end
  end.

Definition boot (es : list entry) : outcome (list entry) :=
  match es with
  | [] => Done []
  | _ => match wg_add 0 (length es) with
         | Done wg => match start_all es wg [] with
                      | Done (started, wg') => if (wg' =? 0)%Z then Done started else Panics (* Wait would block *)
                      | Panics => Panics
                      end
         | Panics => Panics
         end
  end.

(* stopAllRunnables: wg.Add(len); for i := len-1; i >= 0; i-- { entry := cfg.Entries[i]; go { Stop(); wg.Done() } } *)
Fixpoint stop_from (es : list entry) (k : nat) (wg : Z) (acc : list entry) : outcome (list entry * Z) :=
  match k with
  | O => Done (rev acc, wg)
  | S k' => match nth_error es k' with
            | Some e => match wg_done wg with
                        | Done wg' => stop_from es k' wg' (e :: acc)
                        | Panics => Panics
                        end
            | None => Panics                      (* index out of range *)
            end
  end.

Definition stop_all (es : list entry) : outcome (list entry) :=
  match wg_add 0 (length es) with
  | Done wg => match stop_from es (length es) wg [] with
               | Done (stopped, wg') => if (wg' =? 0)%Z then Done stopped else Panics
               | Panics => Panics
               end
  | Panics => Panics
  end.

(* hasMembershipChanged *)
Definition membership_changed (old new : list entry) : bool :=
  if negb (Nat.eqb (length old) (length new)) then true
  else negb (forallb (fun e => existsb (fun o => N.eqb (fst o) (fst e)) old) new).

(* Config.Equal: for i, entry := range c.Entries { ... other.Entries[i] ... } after the length test *)
Fixpoint equal_from (es other : list entry) (i : nat) : outcome bool :=
  match es with
  | [] => Done true
  | e :: t => match nth_error other i with
              | Some o => if N.eqb (fst e) (fst o) && N.eqb (snd e) (snd o) then equal_from t other (S i) else Done false
              | None => Panics
              end
  end.
Definition config_equal_comp (es other : list entry) : outcome bool :=
  if negb (Nat.eqb (length es) (length other)) then Done false else equal_from es other 0.

(* Reload with the old and the new entry list (either may be empty / nil): the list of children stopped
   and the list started *)
Definition reload (old new : list entry) : outcome (list entry * list entry) :=
  if membership_changed old new
  then match stop_all old with
       | Done stopped => match boot new with
                         | Done started => Done (stopped, started)
                         | Panics => Panics
                         end
       | Panics => Panics
       end
  else Done ([], []).

(* Run with the initial list, then Stop *)
Definition run_stop (es : list entry) : outcome (list entry * list entry) :=
  match boot es with
  | Done started => match stop_all es with
                    | Done stopped => Done (started, stopped)
                    | Panics => Panics
                    end
  | Panics => Panics
  end.
