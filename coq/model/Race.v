(* C17 - data-race model: access tables, lock semantics, per-field policies, table_ok.
   Executable definitions only (proofs: proofs/RaceSound.v, proofs/RaceEntries.v).

   Three layers live here:
   (1) the vocabulary of the access table that harness/cmd/srcfacts regenerates from the Go
       source on every run (coq/gen/AccessTable.v instantiates it);
   (2) an operational model of threads taking locks and touching fields, with the
       "two different threads are both about to perform conflicting accesses" notion of race;
   (3) the per-field policy language and the checker [table_ok policy exceptions table].

   TRUSTED (not proved anywhere):
   - that a reachable state of (2) with two simultaneously enabled conflicting accesses is what
     the Go memory model calls a data race for sequentially consistent executions, and that a
     race-free program has only such executions (the usual DRF argument);
   - that srcfacts reports every access to the tracked fields with a lock set that the running
     goroutine really holds at that point (its lexical analysis; the propagation to helpers is
     NOT trusted: the table carries every call site and [entries_ok] re-checks it);
   - that sites flagged pre-publication (constructor / fresh literal / local copy) execute
     before the object is reachable from a second goroutine. *)
From Coq Require Import String List Bool Arith.
Import ListNotations.
Open Scope string_scope.
Open Scope list_scope.

(* ------------------------------------------------------------------ (1) table vocabulary *)

Inductive lmode := Sh | Ex.
Inductive akind := Rd | Wr | Use.     (* Use: method call on a sync/atomic value stored in the field *)
Inductive prepub := PreNone | PreCtor | PreFresh | PreLocal.
Inductive tycat := TSync | TChan | TCtx | TFunc | TPlain.

Definition lockset := list (string * lmode).

(* string concatenation; [++] is kept for lists *)
Infix "+++" := String.append (right associativity, at level 60).

Record field_decl := mkField { fd_struct : string; fd_field : string; fd_cat : tycat }.

Record func_decl := mkFuncC {
  fn_name : string;
  fn_exported : bool;       (* callable from outside the package *)
  fn_value_used : bool;     (* used as a function value / reachable through an interface / escaping literal *)
  fn_ctor : bool;
  fn_entry : lockset;       (* claimed "held by every caller" (same receiver object) *)
  fn_entry_conds : list string
                            (* claimed history facts "set:$.f" that hold at EVERY call of this context ("$" = its
                               receiver): the caller - or the goroutine that spawned it - executed `$.f = true` before *)
}.

Record call_site := mkCallC {
  cs_callee : string; cs_caller : string;
  cs_locks : lockset;       (* locks of the callee's receiver object lexically held at the call *)
  cs_same_recv : bool;      (* callee's receiver is the caller's receiver: caller's entry locks carry over *)
  cs_spawn : bool;          (* go statement / WaitGroup.Go: no LOCK carries over (history facts do) *)
  cs_dbg : string;
  cs_conds : list string;   (* history facts known lexically at the call, about the callee's receiver *)
  cs_inherit : bool         (* callee's "$" is the caller's "$" (same receiver object, or a closure of the caller):
                               the caller's own entry facts carry over - also across a spawn *)
}.

(* the five/six-argument constructors used before entry facts existed (examples, older tables) *)
Definition mkFunc (n : string) (e v c : bool) (en : lockset) : func_decl := mkFuncC n e v c en [].
Definition mkCall (callee caller : string) (l : lockset) (sr sp : bool) (d : string) : call_site :=
  mkCallC callee caller l sr sp d [] false.

Record site := mkSite {
  s_struct : string; s_field : string; s_func : string;
  s_kind : akind;
  s_lex : lockset;          (* locks of the accessed object lexically held at the access *)
  s_same_recv : bool;       (* accessed object is the context's receiver: its entry locks apply *)
  s_pre : prepub;
  s_ord : nat;
  s_conds : list string;    (* conditions lexically known at the site: path conditions of enclosing ifs and
                               early exits (observed under the current lock state), and history facts
                               "set:$.f" (this goroutine executed `$.f = true` before); "$" = the receiver *)
  s_note : string;          (* method name of a Use; "=true"/"=false" for a constant write *)
  s_dbg : string            (* file:line - never inspected *)
}.

Record access_table := mkTable {
  t_fields : list field_decl;
  t_funcs : list func_decl;
  t_calls : list call_site;
  t_sites : list site;
  t_opts : list (string * bool)
}.

Definition is_ex (m : lmode) : bool := match m with Ex => true | Sh => false end.

Definition holds_any (h : lockset) (l : string) : bool :=
  existsb (fun p => String.eqb (fst p) l) h.
Definition holds_ex (h : lockset) (l : string) : bool :=
  existsb (fun p => String.eqb (fst p) l && is_ex (snd p)) h.

(* [covers h need]: every lock of [need] is held in [h] in at least the needed mode *)
Definition covers1 (h : lockset) (p : string * lmode) : bool :=
  if is_ex (snd p) then holds_ex h (fst p) else holds_any h (fst p).
Definition covers (h need : lockset) : bool := forallb (covers1 h) need.

Fixpoint decl_of (fs : list func_decl) (f : string) : option func_decl :=
  match fs with
  | [] => None
  | d :: r => if String.eqb (fn_name d) f then Some d else decl_of r f
  end.

Definition entry_of (fs : list func_decl) (f : string) : lockset :=
  match decl_of fs f with Some d => fn_entry d | None => [] end.

Definition entry_conds_of (fs : list func_decl) (f : string) : list string :=
  match decl_of fs f with Some d => fn_entry_conds d | None => [] end.

(* the static lock annotation of a site: lexical locks plus the entry locks of its context *)
Definition eff_locks (tbl : access_table) (s : site) : lockset :=
  (s_lex s ++ (if s_same_recv s then entry_of (t_funcs tbl) (s_func s) else []))%list.

Definition is_wr (s : site) : bool := match s_kind s with Wr => true | _ => false end.
Definition is_pre (s : site) : bool := match s_pre s with PreNone => false | _ => true end.
Definition same_field (a b : site) : bool :=
  String.eqb (s_struct a) (s_struct b) && String.eqb (s_field a) (s_field b).

(* two accesses that must not be simultaneously enabled in two different threads *)
Definition conflict (a b : site) : bool :=
  same_field a b && (is_wr a || is_wr b) && negb (is_pre a) && negb (is_pre b).

(* ------------------------------------------------------------------ (2) operational model *)

Inductive op := Acq (l : string) (m : lmode) | Rel (l : string) | Acc (s : site).

Record thread := mkThread { held : lockset; prog : list op }.
Definition state := list thread.

Fixpoint set_nth {A} (l : list A) (i : nat) (x : A) : list A :=
  match l, i with
  | [], _ => []
  | _ :: t, 0 => x :: t
  | h :: t, S k => h :: set_nth t k x
  end.

Fixpoint drop_lock (l : string) (h : lockset) : lockset :=
  match h with
  | [] => []
  | p :: t => if String.eqb (fst p) l then t else p :: drop_lock l t
  end.

(* sync.Mutex / sync.RWMutex: exclusive needs nobody (not even the caller: not re-entrant),
   shared needs no exclusive holder *)
Definition can_acq (st : state) (l : string) (m : lmode) : bool :=
  match m with
  | Ex => forallb (fun t => negb (holds_any (held t) l)) st
  | Sh => forallb (fun t => negb (holds_ex (held t) l)) st
  end.

(* thread [i] performs its next operation; None = not enabled (blocked, finished, no such thread,
   or unlock of a lock it does not hold - fatal in Go, never part of a run here) *)
Definition step (st : state) (i : nat) : option state :=
  match nth_error st i with
  | None => None
  | Some t =>
    match prog t with
    | [] => None
    | Acq l m :: k => if can_acq st l m then Some (set_nth st i (mkThread ((l, m) :: held t) k)) else None
    | Rel l :: k => if holds_any (held t) l then Some (set_nth st i (mkThread (drop_lock l (held t)) k)) else None
    | Acc _ :: k => Some (set_nth st i (mkThread (held t) k))
    end
  end.

(* a schedule is the list of thread indices that move *)
Fixpoint run (st : state) (sched : list nat) : option state :=
  match sched with
  | [] => Some st
  | i :: r => match step st i with Some st' => run st' r | None => None end
  end.

Definition next_acc (t : thread) : option site :=
  match prog t with Acc s :: _ => Some s | _ => None end.

(* initial states: any number of threads, any programs, no lock held *)
Definition initial (st : state) : Prop := forall t, In t st -> held t = [].

(* every access mentioned by a program is a site of the table *)
Fixpoint prog_sites (p : list op) : list site :=
  match p with
  | [] => []
  | Acc s :: k => s :: prog_sites k
  | _ :: k => prog_sites k
  end.

(* site annotations are truthful in a state: a thread about to access holds what the site says *)
Definition truthful (ann : site -> lockset) (st : state) : Prop :=
  forall i t s, nth_error st i = Some t -> next_acc t = Some s -> covers (held t) (ann s) = true.

(* a static, per-thread sufficient condition for truthfulness (used for non-vacuity and by
   anyone who wants a purely syntactic hypothesis) *)
Fixpoint check_prog (ann : site -> lockset) (h : lockset) (p : list op) : bool :=
  match p with
  | [] => true
  | Acq l m :: k => check_prog ann ((l, m) :: h) k
  | Rel l :: k => check_prog ann (drop_lock l h) k
  | Acc s :: k => covers h (ann s) && check_prog ann h k
  end.

(* ------------------------------------------------------------------ (3) policies *)

(* one side of an ordered pair: the function context, conditions its site must carry, locks it must hold *)
Record hbpair := mkHB {
  hb_f : string; hb_g : string;
  hb_cf : list string; hb_cg : list string;
  hb_lf : lockset; hb_lg : lockset
}.
Definition HB (f g : string) : hbpair := mkHB f g [] [] [] [].

Inductive fpolicy :=
| GuardedBy (l : string)          (* every shared access holds l; writers exclusively *)
| GuardedMono (l : string)        (* GuardedBy l, and every shared write assigns the constant true
                                     (a latch: once set it stays set) *)
| SyncTyped                       (* a sync/atomic value: only used through its methods, never re-assigned *)
| CtorOnly                        (* written only in constructors/options, read-only afterwards *)
| Immutable                       (* written only while the object is fresh/private *)
| HBVia (name : string) (pairs : list hbpair).
                                  (* conflicting accesses either share a lock or are one of the listed
                                     pairs (function contexts, with the conditions and locks each side must
                                     carry), ordered by the named protocol *)

Definition policy := list ((string * string) * fpolicy).
Definition fkey := (string * string)%type.

Definition fkey_eqb (a b : fkey) : bool := String.eqb (fst a) (fst b) && String.eqb (snd a) (snd b).

Fixpoint lookup (p : policy) (k : fkey) : option fpolicy :=
  match p with
  | [] => None
  | (k', v) :: r => if fkey_eqb k' k then Some v else lookup r k
  end.

Definition in_keys (ks : list fkey) (k : fkey) : bool := existsb (fkey_eqb k) ks.
Definition site_key (s : site) : fkey := (s_struct s, s_field s).

(* some lock is held by both, by at least one of them exclusively *)
Definition common_lock (a b : lockset) : bool :=
  existsb (fun p => (is_ex (snd p) && holds_any b (fst p)) || holds_ex b (fst p)) a.

Definition is_nil' {A} (l : list A) : bool := match l with [] => true | _ => false end.

Definition has_all (need have : list string) : bool :=
  forallb (fun c => existsb (String.eqb c) have) need.

(* conditions known at a site: the lexical ones plus the entry facts of its context (certified from the call sites by
   [cond_entry_failures], as the entry locks are by [entry_failures]) *)
Definition eff_conds (tbl : access_table) (s : site) : list string :=
  (s_conds s ++ (if s_same_recv s then entry_conds_of (t_funcs tbl) (s_func s) else []))%list.

(* [reach_only_from tbl fuel anc f]: f is anc, or f is a private context (not exported, not a function value) that has
   call sites and ALL of them are in contexts reached only from anc (spawns included) *)
Fixpoint reach_only_from (tbl : access_table) (fuel : nat) (anc f : string) : bool :=
  String.eqb anc f ||
  match fuel with
  | O => false
  | S k =>
    match decl_of (t_funcs tbl) f with
    | None => false
    | Some d =>
      negb (fn_exported d) && negb (fn_value_used d) &&
      let cs := filter (fun c => String.eqb (cs_callee c) f) (t_calls tbl) in
      negb (is_nil' cs) && forallb (fun c => reach_only_from tbl k anc (cs_caller c)) cs
    end
  end.

(* function patterns of an HBVia pair side: "*" = any context (the side is characterised by its conditions and locks
   alone); "F/*" = F or any context reached only from F (helpers F calls, goroutines F spawns); otherwise the name *)
Definition fn_matches (tbl : access_table) (pat f : string) : bool :=
  if String.eqb pat "*" then true
  else
    let n := String.length pat in
    if (2 <=? n)%nat && String.eqb (String.substring (n - 2) 2 pat) "/*"
    then reach_only_from tbl (length (t_funcs tbl)) (String.substring 0 (n - 2) pat) f
    else String.eqb pat f.

Definition side_ok (tbl : access_table) (f : string) (cs : list string) (ls : lockset) (s : site) : bool :=
  fn_matches tbl f (s_func s) && has_all cs (eff_conds tbl s) && covers (eff_locks tbl s) ls.

Definition pair_listed (tbl : access_table) (pairs : list hbpair) (a b : site) : bool :=
  existsb (fun p =>
    (side_ok tbl (hb_f p) (hb_cf p) (hb_lf p) a && side_ok tbl (hb_g p) (hb_cg p) (hb_lg p) b) ||
    (side_ok tbl (hb_f p) (hb_cf p) (hb_lf p) b && side_ok tbl (hb_g p) (hb_cg p) (hb_lg p) a)) pairs.

(* per-site obligation; None = fine, Some why = violated *)
Definition site_check (tbl : access_table) (pol : fpolicy) (s : site) : option string :=
  if is_pre s then
    match pol, s_kind s, s_pre s with
    | CtorOnly, Wr, PreCtor => None
    | CtorOnly, Wr, _ => Some "CtorOnly field written outside a constructor/option"
    | _, _, _ => None
    end
  else
    match pol, s_kind s with
    | GuardedBy l, Wr => if covers (eff_locks tbl s) [(l, Ex)] then None
                         else Some ("write without holding " +++ l +++ " exclusively")
    | GuardedBy l, _ => if covers (eff_locks tbl s) [(l, Sh)] then None
                        else Some ("access without holding " +++ l)
    | GuardedMono l, Wr => if covers (eff_locks tbl s) [(l, Ex)]
                           then if String.eqb (s_note s) "=true" then None
                                else Some "latch field assigned something other than the constant true"
                           else Some ("write without holding " +++ l +++ " exclusively")
    | GuardedMono l, _ => if covers (eff_locks tbl s) [(l, Sh)] then None
                          else Some ("access without holding " +++ l)
    | SyncTyped, Use => None
    | SyncTyped, Wr => Some "sync-typed field re-assigned after construction"
    | SyncTyped, Rd => Some "sync-typed field copied/read as a plain value"
    | CtorOnly, Wr => Some "CtorOnly field written after construction"
    | CtorOnly, _ => None
    | Immutable, Wr => Some "Immutable field written through a shared reference"
    | Immutable, _ => None
    | HBVia _ _, _ => None
    end.

Definition cat_check (pol : fpolicy) (c : tycat) : option string :=
  match pol, c with
  | SyncTyped, TSync => None
  | SyncTyped, _ => Some "SyncTyped policy on a field that is not a sync/atomic value"
  | GuardedBy _, _ => None
  | GuardedMono _, _ => None
  | _, TSync => Some "sync/atomic value needs policy SyncTyped or GuardedBy"
  | _, _ => None
  end.

Definition kind_name (k : akind) : string := match k with Rd => "Rd" | Wr => "Wr" | Use => "Use" end.

(* report lines: "<class>|<struct>|<field>|<func>|<kind>|<why>|<dbg>" *)
Definition line (cls st fl fn kd why dbg : string) : string :=
  cls +++ "|" +++ st +++ "|" +++ fl +++ "|" +++ fn +++ "|" +++ kd +++ "|" +++ why +++ "|" +++ dbg.

Definition site_failures (pol : policy) (exc : list fkey) (tbl : access_table) : list string :=
  flat_map (fun s =>
    if in_keys exc (site_key s) then [] else
    match lookup pol (site_key s) with
    | None => [line "site" (s_struct s) (s_field s) (s_func s) (kind_name (s_kind s))
                    "field has no policy" (s_dbg s)]
    | Some p => match site_check tbl p s with
                | None => []
                | Some why => [line "site" (s_struct s) (s_field s) (s_func s) (kind_name (s_kind s)) why (s_dbg s)]
                end
    end) (t_sites tbl).

Definition field_failures (pol : policy) (exc : list fkey) (tbl : access_table) : list string :=
  flat_map (fun f =>
    let k := (fd_struct f, fd_field f) in
    if in_keys exc k then [] else
    match lookup pol k with
    | None => [line "field" (fd_struct f) (fd_field f) "" "" "field unknown to the policy" ""]
    | Some p => match cat_check p (fd_cat f) with
                | None => []
                | Some why => [line "field" (fd_struct f) (fd_field f) "" "" why ""]
                end
    end) (t_fields tbl).

(* HBVia fields: every conflicting pair is protected by a common lock or listed *)
Definition pair_failures (pol : policy) (exc : list fkey) (tbl : access_table) : list string :=
  flat_map (fun a =>
    if in_keys exc (site_key a) then [] else
    match lookup pol (site_key a) with
    | Some (HBVia _ pairs) =>
      flat_map (fun b =>
        if conflict a b && is_wr a
           && negb (common_lock (eff_locks tbl a) (eff_locks tbl b))
           && negb (pair_listed tbl pairs a b)
        then [line "pair" (s_struct a) (s_field a) (s_func a +++ "/" +++ s_func b) (kind_name (s_kind b))
                   "conflicting accesses share no lock and match no listed HBVia pair (functions, conditions, locks)"
                   (s_dbg a +++ "," +++ s_dbg b)]
        else []) (t_sites tbl)
    | _ => []
    end) (t_sites tbl).

Definition is_nil {A} (l : list A) : bool := match l with [] => true | _ => false end.

(* locks of the callee's receiver object held when the call is made *)
Definition call_locks (tbl : access_table) (c : call_site) : lockset :=
  (cs_locks c ++ (if cs_same_recv c then entry_of (t_funcs tbl) (cs_caller c) else []))%list.

(* the "held by every caller" certificate: a context with a non-empty entry set is private
   (unexported, never a value), is never spawned, and every call site provides its entry set *)
Definition entry_failures (tbl : access_table) : list string :=
  flat_map (fun f =>
    if is_nil (fn_entry f) then [] else
    ((if fn_exported f || fn_value_used f
     then [line "entry" "" "" (fn_name f) "" "entry locks claimed for a function callable from anywhere" ""]
     else []) ++
    flat_map (fun c =>
      if String.eqb (cs_callee c) (fn_name f) then
        if cs_spawn c then [line "entry" "" "" (fn_name f) "" ("spawned from " +++ cs_caller c) (cs_dbg c)]
        else if covers (call_locks tbl c) (fn_entry f)
        then [] else [line "entry" "" "" (fn_name f) "" ("caller " +++ cs_caller c +++ " does not hold the claimed entry locks") (cs_dbg c)]
      else []) (t_calls tbl))%list) (t_funcs tbl).

(* the "holds at every call" certificate for entry facts: a context that claims some is private, and every call site
   (spawns included: a history fact survives a go statement) provides them - lexically, or through the caller's own
   certified entry facts when the callee's receiver is the caller's *)
Definition call_conds (tbl : access_table) (c : call_site) : list string :=
  (cs_conds c ++ (if cs_inherit c then entry_conds_of (t_funcs tbl) (cs_caller c) else []))%list.

Definition cond_entry_failures (tbl : access_table) : list string :=
  flat_map (fun f =>
    if is_nil (fn_entry_conds f) then [] else
    ((if fn_exported f || fn_value_used f
     then [line "entryfact" "" "" (fn_name f) "" "entry facts claimed for a function callable from anywhere" ""]
     else []) ++
    flat_map (fun c =>
      if String.eqb (cs_callee c) (fn_name f) then
        if has_all (fn_entry_conds f) (call_conds tbl c)
        then [] else [line "entryfact" "" "" (fn_name f) "" ("caller " +++ cs_caller c +++ " does not establish the claimed entry facts") (cs_dbg c)]
      else []) (t_calls tbl))%list) (t_funcs tbl).

(* functional options are applied only inside constructors *)
Definition opt_failures (tbl : access_table) : list string :=
  flat_map (fun p : string * bool => if snd p then [] else
    [line "option" "" "" (fst p) "" "functional option applied outside a constructor" ""]) (t_opts tbl).

(* an Unlock/RUnlock must release a lock taken in the SAME function context (lexically held at the call).  The
   extractor's `release` of a lock it does not see as held is a no-op: a helper that unlocks on behalf of its caller
   would leave the caller's later sites recorded as still under the lock.  Such a table is rejected here (no
   exception list applies: this is about the soundness of the table itself, audit M11). *)
Definition is_unlock (s : site) : bool :=
  match s_kind s with
  | Use => String.eqb (s_note s) "Unlock" || String.eqb (s_note s) "RUnlock"
  | _ => false
  end.

Definition unlock_failures (tbl : access_table) : list string :=
  flat_map (fun s =>
    if is_unlock s && negb (holds_any (s_lex s) (s_struct s +++ "." +++ s_field s))
    then [line "unlock" (s_struct s) (s_field s) (s_func s) (kind_name (s_kind s))
               "Unlock of a lock that is not lexically held in this function: the lock sets recorded for its callers cannot be trusted"
               (s_dbg s)]
    else []) (t_sites tbl).

Definition failures (pol : policy) (exc : list fkey) (tbl : access_table) : list string :=
  (field_failures pol exc tbl ++ site_failures pol exc tbl ++ pair_failures pol exc tbl ++
   entry_failures tbl ++ opt_failures tbl ++ unlock_failures tbl ++ cond_entry_failures tbl)%list.

Definition table_ok (pol : policy) (exc : list fkey) (tbl : access_table) : bool :=
  is_nil (failures pol exc tbl).

(* ------------------------------------------------------------------ (3b) inferred policies
   A field of a tracked struct that the hand-written policy does not name (a renamed field, a new field) is NOT a
   failure by itself: a discipline is INFERRED from the access table (Eraser-style) and then CHECKED by exactly the
   same [cat_check]/[site_check] as a declared one - the inference only proposes, so nothing about it is trusted.
   Candidates, in this order:
     SyncTyped      a sync/atomic value that is only used through its methods, never re-assigned or copied;
     CtorOnly       no write outside constructors/options;
     Immutable      no write through a shared reference (fresh literal / private copy / constructor only);
     GuardedBy l    one lock l held at EVERY shared access, exclusively at every write - l ranges over the locks
                    effectively held (lexically + the entry locks of the function, themselves certified from the call
                    sites by [entry_failures]) at the field's first shared access site: a common lock is among them.
   The first candidate under which the field's category and ALL its sites pass is the field's inferred policy.  If none
   passes (an unguarded write outside constructors, no common lock) the field stays "unknown to the policy" and the
   table fails, as before.  HBVia / GuardedMono are never inferred.  Declared entries are authoritative: [effective]
   puts them first and [lookup] takes the first match, so a declared GuardedBy must hold even where some other
   discipline could be inferred. *)
Definition sites_of (tbl : access_table) (k : fkey) : list site :=
  filter (fun s => fkey_eqb (site_key s) k) (t_sites tbl).

Definition passes (tbl : access_table) (cat : tycat) (ss : list site) (p : fpolicy) : bool :=
  match cat_check p cat with
  | Some _ => false
  | None => forallb (fun s => match site_check tbl p s with None => true | Some _ => false end) ss
  end.

Definition lock_candidates (tbl : access_table) (ss : list site) : list string :=
  match filter (fun s => negb (is_pre s)) ss with
  | [] => []
  | s :: _ => map fst (eff_locks tbl s)
  end.

Definition candidates (tbl : access_table) (ss : list site) : list fpolicy :=
  ([SyncTyped; CtorOnly; Immutable] ++ map GuardedBy (lock_candidates tbl ss))%list.

Definition infer_field (tbl : access_table) (f : field_decl) : option fpolicy :=
  let ss := sites_of tbl (fd_struct f, fd_field f) in
  find (passes tbl (fd_cat f) ss) (candidates tbl ss).

Definition inferred (pol : policy) (tbl : access_table) : policy :=
  flat_map (fun f =>
    let k := (fd_struct f, fd_field f) in
    match lookup pol k with
    | Some _ => []
    | None => match infer_field tbl f with Some p => [(k, p)] | None => [] end
    end) (t_fields tbl).

(* the policy the table is checked against: the declared entries, then the inferred ones *)
Definition effective (pol : policy) (tbl : access_table) : policy := (pol ++ inferred pol tbl)%list.

Definition policy_name (p : fpolicy) : string :=
  match p with
  | GuardedBy l => "GuardedBy " +++ l
  | GuardedMono l => "GuardedMono " +++ l
  | SyncTyped => "SyncTyped"
  | CtorOnly => "CtorOnly"
  | Immutable => "Immutable"
  | HBVia n _ => "HBVia " +++ n
  end.

(* for the evidence: "<struct>.<field> -> <discipline>" *)
Definition inferred_report (pol : policy) (tbl : access_table) : list string :=
  map (fun e : fkey * fpolicy => fst (fst e) +++ "." +++ snd (fst e) +++ " -> " +++ policy_name (snd e)) (inferred pol tbl).

(* which conflicting pairs the theorem does NOT exclude: excepted fields and listed HBVia pairs *)
Definition excused (pol : policy) (exc : list fkey) (tbl : access_table) (a b : site) : bool :=
  in_keys exc (site_key a) ||
  match lookup pol (site_key a) with
  | Some (HBVia _ pairs) => pair_listed tbl pairs a b
  | _ => false
  end.

(* policy entries that match no field of the table (stale policy: reported, not an error) *)
Definition stale_policy (pol : policy) (tbl : access_table) : list string :=
  flat_map (fun e : fkey * fpolicy =>
    if existsb (fun f => fkey_eqb (fd_struct f, fd_field f) (fst e)) (t_fields tbl) then []
    else [fst (fst e) +++ "." +++ snd (fst e)]) pol.
