(* C04 - Supervisor: Run() result reflects the cause of termination.  Statements only. *)
From Coq Require Import List Bool Arith.
From GS Require Import LTS Supervisor SupAccept SupProps SupInv SupTrig SupResult.
Import ListNotations.

(* A non-nil result is an error value some runnable's Run actually returned and that is not (and
   does not wrap) a cancellation, or the start-up timeout - the latter only when that deadline
   can fire. *)
Theorem C04_provenance : forall c ls s,
  run (step c) (init c) ls = Some s -> c04_holdsb c (obs_trace obs ls) = true.
Proof. exact sup_c04_result. Qed.

(* Run() returns nil whenever no runnable's Run has returned a non-cancellation error - whatever
   caused the termination (signals, context, Shutdown(), ShutdownSender) - except for the start-up
   timeout when it can fire. *)
Theorem C04_nil : forall c ls s,
  run (step c) (init c) ls = Some s -> c04_nil c (obs_trace obs ls) = true.
Proof. exact sup_c04_nil. Qed.

(* SIGHUP, unknown signals, nil exits and cancellation errors never make Run() return: whenever
   Run() returns, a shutdown trigger (INT/TERM, Shutdown(), parent cancel, ShutdownSender trigger,
   a real runnable error) has occurred before, or the start-up deadline can fire. *)
Theorem C04_needs_cause : forall c ls s,
  run (step c) (init c) ls = Some s -> c04_needs_cause c (obs_trace obs ls) = true.
Proof. exact sup_c04_needs_cause. Qed.

Print Assumptions C04_provenance.
Print Assumptions C04_nil.
Print Assumptions C04_needs_cause.

(* non-vacuity: a schedule in which a runnable's real error becomes Run()'s result *)
Definition c04_cfg : config :=
  {| specs := [ {| stateable := false; reloadable := false; rsender := false; ssender := false;
                   stop_style := StopNonBlocking; run_exit := ExitFree; held_sub := false |} ];
     startup_may_fire := false; shutdown_may_fire := false |}.
Definition c04_sched : list label :=
  [LLaunch 0; LRunCall 0; LRunRet 0 (Some (7, false)); LErrSend 0; LReapErr; LMainShutdown;
   LStopCall 0; LStopRet 0; LSdCancel; LSdWgDone; LMainReturn (ResErr 7)].
Example C04_ex_schedule :
  exists s, run (step c04_cfg) (init c04_cfg) c04_sched = Some s /\
            obs_trace obs c04_sched =
            [ERunCall 0; ERunRet 0 (Some (7, false)); EStopCall 0; EStopRet 0; ERunReturn (ResErr 7)].
Proof. eexists. split; vm_compute; reflexivity. Qed.
Example C04_ex_rejects_foreign_error :
  c04_holdsb c04_cfg [ERunCall 0; ERunRet 0 (Some (7, true)); ERunReturn (ResErr 7)] = false.
Proof. vm_compute. reflexivity. Qed.
