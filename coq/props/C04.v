(* C04 - Supervisor: Run() result reflects the cause of termination.  Statements only. *)
From Coq Require Import List Bool Arith.
From GS Require Import LTS Supervisor SupAccept SupProps SupInv SupTrig SupResult SupReports.
Import ListNotations.

(* A non-nil result is an error value some runnable's Run actually returned and that is not (and
   does not wrap) a cancellation, or the start-up timeout - the latter only when that deadline
   can fire. *)
Theorem C04_provenance : forall c ls s,
  run (step c) (init c) ls = Some s -> c04_holdsb c (obs_trace obs ls) = true.
Proof. exact sup_c04_result. Qed.

(* Run() returns nil whenever no runnable's Run has returned a non-cancellation error - whatever
   caused the termination (signals, context, Shutdown(), ShutdownSender) - except for the start-up
   timeout when it can fire. *)
Theorem C04_nil : forall c ls s,
  run (step c) (init c) ls = Some s -> c04_nil c (obs_trace obs ls) = true.
Proof. exact sup_c04_nil. Qed.

(* SIGHUP, unknown signals, nil exits and cancellation errors never make Run() return: whenever
   Run() returns, a shutdown trigger (`is_trigger c`: INT/TERM, Shutdown(), parent cancel, a trigger of a runnable
   that IS a ShutdownSender, a real runnable error - nothing else) has occurred before; the ONLY excuse is the
   genuine start-up-timeout path: the value returned is the start-up timeout error (and the deadline can fire). *)
Theorem C04_needs_cause : forall c ls s,
  run (step c) (init c) ls = Some s -> c04_needs_cause c (obs_trace obs ls) = true.
Proof. exact sup_c04_needs_cause. Qed.

(* The SIGHUP clause on the model, for EVERY configuration (also startup_may_fire = true): on a schedule without
   a trigger event on which no start-up deadline has fired (ghost flag su_fired, see C01_su_fired), the shutdown
   has not started, the supervisor has not cancelled its context, and Run() has neither returned nor fixed a
   result - whatever else happened: SIGHUPs and unknown signals consumed, reload passes, runnables exiting
   with nil or with errors that are / wrap a cancellation, state changes, triggers offered by runnables that
   are not ShutdownSenders. *)
Theorem C04_hup : forall c ls s,
  run (step c) (init c) ls = Some s ->
  existsb (is_trigger c) (obs_trace obs ls) = false -> su_fired (aux s) = false ->
  sd s = SdNot /\ own_cancel s = false /\ main_res (main s) = None /\ (forall r, main s <> MReturned r).
Proof. exact sup_c04_hup. Qed.

Print Assumptions C04_provenance.
Print Assumptions C04_nil.
Print Assumptions C04_needs_cause.
Print Assumptions C04_hup.

(* non-vacuity of C04_hup with a start-up deadline that CAN fire: SIGHUP (consumed: a reload pass runs), an
   unknown signal, a nil exit, an exit with a cancellation error, a trigger offered by a runnable that is not a
   ShutdownSender - Run() is still in reap() *)
Definition c04_hup_cfg : config :=
  {| specs := [ {| stateable := false; reloadable := true; rsender := false; ssender := false;
                   stop_style := StopNonBlocking; run_exit := ExitFree; held_sub := false |};
                {| stateable := false; reloadable := false; rsender := false; ssender := false;
                   stop_style := StopUntilRunDone; run_exit := ExitFree; held_sub := false |} ];
     startup_may_fire := true; shutdown_may_fire := true |}.
Definition c04_hup_sched : list label :=
  [LRunEnter; LRunEntered; LLaunch 0; LRunCall 0; LLaunch 1; LRunCall 1;
   LCall 1 (OpSignal SigHup); LSigPut 1; LRet 1 (OpSignal SigHup); LReapSig; LRmAccept SndHup; LReloadCall 0; LReloadRet 0;
   LCall 2 (OpSignal SigOther); LSigPut 2; LReapSig; LRet 2 (OpSignal SigOther);
   LRunRet 0 None; LRunRet 1 (Some (5, true)); LTrigS 1; LCall 3 OpReloadAll].
Example C04_ex_hup :
  exists s, run (step c04_hup_cfg) (init c04_hup_cfg) c04_hup_sched = Some s /\
            startup_may_fire c04_hup_cfg = true /\
            existsb (is_trigger c04_hup_cfg) (obs_trace obs c04_hup_sched) = false /\ su_fired (aux s) = false /\
            main s = MReap /\ sd s = SdNot /\ passes s = 1.
Proof. eexists. split; [vm_compute; reflexivity|]. repeat split; vm_compute; reflexivity. Qed.
(* the monitor is not blinded by startup_may_fire = true *)
Example C04_ex_needs_cause_rejects :
  c04_needs_cause c04_hup_cfg [ERunEnter; ERunCall 0; ECall 1 (OpSignal SigHup); ERunRet 0 None; ETrigS 1;
                               EStopCall 0; EStopRet 0; ERunReturn ResNil] = false /\
  c04_needs_cause c04_hup_cfg [ERunEnter; ERunCall 0; ERunReturn ResTimeout] = true.
Proof. split; vm_compute; reflexivity. Qed.

(* non-vacuity: a schedule in which a runnable's real error becomes Run()'s result *)
Definition c04_cfg : config :=
  {| specs := [ {| stateable := false; reloadable := false; rsender := false; ssender := false;
                   stop_style := StopNonBlocking; run_exit := ExitFree; held_sub := false |} ];
     startup_may_fire := false; shutdown_may_fire := false |}.
Definition c04_sched : list label :=
  [LRunEnter; LRunEntered; LLaunch 0; LRunCall 0; LRunRet 0 (Some (7, false)); LErrSend 0; LReapErr; LMainShutdown;
   LStopCall 0; LStopRet 0; LSdCancel; LSdWgDone; LMainReturn (ResErr 7)].
Example C04_ex_schedule :
  exists s, run (step c04_cfg) (init c04_cfg) c04_sched = Some s /\
            obs_trace obs c04_sched =
            [ERunEnter; ERunCall 0; ERunRet 0 (Some (7, false)); EStopCall 0; EStopRet 0; ERunReturn (ResErr 7)].
Proof. eexists. split; vm_compute; reflexivity. Qed.
Example C04_ex_rejects_foreign_error :
  c04_holdsb c04_cfg [ERunCall 0; ERunRet 0 (Some (7, true)); ERunReturn (ResErr 7)] = false.
Proof. vm_compute. reflexivity. Qed.

(* ---- the "reports" clause ---- *)

(* Run() returns nil only after a shutdown trigger that is not a runnable failure: an INT/TERM
   SendSignal call, a parent-context cancellation, a Shutdown() call or a ShutdownSender trigger
   occurs in the trace before every `ERunReturn ResNil`.  (A failing runnable alone never yields nil.) *)
Theorem C04_reports : forall c ls s,
  run (step c) (init c) ls = Some s -> c04_reports c (obs_trace obs ls) = true.
Proof. exact sup_c04_reports. Qed.

(* If no such trigger has occurred at the moment Main fixes its result r (it leaves the start-up
   loop or reap() with r: main = MExit r, and later MWaitSd r / MReturned r), then r is an error a
   runnable's Run really returned - or the start-up timeout, only when that deadline can fire. *)
Theorem C04_reports_decided : forall c ls s r,
  run (step c) (init c) ls = Some s -> main_res (main s) = Some r ->
  existsb (is_nonfail_trigger c) (obs_trace obs ls) = false ->
  reports_err c (obs_trace obs ls) r.
Proof. exact sup_c04_reports_decided. Qed.

(* ... and that r is what Run() returns on every continuation, whatever triggers arrive later. *)
Theorem C04_reports_final : forall c ls1 s1 r ls2 s2 r',
  run (step c) (init c) ls1 = Some s1 -> main_res (main s1) = Some r ->
  existsb (is_nonfail_trigger c) (obs_trace obs ls1) = false ->
  run (step c) s1 ls2 = Some s2 -> main s2 = MReturned r' ->
  r' = r /\ reports_err c (obs_trace obs ls1) r.
Proof. exact sup_c04_reports_final. Qed.

Print Assumptions C04_reports.
Print Assumptions C04_reports_decided.
Print Assumptions C04_reports_final.

(* non-vacuity: in c04_sched_pre Main reacts to the failure (LReapErr) before any other trigger; a
   Shutdown() call and a SIGTERM arriving afterwards do not change the result *)
Definition c04_sched_pre : list label :=
  [LRunEnter; LRunEntered; LLaunch 0; LRunCall 0; LRunRet 0 (Some (7, false)); LErrSend 0; LReapErr].
Definition c04_sched_post : list label :=
  [LCall 1 OpShutdown; LCallerGo 1; LCall 2 (OpSignal SigTerm); LSigPut 2; LMainShutdown;
   LStopCall 0; LStopRet 0; LSdCancel; LSdWgDone; LMainReturn (ResErr 7)].
Example C04_ex_reports_hyps :
  exists s1 s2, run (step c04_cfg) (init c04_cfg) c04_sched_pre = Some s1 /\
                main_res (main s1) = Some (ResErr 7) /\
                existsb (is_nonfail_trigger c04_cfg) (obs_trace obs c04_sched_pre) = false /\
                run (step c04_cfg) s1 c04_sched_post = Some s2 /\ main s2 = MReturned (ResErr 7).
Proof.
  eexists. eexists. split; [vm_compute; reflexivity|]. split; [vm_compute; reflexivity|].
  split; [vm_compute; reflexivity|]. split; vm_compute; reflexivity.
Qed.
(* the hypothesis matters: when SIGTERM is consumed first, Run() returns nil although a runnable
   failed *)
Definition c04_sched_term : list label :=
  [LRunEnter; LRunEntered; LLaunch 0; LRunCall 0; LCall 2 (OpSignal SigTerm); LSigPut 2; LRunRet 0 (Some (7, false)); LErrSend 0;
   LReapSig; LMainShutdown; LStopCall 0; LStopRet 0; LSdCancel; LSdWgDone; LMainReturn ResNil].
Example C04_ex_reports_other_trigger :
  exists s, run (step c04_cfg) (init c04_cfg) c04_sched_term = Some s /\ main s = MReturned ResNil /\
            real_error_ids (obs_trace obs c04_sched_term) = [7].
Proof. eexists. split; [vm_compute; reflexivity|]. split; vm_compute; reflexivity. Qed.
Example C04_ex_reports_rejects :
  c04_reports c04_cfg [ERunCall 0; ERunRet 0 (Some (7, false)); EStopCall 0; EStopRet 0; ERunReturn ResNil] = false.
Proof. vm_compute. reflexivity. Qed.
