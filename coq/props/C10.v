(* C10 — composite: a child's failure always propagates.
   Statements only; every proof is `exact <lemma>`.  All theorems hold for every pool of children
   (any number, any Stop style, any exit behaviour), every schedule, every reload history and any
   number of concurrent Reload()/Stop() callers: [reach P s] = "s is reached by some label list". *)
From Coq Require Import List NArith Bool.
From GS Require Import Errs LTS Composite CompositeMon CompositeBase CompositeC10 CompositeC11
     CompositeLocks CompositeLive CompositeC09 CompositeProgress CompositeProto CompositeC10b
     CompositeMonLink.
Import ListNotations.

(* nil and cancellation exits never reach the error channel (C10_benign): every queued value is
   "child runnable failed: %w" around an error e with errors.Is(e, Canceled|DeadlineExceeded) false *)
Theorem C10_benign : forall P s, reach P s ->
  forall e, In e (errq s) -> exists x, e = Wrap x /\ is_cancel x = false.
Proof. exact benign_never_queued. Qed.

(* the filter itself, one goroutine step: a nil or cancellation exit leaves the channel untouched *)
Theorem C10_benign_step : forall P s i k e,
  nth_error (kids s) i = Some k -> k_pc k = KExited e -> benign e = true ->
  exists s', step P s (LKSend i) = Some s' /\ errq s' = errq s /\ fail_sent s' = fail_sent s.
Proof. exact ksend_benign. Qed.

(* a non-cancellation exit is reported: queued, or the channel already holds a failure *)
Theorem C10_failure_step : forall P s i k x,
  nth_error (kids s) i = Some k -> k_pc k = KExited (Some x) -> is_cancel x = false ->
  exists s', step P s (LKSend i) = Some s' /\ fail_sent s' = true /\
             (errq s' = errq s ++ [Wrap x] \/ (errq s' = errq s /\ errcap s <= length (errq s))).
Proof. exact ksend_failure. Qed.

(* a reported failure is never lost — whichever child, whenever, after any reload history: it stays
   in the channel Run() selects on until Run() has taken one (this is what /repo 350754d repaired) *)
Theorem C10_never_lost : forall P s, reach P s ->
  fail_sent s = true -> errq s <> [] \/ took s <> None.
Proof. exact failure_never_lost. Qed.

(* Run()'s select can always take a queued failure; doing so moves the machine to Error *)
Theorem C10_select_enabled : forall P s e q,
  runt s = TSelect -> errq s = e :: q ->
  exists s', step P s LSelErr = Some s' /\ took s' = Some e /\ fsm s' = FError.
Proof. exact select_takes_failure. Qed.

(* C10_propagates: once Run() has taken a failure e, on every continuation: e is a child's
   non-cancellation error, the state is and stays Error, Run() is on its teardown path
   (stopAllRunnables), and whatever Run() returns wraps both ErrRunnableFailed and e *)
Theorem C10_propagates : forall P s e, reach P s -> took s = Some e ->
  (exists x, e = Wrap x /\ is_cancel x = false) /\ fsm s = FError /\ late (runt s) = true /\
  (forall r, result_of (runt s) = Some r ->
     r = Some (fail_result e) /\ wraps (fail_result e) id_runnable_failed = true /\
     (forall id, wraps e id = true -> wraps (fail_result e) id = true)).
Proof. exact propagates. Qed.

(* conversely Run() reports ErrRunnableFailed only if it took a child's non-cancellation failure:
   children that exit with nil or a cancellation error never fail the composite *)
Theorem C10_failed_only_if : forall P s r x, reach P s ->
  result_of (runt s) = Some r -> r = Some x -> wraps x id_runnable_failed = true ->
  exists e, took s = Some e /\ exists y, e = Wrap y /\ is_cancel y = false.
Proof. exact failed_only_if_took. Qed.

(* C10 liveness (as no-stuck-state; repaired composite and lifecycle, children that behave like the
   bundled runnables): once Run() has taken a failure it is never stuck before it has returned - in
   every reachable state of every guarded schedule some non-environment label is enabled *)
Theorem C10_run_returns : forall P s e,
  fix_c09 P = true -> fix_lc P = true -> good_pool P -> good_children P ->
  greach P s -> took s = Some e -> (forall r, runt s <> TDone r) ->
  exists l s', env_label l = false /\ step P s l = Some s'.
Proof. exact run_returns_after_failure_lc. Qed.

(* "all other children are stopped": Run's stopAllRunnables addresses exactly the entries of the
   configuration it reads, last first ... *)
Theorem C10_teardown_targets : forall P s s',
  step P s (LStopBegin ORun) = Some s' -> wof ORun s = [] ->
  map w_child (wof ORun s') = map fst (rev (entries_of s)).
Proof. exact teardown_spawn. Qed.

Theorem C10_no_worker_before_teardown : forall P s,
  reach P s -> t_spawned (runt s) = false -> wof ORun s = [].
Proof. exact no_worker_before_teardown. Qed.

(* ... every Stop() it issued has returned before Run() leaves stopAllRunnables (hence before it
   returns) ... *)
Theorem C10_others_stopped : forall P s,
  reach P s -> t_joined (runt s) = true -> forallb wdone (wof ORun s) = true.
Proof. exact others_stopped. Qed.

(* ... and on the failure path, from the moment Run() holds reloadMu (repaired code) no Reload() is -
   or ever gets - inside its critical section, so that configuration is the final one (and by
   C09_exact its entries are the running children) *)
Theorem C10_no_reload_after_lock : forall P s,
  reach P s -> fix_c09 P = true -> took s <> None -> after_lock (runt s) = true ->
  count_r inside (reloaders s) = 0.
Proof. exact quiet_after_failure. Qed.

(* every trace the acceptor accepts is the observable trace of a schedule of this model, so the
   theorems above cover every accepted implementation trace *)
Theorem C10_accepted_traces_are_model_traces : forall P fuel tr s,
  In s (fst (accept P fuel tr)) ->
  exists ls, run (step P) init ls = Some s /\ obs_trace obs ls = tr.
Proof. exact accept_sound. Qed.

(* the monitor is the theorem evaluated on a trace: on the observable trace of ANY schedule of the
   model, if every child exit is nil or a cancellation error then Run()'s result (if present) does not
   wrap ErrRunnableFailed - clause 1 of the executable predicate C10_holdsb never fires on a model
   trace, hence (accept_sound) never on an accepted implementation trace unless the property fails *)
Theorem C10_monitor_benign_link : forall P ls s,
  run (step P) init ls = Some s ->
  existsb is_fail_exit (obs_trace obs ls) = false ->
  forall r, run_result (obs_trace obs ls) = Some r -> rc_failed r = false.
Proof. exact c10_clause1_link. Qed.

Theorem C10_monitor_never_clause1 : forall P ls s,
  run (step P) init ls = Some s -> C10_holdsb P (obs_trace obs ls) <> 1%N.
Proof. exact c10_holdsb_not_1. Qed.

Print Assumptions C10_monitor_benign_link.
Print Assumptions C10_monitor_never_clause1.
Print Assumptions C10_benign.
Print Assumptions C10_benign_step.
Print Assumptions C10_failure_step.
Print Assumptions C10_never_lost.
Print Assumptions C10_select_enabled.
Print Assumptions C10_propagates.
Print Assumptions C10_failed_only_if.
Print Assumptions C10_accepted_traces_are_model_traces.
Print Assumptions C10_run_returns.
Print Assumptions C10_teardown_targets.
Print Assumptions C10_no_worker_before_teardown.
Print Assumptions C10_others_stopped.
Print Assumptions C10_no_reload_after_lock.

(* non-vacuity: a schedule in which the second child, added by a growth reload beyond the initial
   channel capacity, fails; Run() takes the failure and returns ErrRunnableFailed joined with it *)
Definition ex_pool : params :=
  mkParams [mkSpec 0 UntilRunDone Free RWC; mkSpec 1 NonBlocking Free RWC] true true true true.
Definition ex_sched : list label :=
  [LRunCall; LRunBegin; LBootLock ORun; LCb ORun (CbSome [(0, 0)]%N); LBootLaunch ORun; LToRunning;
   LKRun 0 0%N;
   LReloadCall 0; LRlLock 0; LCb (ORel 0) (CbSome [(0, 1); (1, 1)]%N);
   LStopBegin (ORel 0); LWCall 0 0%N; LKExit 0 0%N None; LWUnblock 0; LWRet 0 0%N;
   LStopCancel (ORel 0); LStopJoin (ORel 0); LRlSetCfg 0; LBootLock (ORel 0); LBootLaunch (ORel 0); LRlFinish 0; LRlRet 0;
   LKRun 1 0%N; LKRun 2 1%N;
   LKExit 2 1%N (Some (Join [Errs.Leaf 5; Wrap Canceled; Errs.Leaf 6]%N))].

Example C10_nonvacuous_benign_shape : is_cancel (Join [Errs.Leaf 5; Wrap Canceled; Errs.Leaf 6]%N) = true.
Proof. reflexivity. Qed.

Definition ex_sched2 : list label :=
  firstn 24 ex_sched ++
  [LKExit 2 1%N (Some (Wrap (Join [Errs.Leaf 5; Errs.Leaf 6]%N))); LKSend 2; LSelErr; LTearLock; LStopBegin ORun;
   LWCall 1 1%N; LWRet 1 1%N; LWCall 2 0%N; LKExit 1 0%N None; LWUnblock 2; LWRet 2 0%N;
   LStopCancel ORun; LStopJoin ORun; LRunExit].

Example C10_nonvacuous : exists s,
  run (step ex_pool) init ex_sched2 = Some s /\ fail_sent s = true /\
  took s = Some (Wrap (Wrap (Join [Errs.Leaf 5; Errs.Leaf 6]%N))) /\ fsm s = FError /\
  result_of (runt s) = Some (Some (fail_result (Wrap (Wrap (Join [Errs.Leaf 5; Errs.Leaf 6]%N))))) /\
  classify (Some (fail_result (Wrap (Wrap (Join [Errs.Leaf 5; Errs.Leaf 6]%N))))) = mkCls false true [5; 6]%N false.
Proof. eexists. split; [vm_compute; reflexivity|]. vm_compute. repeat split. Qed.
