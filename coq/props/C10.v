(* C10 — composite: a child's failure always propagates.
   Statements only; every proof is `exact <lemma>`.  All theorems hold for every pool of children
   (any number, any Stop style, any exit behaviour), every schedule, every reload history and any
   number of concurrent Reload()/Stop() callers: [reach P s] = "s is reached by some label list". *)
From Coq Require Import List NArith Bool.
From GS Require Import Errs LTS Composite CompositeMon CompositeBase CompositeC10 CompositeC11
     CompositeLocks CompositeLive CompositeC09 CompositeProgress CompositeProto CompositeC10b CompositeMeasure CompositeC10c CompositeTrace CompositeLink2
     CompositeMonLink CompositeC10d.
Import ListNotations.

(* nil and cancellation exits never reach the error channel (C10_benign): every queued value is
   "child runnable failed: %w" around an error e with errors.Is(e, Canceled|DeadlineExceeded) false *)
Theorem C10_benign : forall P s, reach P s ->
  forall e, In e (errq s) -> exists x, e = Wrap x /\ is_cancel x = false.
Proof. exact benign_never_queued. Qed.

(* the filter itself, one goroutine step: a nil or cancellation exit leaves the channel untouched *)
Theorem C10_benign_step : forall P s i k e,
  nth_error (kids s) i = Some k -> k_pc k = KExited e -> benign e = true ->
  exists s', step P s (LKSend i) = Some s' /\ errq s' = errq s /\ fail_sent s' = fail_sent s.
Proof. exact ksend_benign. Qed.

(* a non-cancellation exit is reported: queued, or the channel already holds a failure *)
Theorem C10_failure_step : forall P s i k x,
  nth_error (kids s) i = Some k -> k_pc k = KExited (Some x) -> is_cancel x = false ->
  exists s', step P s (LKSend i) = Some s' /\ fail_sent s' = true /\
             (errq s' = errq s ++ [Wrap x] \/ (errq s' = errq s /\ errcap s <= length (errq s))).
Proof. exact ksend_failure. Qed.

(* a reported failure is never lost — whichever child, whenever, after any reload history: it stays
   in the channel Run() selects on until Run() has taken one (this is what /repo 350754d repaired) *)
Theorem C10_never_lost : forall P s, reach P s ->
  fail_sent s = true -> errq s <> [] \/ took s <> None.
Proof. exact failure_never_lost. Qed.

(* Run()'s select can always take a queued failure; doing so moves the machine to Error *)
Theorem C10_select_enabled : forall P s e q,
  runt s = TSelect -> errq s = e :: q ->
  exists s', step P s LSelErr = Some s' /\ took s' = Some e /\ fsm s' = FError.
Proof. exact select_takes_failure. Qed.

(* C10_propagates: once Run() has taken a failure e, on every continuation: e is a child's
   non-cancellation error, the state is and stays Error, Run() is on its teardown path
   (stopAllRunnables), and whatever Run() returns wraps both ErrRunnableFailed and e *)
Theorem C10_propagates : forall P s e, reach P s -> took s = Some e ->
  (exists x, e = Wrap x /\ is_cancel x = false) /\ fsm s = FError /\ late (runt s) = true /\
  (forall r, result_of (runt s) = Some r ->
     r = Some (fail_result e) /\ wraps (fail_result e) id_runnable_failed = true /\
     (forall id, wraps e id = true -> wraps (fail_result e) id = true)).
Proof. exact propagates. Qed.

(* conversely Run() reports ErrRunnableFailed only if it took a child's non-cancellation failure:
   children that exit with nil or a cancellation error never fail the composite *)
Theorem C10_failed_only_if : forall P s r x, reach P s ->
  result_of (runt s) = Some r -> r = Some x -> wraps x id_runnable_failed = true ->
  exists e, took s = Some e /\ exists y, e = Wrap y /\ is_cancel y = false.
Proof. exact failed_only_if_took. Qed.

(* C10 liveness (as no-stuck-state; repaired composite and lifecycle, [good_children]: every child's
   Run returns once signalled or cancelled - or earlier, with any result, which is how a child fails;
   only a Run that never returns is excluded): once Run() has taken a failure it is never stuck before it has returned - in
   every reachable state of every guarded schedule some non-environment label is enabled *)
Theorem C10_run_returns : forall P s e,
  fix_c09 P = true -> fix_lc P = true -> good_pool P -> good_children P ->
  greach P s -> took s = Some e -> (forall r, runt s <> TDone r) ->
  exists l s', env_label l = false /\ step P s l = Some s'.
Proof. exact run_returns_after_failure_lc. Qed.

(* "all other children are stopped": Run's stopAllRunnables addresses exactly the entries of the
   configuration it reads, last first ... *)
Theorem C10_teardown_targets : forall P s s',
  step P s (LStopBegin ORun) = Some s' -> wof ORun s = [] ->
  map w_child (wof ORun s') = map fst (rev (entries_of s)).
Proof. exact teardown_spawn. Qed.

Theorem C10_no_worker_before_teardown : forall P s,
  reach P s -> t_spawned (runt s) = false -> wof ORun s = [].
Proof. exact no_worker_before_teardown. Qed.

(* ... every Stop() it issued has returned before Run() leaves stopAllRunnables (hence before it
   returns) ... *)
Theorem C10_others_stopped : forall P s,
  reach P s -> t_joined (runt s) = true -> forallb wdone (wof ORun s) = true.
Proof. exact others_stopped. Qed.

(* ... and on the failure path, from the moment Run() holds reloadMu (repaired code) no Reload() is -
   or ever gets - inside its critical section, so that configuration is the final one (and by
   C09_exact its entries are the running children) *)
Theorem C10_no_reload_after_lock : forall P s,
  reach P s -> fix_c09 P = true -> took s <> None -> after_lock (runt s) = true ->
  count_r inside (reloaders s) = 0.
Proof. exact quiet_after_failure. Qed.

(* every trace the acceptor accepts is the observable trace of a schedule of this model, so the
   theorems above cover every accepted implementation trace *)
Theorem C10_accepted_traces_are_model_traces : forall P fuel tr s,
  In s (fst (accept P fuel tr)) ->
  exists ls, run (step P) init ls = Some s /\ obs_trace obs ls = tr.
Proof. exact accept_sound. Qed.

(* the monitor is the theorem evaluated on a trace: on the observable trace of ANY schedule of the
   model, if every child exit is nil or a cancellation error then Run()'s result (if present) does not
   wrap ErrRunnableFailed - clause 1 of the executable predicate C10_holdsb never fires on a model
   trace, hence (accept_sound) never on an accepted implementation trace unless the property fails *)
Theorem C10_monitor_benign_link : forall P ls s,
  run (step P) init ls = Some s ->
  existsb is_fail_exit (obs_trace obs ls) = false ->
  forall r, run_result (obs_trace obs ls) = Some r -> rc_failed r = false.
Proof. exact c10_clause1_link. Qed.

Theorem C10_monitor_never_clause1 : forall P ls s,
  run (step P) init ls = Some s -> C10_holdsb P (obs_trace obs ls) <> 1%N.
Proof. exact c10_holdsb_not_1. Qed.

Print Assumptions C10_monitor_benign_link.
Print Assumptions C10_monitor_never_clause1.
Print Assumptions C10_benign.
Print Assumptions C10_benign_step.
Print Assumptions C10_failure_step.
Print Assumptions C10_never_lost.
Print Assumptions C10_select_enabled.
Print Assumptions C10_propagates.
Print Assumptions C10_failed_only_if.
Print Assumptions C10_accepted_traces_are_model_traces.
Print Assumptions C10_run_returns.
Print Assumptions C10_teardown_targets.
Print Assumptions C10_no_worker_before_teardown.
Print Assumptions C10_others_stopped.
Print Assumptions C10_no_reload_after_lock.

(* non-vacuity: a schedule in which the second child, added by a growth reload beyond the initial
   channel capacity, fails; Run() takes the failure and returns ErrRunnableFailed joined with it *)
Definition ex_pool : params :=
  mkParams [mkSpec 0 UntilRunDone Free RWC; mkSpec 1 NonBlocking Free RWC] true true true true true.
Definition ex_sched : list label :=
  [LRunCall; LRunBegin; LBootLock ORun; LCb ORun (CbSome [(0, 0)]%N); LBootLaunch ORun; LToRunning;
   LKRun 0 0%N;
   LReloadCall 0; LRlLock 0; LCb (ORel 0) (CbSome [(0, 1); (1, 1)]%N);
   LStopBegin (ORel 0); LWCall 0 0%N; LKExit 0 0%N None; LWUnblock 0; LWRet 0 0%N;
   LStopCancel (ORel 0); LStopJoin (ORel 0); LRlSetCfg 0; LBootLock (ORel 0); LBootLaunch (ORel 0); LRlFinish 0; LRlRet 0;
   LKRun 1 0%N; LKRun 2 1%N;
   LKExit 2 1%N (Some (Join [Errs.Leaf 5; Wrap Canceled; Errs.Leaf 6]%N))].

Example C10_nonvacuous_benign_shape : is_cancel (Join [Errs.Leaf 5; Wrap Canceled; Errs.Leaf 6]%N) = true.
Proof. reflexivity. Qed.

Definition ex_sched2 : list label :=
  firstn 24 ex_sched ++
  [LKExit 2 1%N (Some (Wrap (Join [Errs.Leaf 5; Errs.Leaf 6]%N))); LKSend 2; LSelErr; LTearLock; LStopBegin ORun;
   LWCall 1 1%N; LWRet 1 1%N; LWCall 2 0%N; LKExit 1 0%N None; LWUnblock 2; LWRet 2 0%N;
   LStopCancel ORun; LStopJoin ORun; LRunExit].

Example C10_nonvacuous : exists s,
  run (step ex_pool) init ex_sched2 = Some s /\ fail_sent s = true /\
  took s = Some (Wrap (Wrap (Join [Errs.Leaf 5; Errs.Leaf 6]%N))) /\ fsm s = FError /\
  result_of (runt s) = Some (Some (fail_result (Wrap (Wrap (Join [Errs.Leaf 5; Errs.Leaf 6]%N))))) /\
  classify (Some (fail_result (Wrap (Wrap (Join [Errs.Leaf 5; Errs.Leaf 6]%N))))) = mkCls false true [5; 6]%N false.
Proof. eexists. split; [vm_compute; reflexivity|]. vm_compute. repeat split. Qed.

(* C10_run_returns_measure (termination measure, proofs/CompositeMeasure.v; the label classes are
   described in props/C09.v): after Run() took the failure e, an execution of system steps that
   cannot be extended by a system step has at most [mu s] steps, and - unless the configuration
   callback of a Reload() has been called and has not returned - it ends with Run() returned with
   "ErrRunnableFailed: e" and every Stop()/Reload() call returned *)
Theorem C10_run_returns_measure : forall P s e ls s',
  fix_c09 P = true -> fix_lc P = true -> good_pool P -> good_children P ->
  greach P s -> took s = Some e ->
  Forall (fun l => is_system l = true) ls ->
  run (step P) s ls = Some s' ->
  (forall l s'', step P s' l = Some s'' -> is_system l = false) ->
  length ls <= mu s /\
  (cb_out s' = true \/
   (runt s' = TDone (Some (fail_result e)) /\ wraps (fail_result e) id_runnable_failed = true /\
    all_returned s')).
Proof. exact run_returns_measure. Qed.

Print Assumptions C10_run_returns_measure.

(* non-vacuity (all hypotheses hold: child 0 returns on signal, child 1 may return at any time and
   fails): the failure is taken after 11 labels; the remaining 13 labels are system steps, the
   measure goes from 15 to 0 and Run() has returned the wrapped failure *)
Definition m_pool : params :=
  mkParams [mkSpec 0 UntilRunDone OnSignal RWC; mkSpec 1 UntilRunDone Free RWC] true true true true true.
Definition m_sched : list label :=
  [LRunCall; LRunBegin; LBootLock ORun; LCb ORun (CbSome [(0, 0); (1, 0)]%N); LBootLaunch ORun; LToRunning;
   LKRun 0 0%N; LKRun 1 1%N;
   LKExit 1 1%N (Some (Errs.Leaf 7%N)); LKSend 1; LSelErr;
   LTearLock; LStopBegin ORun; LWCall 0 1%N; LWCall 1 0%N; LWUnblock 0; LWRet 0 1%N;
   LKExit 0 0%N None; LWUnblock 1; LWRet 1 0%N; LStopCancel ORun; LStopJoin ORun; LRunExit;
   LRunRet (Some (fail_result (Wrap (Errs.Leaf 7%N))))].

Example C10_measure_nonvacuous : exists s s',
  run (step m_pool) init (firstn 11 m_sched) = Some s /\
  run (step m_pool) s (skipn 11 m_sched) = Some s' /\
  forallb is_system (skipn 11 m_sched) = true /\ length (skipn 11 m_sched) = 13 /\
  good_pool m_pool /\ good_children m_pool /\ Forall (good_label m_pool) m_sched /\
  took s = Some (Wrap (Errs.Leaf 7%N)) /\
  mu s = 15 /\ mu s' = 0 /\ cb_out s' = false /\
  runt s' = TDone (Some (fail_result (Wrap (Errs.Leaf 7%N)))).
Proof.
  eexists. eexists. split; [vm_compute; reflexivity|]. split; [vm_compute; reflexivity|].
  split; [reflexivity|]. split; [reflexivity|].
  split; [repeat constructor; cbn; intuition discriminate|].
  split; [intros c [<-|[<-|[]]]; [left|right]; reflexivity|].
  split; [repeat constructor|].
  vm_compute. repeat split.
Qed.

(* all hypotheses of C10_run_returns at once (the state after the first 11 labels of m_sched: child 1
   has failed, Run() has taken the failure and is about to lock reloadMu) *)
Example C10_run_returns_nonvacuous : exists s,
  fix_c09 m_pool = true /\ fix_lc m_pool = true /\ good_pool m_pool /\ good_children m_pool /\
  greach m_pool s /\ took s = Some (Wrap (Errs.Leaf 7%N)) /\ (forall r, runt s <> TDone r) /\
  runt s = TTearLock.
Proof.
  eexists. split; [reflexivity|]. split; [reflexivity|].
  split; [repeat constructor; cbn; intuition discriminate|].
  split; [intros c [<-|[<-|[]]]; [left|right]; reflexivity|].
  split; [exists (firstn 11 m_sched); split; [repeat constructor|vm_compute; reflexivity]|].
  split; [reflexivity|]. split; [discriminate|reflexivity].
Qed.

(* ---------------------------------------------------------------------------------------------
   C10's main implication, in the form that is true (proofs/CompositeC10c.v).
   "If any child returns a non-cancellation error, Run() returns an error wrapping
   ErrRunnableFailed" holds of the code (and of the model) only with two provisos, both real in
   runner.go: (a) if Stop() or the cancellation of the context wins Run()'s select although a failure
   is queued, Run() tears down and returns nil, the failure stays in serverErrors; (b) if Run() fails
   internally (a state transition is refused) it returns the internal error.  A report DROPPED on a
   full channel is not an exception: the channel was then full of reported failures and Run() takes
   one of them (the result wraps another child's error).
   --------------------------------------------------------------------------------------------- *)

(* safety half, every schedule of every variant: a child failed and Run() has returned r *)
Theorem C10_failure_outcome : forall P s r,
  reach P s -> fail_sent s = true -> runt s = TDone r ->
  (exists e, took s = Some e /\ (exists x, e = Wrap x /\ is_cancel x = false) /\
             r = Some (fail_result e) /\ wraps (fail_result e) id_runnable_failed = true /\
             (forall id, wraps e id = true -> wraps (fail_result e) id = true))
  \/
  (took s = None /\ errq s <> [] /\
   ((r = None /\ (pctx s = true \/ lc_stopped s = true)) \/ r = internal_err)).
Proof. exact failure_outcome. Qed.

(* liveness half (repaired composite and lifecycle, good_children): in a state in which no system
   step and no callback return is possible and a child's Run has returned a non-cancellation error
   (reported already, or the goroutine is about to report it), the report was made and Run() and every
   Stop()/Reload() call have returned *)
Theorem C10_failed_child_run_returns : forall P s,
  fix_c09 P = true -> fix_lc P = true -> good_pool P -> good_children P ->
  greach P s ->
  (fail_sent s = true \/
   exists i k x, nth_error (kids s) i = Some k /\ k_pc k = KExited (Some x) /\ is_cancel x = false) ->
  ~ (exists l s', is_system l || is_cb l = true /\ step P s l = Some s') ->
  fail_sent s = true /\
  (exists r, runt s = TDone r) /\
  (forall k p, nth_error (stoppers s) k = Some p -> p = SDone) /\
  (forall k r, nth_error (reloaders s) k = Some r -> r_pc r = RDone).
Proof. exact failed_child_run_returns. Qed.

(* both halves *)
Theorem C10_failure_propagates_or_preempted : forall P s,
  fix_c09 P = true -> fix_lc P = true -> good_pool P -> good_children P ->
  greach P s -> child_failed s -> ~ prog P s ->
  exists r, runt s = TDone r /\ (took_outcome s r \/ preempted_outcome s r).
Proof. exact failure_propagates_or_preempted. Qed.

Print Assumptions C10_failure_outcome.
Print Assumptions C10_failed_child_run_returns.
Print Assumptions C10_failure_propagates_or_preempted.

(* all hypotheses of C10_failed_child_run_returns / C10_failure_propagates_or_preempted at once: the
   final state of m_sched (measure 0, no callback outstanding, hence no step possible), first outcome *)
Example C10_main_nonvacuous : exists s,
  fix_c09 m_pool = true /\ fix_lc m_pool = true /\ good_pool m_pool /\ good_children m_pool /\
  greach m_pool s /\ child_failed s /\ ~ prog m_pool s /\
  runt s = TDone (Some (fail_result (Wrap (Errs.Leaf 7%N)))) /\
  took_outcome s (Some (fail_result (Wrap (Errs.Leaf 7%N)))).
Proof.
  assert (Hg : exists s, run (step m_pool) init m_sched = Some s) by (eexists; vm_compute; reflexivity).
  destruct Hg as [s Hs]. exists s.
  assert (Hr : greach m_pool s) by (exists m_sched; split; [repeat constructor|exact Hs]).
  vm_compute in Hs. injection Hs as <-.
  split; [reflexivity|]. split; [reflexivity|].
  split; [repeat constructor; cbn; intuition discriminate|].
  split; [intros c [<-|[<-|[]]]; [left|right]; reflexivity|].
  split; [exact Hr|]. split; [left; reflexivity|].
  split; [apply mu_zero_stuck; [exact (greach_reach _ _ Hr)|reflexivity|reflexivity]|].
  split; [reflexivity|].
  eexists. split; [reflexivity|]. split; [eexists; split; reflexivity|]. split; [reflexivity|].
  split; [reflexivity|]. intros id H. cbn in *. rewrite H. now rewrite !orb_true_r.
Qed.

(* the proviso (a) is real in the model (as in the code): child 1 fails, its report is queued, then
   Stop() wins the select; Run() returns nil, the failure is still in serverErrors *)
Definition p_sched : list label :=
  firstn 10 m_sched ++
  [LStopApi 0; LSSignal 0; LSelStop; LTransIf;
   LTearLock; LStopBegin ORun; LWCall 0 1%N; LWCall 1 0%N; LWUnblock 0; LWRet 0 1%N;
   LKExit 0 0%N None; LWUnblock 1; LWRet 1 0%N; LStopCancel ORun; LStopJoin ORun; LToStopped; LRunExit;
   LRunRet None; LSRet 0].

Example C10_preempted_nonvacuous : exists s,
  fix_c09 m_pool = true /\ fix_lc m_pool = true /\ good_pool m_pool /\ good_children m_pool /\
  greach m_pool s /\ child_failed s /\ ~ prog m_pool s /\
  runt s = TDone None /\ preempted_outcome s None /\ errq s = [Wrap (Errs.Leaf 7%N)] /\
  lc_stopped s = true.
Proof.
  assert (Hg : exists s, run (step m_pool) init p_sched = Some s) by (eexists; vm_compute; reflexivity).
  destruct Hg as [s Hs]. exists s.
  assert (Hr : greach m_pool s) by (exists p_sched; split; [repeat constructor|exact Hs]).
  vm_compute in Hs. injection Hs as <-.
  split; [reflexivity|]. split; [reflexivity|].
  split; [repeat constructor; cbn; intuition discriminate|].
  split; [intros c [<-|[<-|[]]]; [left|right]; reflexivity|].
  split; [exact Hr|]. split; [left; reflexivity|].
  split; [apply mu_zero_stuck; [exact (greach_reach _ _ Hr)|reflexivity|reflexivity]|].
  split; [reflexivity|].
  split; [|split; reflexivity].
  split; [reflexivity|]. split; [discriminate|]. left. split; [reflexivity|]. right. reflexivity.
Qed.

(* ---------------------------------------------------------------------------------------------
   Monitor link for c10-clause2 ("a child failed while Running - no Stop()/cancel before - and Run()
   never returned").  Like every clause that demands that something eventually happens it is FALSE of
   prefixes (C10_monitor_clause2_prefix_witness); on every MAXIMAL schedule (final state allows no
   system step and no callback return - the harness' final quiescence) the monitor never answers 2.
   --------------------------------------------------------------------------------------------- *)
Theorem C10_monitor_clause2_maximal : forall P ls s,
  fix_c09 P = true -> fix_lc P = true -> good_pool P -> good_children P ->
  Forall (good_label P) ls -> run (step P) init ls = Some s -> ~ prog P s ->
  C10_holdsb P (obs_trace obs ls) <> 2%N.
Proof. exact c10_clause2_link. Qed.

(* the fact behind it: in a maximal schedule whose trace contains a failing child exit, Run()'s return
   is in the trace *)
Theorem C10_failed_exit_run_returns_in_trace : forall P ls s,
  fix_c09 P = true -> fix_lc P = true -> good_pool P -> good_children P ->
  Forall (good_label P) ls -> run (step P) init ls = Some s -> ~ prog P s ->
  existsb is_fail_exit (obs_trace obs ls) = true ->
  existsb is_run_ret (obs_trace obs ls) = true.
Proof. exact maximal_failed_run_ret. Qed.

Print Assumptions C10_monitor_clause2_maximal.
Print Assumptions C10_failed_exit_run_returns_in_trace.

(* all hypotheses at once (m_sched with a Running observation before the failure, so that the
   monitor is armed): the schedule is maximal and the monitor holds *)
Definition m_sched_obs : list label := firstn 8 m_sched ++ LState FRunning :: skipn 8 m_sched ++ [LState FError].

Example C10_monitor_clause2_nonvacuous : exists s,
  fix_c09 m_pool = true /\ fix_lc m_pool = true /\ good_pool m_pool /\ good_children m_pool /\
  Forall (good_label m_pool) m_sched_obs /\ run (step m_pool) init m_sched_obs = Some s /\
  ~ prog m_pool s /\
  existsb is_fail_exit (obs_trace obs m_sched_obs) = true /\
  existsb (is_state FRunning) (obs_trace obs (firstn 9 m_sched_obs)) = true /\
  C10_holdsb m_pool (obs_trace obs m_sched_obs) = 0%N.
Proof.
  assert (Hg : exists s, run (step m_pool) init m_sched_obs = Some s) by (eexists; vm_compute; reflexivity).
  destruct Hg as [s Hs]. exists s.
  assert (Hr : reach m_pool s) by (exists m_sched_obs; exact Hs).
  split; [reflexivity|]. split; [reflexivity|].
  split; [repeat constructor; cbn; intuition discriminate|].
  split; [intros c [<-|[<-|[]]]; [left|right]; reflexivity|].
  split; [repeat constructor|]. split; [exact Hs|].
  vm_compute in Hs. injection Hs as <-.
  split; [apply mu_zero_stuck; [exact Hr|reflexivity|reflexivity]|].
  vm_compute. auto.
Qed.

(* FINDING about the monitor (not about the code): on the prefix that ends with the failing exit the
   clause fails - Run() has not returned YET *)
Example C10_monitor_clause2_prefix_witness : exists s,
  run (step m_pool) init (firstn 10 m_sched_obs) = Some s /\
  C10_holdsb m_pool (obs_trace obs (firstn 10 m_sched_obs)) = 2%N.
Proof. eexists. split; vm_compute; reflexivity. Qed.

(* ---------------------------------------------------------------------------------------------
   "its state becomes Error" at full strength: for every pool, every schedule, WHATEVER Reload() is in
   progress (in place, restarting, waiting for reloadMu) at the instant Run() handles the failure.
   (proofs/CompositeC10d.v; the same fact is the second conjunct of C10_propagates, stated here on
   its own, together with its counterpart about Run()'s result.)
   --------------------------------------------------------------------------------------------- *)

(* in every reachable state in which Run() has taken a child's failure from serverErrors, and in every
   reachable state in which Run()'s result (computed, published or returned) wraps ErrRunnableFailed, the
   state is Error.  "Reachable" includes every continuation: no later step of a Reload() in flight - its
   Transition(Running) is refused from Error - nor a later Reload()/Stop() call leaves Error. *)
Theorem C10_failure_state_error : forall P s, reach P s ->
  (took s <> None \/
   exists x, result_of (runt s) = Some (Some x) /\ wraps x id_runnable_failed = true) ->
  fsm s = FError.
Proof. exact failure_state_error. Qed.

(* more generally (C08's "Error otherwise" in the full composite model): ANY non-nil result of Run() comes
   with the state Error *)
Theorem C10_error_result_state_error : forall P s x, reach P s ->
  result_of (runt s) = Some (Some x) -> fsm s = FError.
Proof. exact error_result_state_error. Qed.

(* clause 7 of the executable monitor ("Run()'s result wraps ErrRunnableFailed => every state observed
   after Run() returned is Error") holds on the observable trace of every schedule of the model, hence
   (accept_sound) on every accepted implementation trace unless the property fails *)
Theorem C10_monitor_clause7_link : forall P ls s,
  run (step P) init ls = Some s -> failed_state_ok (obs_trace obs ls) = true.
Proof. exact c10_clause7_link. Qed.

Theorem C10_monitor_never_clause7 : forall P ls s,
  run (step P) init ls = Some s -> C10_holdsb P (obs_trace obs ls) <> 7%N.
Proof. exact c10_holdsb_not_7. Qed.

Print Assumptions C10_failure_state_error.
Print Assumptions C10_error_result_state_error.
Print Assumptions C10_monitor_clause7_link.
Print Assumptions C10_monitor_never_clause7.

(* Schedules in which the failure is handled WHILE a Reload() is in progress (hypotheses of the theorems
   above all hold: the states are reachable and took <> None).  [m_pool]: child 0 returns on signal, child
   1 may return anything at any time; both have ReloadWithConfig and a blocking Stop. *)

(* (a) in-place reload, blocked inside child 0's ReloadWithConfig when child 1 fails: Run() forces Error
   while the state was Reloading; the reload's final Transition(Running) is refused; Error at return *)
Definition fr_inplace : list label :=
  [LRunCall; LRunBegin; LBootLock ORun; LCb ORun (CbSome [(0, 0); (1, 0)]%N); LBootLaunch ORun; LToRunning;
   LKRun 0 0%N; LKRun 1 1%N;
   LReloadCall 0; LRlLock 0; LCb (ORel 0) (CbSome [(0, 1); (1, 1)]%N); LRlSetInPlace 0; LRlCfg 0 0%N 1%N;
   LKExit 1 1%N (Some (Errs.Leaf 7%N)); LKSend 1; LSelErr;
   LRlCfg 0 1%N 1%N; LRlFinish 0; LRlRet 0;
   LTearLock; LStopBegin ORun; LWCall 0 1%N; LWCall 1 0%N; LWUnblock 0; LWRet 0 1%N;
   LKExit 0 0%N None; LWUnblock 1; LWRet 1 0%N; LStopCancel ORun; LStopJoin ORun; LRunExit;
   LRunRet (Some (fail_result (Wrap (Errs.Leaf 7%N))))].

Example C10_failure_during_inplace_reload : exists s1 s2 s3,
  run (step m_pool) init (firstn 15 fr_inplace) = Some s1 /\
  fsm s1 = FReloading /\ reload_mu s1 = Some (ORel 0) /\ rel_pc 0 s1 = Some (RInPlace 1) /\ runt s1 = TSelect /\
  run (step m_pool) init (firstn 16 fr_inplace) = Some s2 /\
  took s2 = Some (Wrap (Errs.Leaf 7%N)) /\ fsm s2 = FError /\ reload_mu s2 = Some (ORel 0) /\
  run (step m_pool) init fr_inplace = Some s3 /\
  runt s3 = TDone (Some (fail_result (Wrap (Errs.Leaf 7%N)))) /\ fsm s3 = FError /\ rel_pc 0 s3 = Some RDone /\
  C10_holdsb m_pool (obs_trace obs (fr_inplace ++ [LState FError])) = 0%N /\
  C10_holdsb m_pool (obs_trace obs (firstn 8 fr_inplace ++ LState FRunning :: skipn 8 fr_inplace) ++ [EState FRunning]) = 5%N /\
  C10_holdsb m_pool (obs_trace obs fr_inplace ++ [EState FRunning]) = 7%N.
Proof.
  eexists. eexists. eexists.
  split; [vm_compute; reflexivity|]. do 4 (split; [reflexivity|]).
  split; [vm_compute; reflexivity|]. do 3 (split; [reflexivity|]).
  split; [vm_compute; reflexivity|]. do 3 (split; [reflexivity|]).
  split; [vm_compute; reflexivity|]. split; vm_compute; reflexivity.
Qed.

(* (b) membership-changing reload ([0;1] -> [0]): child 1 returns a real error when the reload stops it;
   the report is handled while the reloader is in the drain of its stopAllRunnables; the reload then stores
   the configuration and boots the new generation, its Transition(Running) is refused; Run() stops the new
   generation and returns the failure; Error throughout *)
Definition fr_restart : list label :=
  [LRunCall; LRunBegin; LBootLock ORun; LCb ORun (CbSome [(0, 0); (1, 0)]%N); LBootLaunch ORun; LToRunning;
   LKRun 0 0%N; LKRun 1 1%N;
   LReloadCall 0; LRlLock 0; LCb (ORel 0) (CbSome [(0, 1)]%N);
   LStopBegin (ORel 0); LWCall 0 1%N; LWCall 1 0%N; LKExit 1 1%N (Some (Errs.Leaf 7%N));
   LWUnblock 0; LWRet 0 1%N; LKExit 0 0%N None; LWUnblock 1; LWRet 1 0%N; LStopCancel (ORel 0);
   LKSend 1; LSelErr;
   LStopJoin (ORel 0); LRlSetCfg 0; LBootLock (ORel 0); LBootLaunch (ORel 0); LRlFinish 0; LRlRet 0;
   LKRun 2 0%N;
   LTearLock; LStopBegin ORun; LWCall 2 0%N; LKExit 2 0%N None; LWUnblock 2; LWRet 2 0%N;
   LStopCancel ORun; LStopJoin ORun; LRunExit; LRunRet (Some (fail_result (Wrap (Errs.Leaf 7%N))))].

Example C10_failure_during_restart_reload : exists s1 s2,
  run (step m_pool) init (firstn 23 fr_restart) = Some s1 /\
  took s1 = Some (Wrap (Errs.Leaf 7%N)) /\ fsm s1 = FError /\ reload_mu s1 = Some (ORel 0) /\
  rel_pc 0 s1 = Some RStopDrain /\
  run (step m_pool) init fr_restart = Some s2 /\
  runt s2 = TDone (Some (fail_result (Wrap (Errs.Leaf 7%N)))) /\ fsm s2 = FError /\ rel_pc 0 s2 = Some RDone /\
  gen s2 = 2 /\ forallb kdone (kids s2) = true.
Proof.
  eexists. eexists.
  split; [vm_compute; reflexivity|]. do 4 (split; [reflexivity|]).
  split; [vm_compute; reflexivity|]. repeat split; reflexivity.
Qed.

(* (c) a Reload() waits for reloadMu, which Run() holds for its failure teardown: it cannot begin before
   Run() has left stopAllRunnables; its Transition(Reloading) is then refused from Error *)
Definition fr_waiting : list label :=
  [LRunCall; LRunBegin; LBootLock ORun; LCb ORun (CbSome [(0, 0); (1, 0)]%N); LBootLaunch ORun; LToRunning;
   LKRun 0 0%N; LKRun 1 1%N;
   LKExit 1 1%N (Some (Errs.Leaf 7%N)); LKSend 1; LSelErr; LTearLock; LReloadCall 0;
   LStopBegin ORun; LWCall 0 1%N; LWCall 1 0%N; LWUnblock 0; LWRet 0 1%N;
   LKExit 0 0%N None; LWUnblock 1; LWRet 1 0%N; LStopCancel ORun; LStopJoin ORun;
   LRlLock 0; LRlRet 0; LRunExit; LRunRet (Some (fail_result (Wrap (Errs.Leaf 7%N))))].

Example C10_failure_with_reload_waiting : exists s1 s2,
  run (step m_pool) init (firstn 13 fr_waiting) = Some s1 /\
  reload_mu s1 = Some ORun /\ step m_pool s1 (LRlLock 0) = None /\ fsm s1 = FError /\
  run (step m_pool) init fr_waiting = Some s2 /\
  runt s2 = TDone (Some (fail_result (Wrap (Errs.Leaf 7%N)))) /\ fsm s2 = FError /\
  option_map r_path (nth_error (reloaders s2) 0) = Some PFailedFsm.
Proof.
  eexists. eexists.
  split; [vm_compute; reflexivity|]. do 3 (split; [reflexivity|]).
  split; [vm_compute; reflexivity|]. repeat split; reflexivity.
Qed.

(* a child that returns a real error in reaction to Stop(): Stop() has won Run()'s select, the error is
   queued and never read, Run() returns nil and the state is Stopped (C10_preempted_nonvacuous above is
   the same outcome with a failure that preceded the Stop()) *)
Definition fr_stoperr : list label :=
  firstn 8 m_sched ++
  [LStopApi 0; LSSignal 0; LSelStop; LTransIf; LTearLock; LStopBegin ORun; LWCall 0 1%N; LWCall 1 0%N;
   LKExit 1 1%N (Some (Errs.Leaf 7%N)); LKSend 1; LWUnblock 0; LWRet 0 1%N;
   LKExit 0 0%N None; LWUnblock 1; LWRet 1 0%N; LStopCancel ORun; LStopJoin ORun; LToStopped; LRunExit;
   LRunRet None; LSRet 0].

Example C10_error_on_stop : exists s,
  run (step m_pool) init fr_stoperr = Some s /\
  runt s = TDone None /\ fsm s = FStopped /\ errq s = [Wrap (Errs.Leaf 7%N)] /\ took s = None /\ fail_sent s = true /\
  C10_holdsb m_pool (obs_trace obs (fr_stoperr ++ [LState FStopped])) = 0%N.
Proof.
  eexists. split; [vm_compute; reflexivity|]. do 5 (split; [reflexivity|]). vm_compute. reflexivity.
Qed.
