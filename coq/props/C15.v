(* C15 — middleware chain and ResponseWriter behave like the reference interpreter.
   This file contains only statements; every proof is `exact <lemma>`.
   Model: model/Chain.v (exec = index machine as RequestProcessor.Next/Abort are written,
   ref = suffix-recursive reference interpreter, writer = responseWriter over httptest.ResponseRecorder).
   All theorems quantify over chains of any length, any handler programs, any request path. *)
From Coq Require Import List NArith ZArith Bool Sorted.
From GS Require Import Chain ChainRef ChainTrace ChainWriter ChainMain.
Import ListNotations.
Open Scope Z_scope.

(* exec never runs out of fuel (nor addresses a missing handler) given fuel > number of handlers *)
Theorem C15_fuel : forall hs path fuel,
  (length hs < fuel)%nat -> exec fuel hs path <> OutOfFuel /\ exec fuel hs path <> Stuck.
Proof. exact exec_fuel_ok. Qed.

(* exec = ref: same trace, same response, same getters (everything except the cursor value) *)
Theorem C15_refines : forall hs path fuel,
  (length hs < fuel)%nat -> forget (exec fuel hs path) = ref hs path.
Proof. exact exec_ref. Qed.

Theorem C15_ref_total : forall hs path, ref hs path <> OutOfFuel /\ ref hs path <> Stuck.
Proof. exact ref_total. Qed.

(* when ServeHTTP returns normally the cursor is past the end (IsAborted reports true) *)
Theorem C15_done_cursor : forall hs path fuel s,
  (length hs < fuel)%nat -> exec fuel hs path = Done s -> final_aborted hs (Done s) = true.
Proof. exact exec_done_aborted. Qed.

(* order, nesting, abort — on ref and, through C15_refines, on the index machine:
   enters = 0,1,..,m-1 (registration order, no gap, at most once); returns from Next in
   non-increasing handler index; no handler entry after an Abort / a returned Next / a recovered panic *)
Theorem C15_order_nesting_abort : forall hs path, order_props (rtrace hs path).
Proof. exact ref_order. Qed.

Theorem C15_order_nesting_abort_exec : forall fuel hs path,
  (length hs < fuel)%nat -> order_props (etrace fuel hs path).
Proof. exact exec_order. Qed.

Theorem C15_order : forall hs path,
  enters (rtrace hs path) = zseq 0 (length (enters (rtrace hs path))) /\
  StronglySorted Z.lt (enters (rtrace hs path)).
Proof. exact ref_enters_order. Qed.

Theorem C15_nesting : forall hs path, StronglySorted (fun a b => b <= a) (nextrets (rtrace hs path)).
Proof. exact ref_nesting. Qed.

Theorem C15_next_effective_once : forall hs path t1 i t2,
  rtrace hs path = t1 ++ ENextRet i :: t2 -> enters t2 = [].
Proof. exact ref_next_once. Qed.

Theorem C15_abort : forall hs path t1 i t2,
  rtrace hs path = t1 ++ EAbort i :: t2 -> enters t2 = [].
Proof. exact ref_abort_stops. Qed.

(* a panic caught by the recovery middleware stops all later handlers ... *)
Theorem C15_panic_stops : forall hs path t1 i sent code t2,
  rtrace hs path = t1 ++ ERecovered i sent code :: t2 -> enters t2 = [].
Proof. exact ref_recovered_stops. Qed.

(* ... and yields 500 whenever nothing had reached the client before (sent = false); otherwise the
   status already sent stands, and the getters say so.  Holds for every status code, including the
   ones net/http rejects by panicking (since repo commit d237067). *)
Theorem C15_panic_status : forall hs path j sent code,
  In (ERecovered j sent code) (rtrace hs path) ->
  exists w, final_w (ref hs path) = Some w /\
    r_wrote (rc w) = true /\ r_code (rc w) = (if sent then code else 500%N) /\
    g_written w = true /\ g_status w = (if sent then code else 500%N).
Proof. exact ref_recovered_status. Qed.

(* getters: Written <-> something reached the recorder; Written -> Status = recorder code = first
   status written (200 if a body came first); Size = bytes accepted = total bytes written unless the
   status forbids a body.  Holds for every status code: a WriteHeader the underlying writer
   rejects by panicking leaves the wrapper untouched (the ghost log `ops` lists the calls that returned). *)
Theorem C15_getters : forall hs path,
  exists w, final_w (ref hs path) = Some w /\
    g_written w = spec_written (ops w) /\
    g_written w = r_wrote (rc w) /\
    (g_written w = true -> g_status w = spec_status (ops w) /\ g_status w = r_code (rc w)) /\
    (g_written w = false -> g_status w = 0%N /\ g_size w = 0%N /\ r_body (rc w) = []) /\
    g_size w = spec_size (ops w) /\
    g_size w = r_acc (rc w) /\
    r_acc (rc w) = (if body_allowed (r_code (rc w)) then lenN (r_body (rc w)) else 0%N) /\
    spec_bytes (ops w) = lenN (r_body (rc w)).
Proof. exact ref_getters. Qed.

Theorem C15_getters_exec : forall fuel hs path,
  (length hs < fuel)%nat ->
  exists w, final_w (forget (exec fuel hs path)) = Some w /\ getters_spec w.
Proof. exact exec_getters. Qed.

(* the first status stands, with no hypothesis on the codes: every observation made once Written()
   is true shows the Status() the run ends with *)
Theorem C15_status_stands : forall hs path j st sz ab,
  In (EObs j st true sz ab) (rtrace hs path) ->
  exists w, final_w (ref hs path) = Some w /\ g_written w = true /\ g_status w = st.
Proof. exact ref_status_stands. Qed.

(* The witness of the repaired defect `invalid-status-latched` (WriteHeader(1000) under recovery used to
   end as 200 with Status() = 1000): it now yields 500 and the getters agree. *)
Theorem C15_fixed_invalid_status : exists c,
  ref [Recovery; User [AWriteHeader 1000]] [] = Done c /\
  In (ERecovered 0 false 200) (c_tr c) /\
  g_written (c_w c) = true /\ g_status (c_w c) = 500%N /\
  r_wrote (rc (c_w c)) = true /\ r_code (rc (c_w c)) = 500%N /\ r_body (rc (c_w c)) = msg500.
Proof. exact witness_fixed. Qed.

Print Assumptions C15_fuel.
Print Assumptions C15_refines.
Print Assumptions C15_ref_total.
Print Assumptions C15_done_cursor.
Print Assumptions C15_order_nesting_abort.
Print Assumptions C15_order_nesting_abort_exec.
Print Assumptions C15_order.
Print Assumptions C15_nesting.
Print Assumptions C15_next_effective_once.
Print Assumptions C15_abort.
Print Assumptions C15_panic_stops.
Print Assumptions C15_panic_status.
Print Assumptions C15_getters.
Print Assumptions C15_getters_exec.
Print Assumptions C15_status_stands.
Print Assumptions C15_fixed_invalid_status.

(* ---------------------------------------------------------------- non-vacuity *)
Definition b_ok : list N := [111; 107]%N.

(* recovery, a middleware with pre- and post-Next code, a handler that writes then panics *)
Definition ex_chain : list handler :=
  [Recovery; User [ASetH 4 2; ANext; AWrite b_ok]; User [AWriteHeader 201; APanic]; User [AWrite b_ok]].

(* the panic is recovered after 201 was sent: 201 stands, handler 3 never runs, the 500 body is appended *)
Example C15_ex_recovered_after_send :
  In (ERecovered 0 true 201) (rtrace ex_chain []) /\
  enters (rtrace ex_chain []) = [0; 1; 2] /\
  exists c, ref ex_chain [] = Done c /\ r_code (rc (c_w c)) = 201%N /\ g_status (c_w c) = 201%N /\
            g_size (c_w c) = 22%N /\ g_written (c_w c) = true.
Proof.
  split; [vm_compute; auto 20|]. split; [vm_compute; reflexivity|].
  eexists. split; [vm_compute; reflexivity|]. repeat split.
Qed.

(* a panic before anything was sent gives 500 *)
Example C15_ex_recovered_500 :
  In (ERecovered 0 false 200) (rtrace [Recovery; User [APanic]] []) /\
  exists c, ref [Recovery; User [APanic]] [] = Done c /\ r_code (rc (c_w c)) = 500%N /\
            g_status (c_w c) = 500%N /\ r_body (rc (c_w c)) = msg500.
Proof.
  split; [vm_compute; auto 20|].
  eexists. split; [vm_compute; reflexivity|]. repeat split.
Qed.

(* nesting: three middlewares calling Next, post-Next code runs 2,1,0; a double Next is harmless *)
Example C15_ex_nesting :
  nextrets (rtrace [User [ANext; ANext]; User [ANext]; User [ANext]; User []] []) = [2; 1; 0; 0] /\
  enters (rtrace [User [ANext; ANext]; User [ANext]; User [ANext]; User []] []) = [0; 1; 2; 3].
Proof. split; vm_compute; reflexivity. Qed.

(* Abort: the remaining handlers are skipped, post-Next code of earlier ones still runs *)
Example C15_ex_abort :
  exists t1 t2, rtrace [User [ANext; AWrite b_ok]; User [AAbort]; User [AWrite b_ok]] [] =
                t1 ++ EAbort 1 :: t2 /\
                enters t1 = [0; 1] /\ nextrets t2 = [0].
Proof.
  eexists [EEnter 0; ENextCall 0; EEnter 1], _. split; [vm_compute; reflexivity|].
  split; reflexivity.
Qed.

(* a handler that does not call Next does not stop the chain (the loop in Next continues) *)
Example C15_ex_no_next_continues :
  enters (rtrace [User []; User []; User []] []) = [0; 1; 2].
Proof. vm_compute. reflexivity. Qed.

(* exec on the default fuel agrees with ref on the example, computed *)
Example C15_ex_exec : forget (exec (exec_fuel ex_chain) ex_chain []) = ref ex_chain [].
Proof. vm_compute. reflexivity. Qed.

(* the wildcard middleware: miss = 404 + Abort, nothing after it runs *)
Example C15_ex_wildcard_miss :
  exists c, ref [Wildcard [47; 97]%N; User [AWrite b_ok]] [47; 98]%N = Done c /\
            r_code (rc (c_w c)) = 404%N /\ enters (c_tr c) = [0] /\ r_body (rc (c_w c)) = msg404.
Proof. eexists. split; [vm_compute; reflexivity|]. repeat split. Qed.
