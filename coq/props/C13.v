(* C13 — HTTP server: reload restarts iff config changed; never silently stale.
   This file contains only statements; every proof is `exact <lemma>`. *)
From Coq Require Import String List NArith ZArith Bool Permutation.
From GS Require Import LTS HttpCfg HttpServer HttpCfgProofs HttpInv HttpInvStep2 HttpProps HttpProgress HttpMeasure.
From GS Require Import HttpCtor HttpCfgFieldsPolicy HttpCfgFields.
Import ListNotations.

(* ---- pure part: Config.Equal (all pairs, no bound on the number of routes or string lengths) ---- *)

(* For path-duplicate-free route lists, Equal is exactly: same address, same four timeouts, same SET of
   (name, path) pairs — for every name key that is invariant under permutation of the names. *)
Theorem C13_equal_iff : forall (key : list str -> str) a b,
  (forall l l', Permutation l l' -> key l = key l') ->
  paths_nodup (routes a) = true -> paths_nodup (routes b) = true ->
  (config_equal key a b = true <->
   (addr a = addr b /\ drain a = drain b /\ read_to a = read_to b /\ write_to a = write_to b /\
    idle_to a = idle_to b) /\ (forall x, In x (routes a) <-> In x (routes b))).
Proof. intros key a b Hk. exact (config_equal_iff key Hk a b). Qed.

(* the code's key (slices.Sort, then fmt.Sprintf("%v")) is such a key, so the statement holds of the
   function the runner calls; [config_equiv] is the executable form of the right-hand side *)
Theorem C13_equal_iff_code : forall a b,
  paths_nodup (routes a) = true -> paths_nodup (routes b) = true ->
  go_config_equal a b = config_equiv a b.
Proof. exact go_config_equal_spec. Qed.

(* "never silently stale", pure half: whenever Equal(new, active) says "unchanged", the new configuration
   has the active one's settings and route set.  Only the ACTIVE configuration must be duplicate-free
   (it is being served), and NOTHING is assumed about the name key: the collisions of
   fmt.Sprintf("%v") on names containing spaces cannot produce a wrong "unchanged". *)
Theorem C13_equal_never_stale : forall (key : list str -> str) new active,
  paths_nodup (routes active) = true -> config_equal key new active = true ->
  (addr new = addr active /\ drain new = drain active /\ read_to new = read_to active /\
   write_to new = write_to active /\ idle_to new = idle_to active) /\
  (forall x, In x (routes new) <-> In x (routes active)) /\ paths_nodup (routes new) = true.
Proof. exact config_equal_never_stale. Qed.

(* ---- drift guard: does Equal still look at everything? ----
   The field lists of the Go structs Config and Route are dumped from the code on every run (reflect,
   coq/gen/HttpCfgFields.v); every field must be classified in model/HttpCfgFieldsPolicy.v as compared (through a named
   field of the model's record) or ignored with its reason, and every field of the model's record must be the image of
   a compared Go field.  A field added to Config without a decision about Equal breaks this theorem. *)
Theorem C13_equal_fields_covered :
  fields_covered config_field_policy go_config_fields model_config_fields = true /\
  fields_covered route_field_policy go_route_fields model_route_fields = true.
Proof. split; vm_compute; reflexivity. Qed.

(* ... and the model's Equal does compare every field of the model's records (hypothesis: Equal answers true) *)
Theorem C13_equal_compares_every_model_field : forall (key : list str -> str) a b,
  config_equal key a b = true ->
  addr a = addr b /\ drain a = drain b /\ read_to a = read_to b /\ write_to a = write_to b /\ idle_to a = idle_to b /\
  routes_equal key (routes a) (routes b) = true.
Proof. exact config_equal_fields. Qed.

(* ---- the two halves composed (audit M9) ----
   [mux_sound mux_ok]: the ServeMux oracle refuses a pattern list with a repeated pattern (registering the same pattern
   twice panics) - the only thing assumed about the oracle. *)

(* the configuration of a server that is being served has no duplicate path
   (hypotheses: mux_sound; no foreign binder; s reachable; state Running; the code's shutdown order or Run not inside
   its own stopServer) *)
Theorem C13_served_config_nodup : forall sl validated mux_ok c0 ls s,
  mux_sound mux_ok -> no_foreign ls ->
  run (step sl validated mux_ok) (init c0) ls = Some s ->
  fsm_st s = FRunning -> (sl = true \/ rpc s <> RInStop) ->
  paths_nodup (routes (cur s)) = true.
Proof. exact running_paths_nodup. Qed.

(* NO STALE SERVER: in every reachable state, whenever a Reload takes the "unchanged" path on a delivered
   configuration c (the step LFetch (CbCfg c) leads to KUnchanged - and then, C13_unchanged, nothing is touched), c has
   the active configuration's address, timeouts and route SET: the server left running serves exactly what c asks
   for.  (Hypotheses: mux_sound; no foreign binder; s reachable; the Reload caller i is about to receive the
   callback's result.)  C13_ex_dup_wrong below shows why the active configuration's duplicate-freeness - here PROVED
   from the protocol, no longer assumed - is needed. *)
Theorem C13_no_stale_server : forall sl validated mux_ok c0 ls s i c s',
  mux_sound mux_ok -> no_foreign ls ->
  run (step sl validated mux_ok) (init c0) ls = Some s ->
  kpc s = KFetch -> holder s = Some (ByReload i) ->
  step sl validated mux_ok s (LFetch (CbCfg c)) = Some s' -> kpc s' = KUnchanged ->
  (addr c = addr (cur s) /\ drain c = drain (cur s) /\ read_to c = read_to (cur s) /\
   write_to c = write_to (cur s) /\ idle_to c = idle_to (cur s)) /\
  (forall x, In x (routes c) <-> In x (routes (cur s))) /\ paths_nodup (routes c) = true.
Proof. exact unchanged_means_equivalent. Qed.

(* ---- protocol part: every schedule of model/HttpServer.v ----
   Schedules are label lists, so "forall ls" is every interleaving of Run, the serve goroutines, any
   number of Reload and Stop callers, context cancellation, every callback result (configuration, error,
   nil) and every result of http.Server.Shutdown, at any position.  [no_foreign ls] is the environment
   hypothesis of C12/C13: no foreign process binds an address while the runner lives. *)

(* A Reload whose callback returns a configuration Equal to the active one: from the callback's return
   until that Reload gives up the mutex no server is created, shut down or unbound, the server pointer,
   the once and the configuration are untouched, and the Reload ends with the state Running. *)
Theorem C13_unchanged_enters : forall sl validated mux_ok s i c s',
  kpc s = KFetch -> holder s = Some (ByReload i) ->
  go_config_equal c (cur s) = true ->
  step sl validated mux_ok s (LFetch (CbCfg c)) = Some s' ->
  kpc s' = KUnchanged /\ servers_untouched s s'.
Proof. exact unchanged_enters. Qed.

Theorem C13_unchanged : forall sl validated mux_ok c0 ls s l s',
  no_foreign ls ->
  run (step sl validated mux_ok) (init c0) ls = Some s ->
  kpc s = KUnchanged ->
  step sl validated mux_ok s l = Some s' ->
  servers_untouched s s' /\
  (kpc s' = KUnchanged \/ (holder s' = None /\ fsm_st s' = FRunning)).
Proof. exact unchanged_step. Qed.

(* A changed configuration replaces r.config before anything else happens ... *)
Theorem C13_changed_takes_new : forall sl validated mux_ok s i c s',
  kpc s = KFetch -> holder s = Some (ByReload i) ->
  go_config_equal c (cur s) = false ->
  step sl validated mux_ok s (LFetch (CbCfg c)) = Some s' ->
  cur s' = c /\ kpc s' = KStopPending.
Proof. exact changed_takes_new. Qed.

(* ... and whenever the state is Running (in particular when that Reload returns with Running) and Run()
   has not begun its own stopServer: the server pointer is a server created from exactly the configuration
   the runner now holds, through a mux that accepted its patterns; it is listening on that address; and it
   is the ONLY server of this runner bound anywhere - so the old server was shut down and, if the address
   changed, the old address is released. *)
Theorem C13_changed : forall sl validated mux_ok c0 ls s,
  no_foreign ls ->
  run (step sl validated mux_ok) (init c0) ls = Some s ->
  fsm_st s = FRunning -> rpc s <> RInStop ->
  exists sid sv, server s = Some sid /\ nth_error (servers s) sid = Some sv /\
                 s_cfg sv = cur s /\ s_shut sv = false /\ s_pc sv = SvListening /\
                 mux_ok (map rpath (routes (cur s))) = true /\
                 net_get (net s) (addr (cur s)) = Some (Own sid) /\
                 (forall a sid', net_get (net s) a = Some (Own sid') -> sid' = sid).
Proof. exact running_serves. Qed.

(* Failures are visible: every way a Reload gives up the mutex is either a failure - callback error (one that does
   NOT wrap ErrOldConfig) or nil, r.server nil, a failed Shutdown of the old server, a new server that did not
   become ready (unbindable address, cancelled context), a configuration NewConfig rejects - and then the state is
   Error at that very step, or the final Transition(Running) of the unchanged / completed path.
   Hypotheses: s holds the mutex for Reload caller i, s' has released it, s -l-> s'.  None on reachability or the
   environment: this holds with foreign binders too.
   THE CODE'S EXCEPTION, followed by the model (audit L7(a)): a callback error that wraps the exported sentinel
   ErrOldConfig is taken for "unchanged" (errors.Is in Reload): label LFetch CbErrOld goes to KUnchanged and the
   Reload ends Running with everything untouched (C13_errold_is_unchanged) - that failure is NOT visible. *)
Theorem C13_visible : forall sl validated mux_ok s l s' i,
  holder s = Some (ByReload i) -> holder s' = None ->
  step sl validated mux_ok s l = Some s' ->
  (reload_failing s l = true /\ fsm_st s' = FError) \/
  ((l = LUnchanged \/ l = LFinish) /\ (fsm_st s' = FRunning \/ fsm_st s' = FError)).
Proof. exact visible_step. Qed.

Theorem C13_errold_is_unchanged : forall sl validated mux_ok s i s',
  kpc s = KFetch -> holder s = Some (ByReload i) ->
  step sl validated mux_ok s (LFetch CbErrOld) = Some s' ->
  kpc s' = KUnchanged /\ servers_untouched s s' /\ reload_failing s (LFetch CbErrOld) = false.
Proof. exact errold_enters. Qed.

(* ---- termination (audit M9): a measure, not only the absence of stuck states ----
   [mu s] (proofs/HttpMeasure.v) adds up the program counters of Run, of the holder of r.mutex and of every serve
   goroutine, the pending serve errors, the Reload callers (21 for one that has not locked yet, 1 for one about to
   return) and the Stop callers.  Labels are classified ([label_class]): ENVIRONMENT = a new Run/Stop/Reload call,
   context cancel, a foreign process binding or freeing an address; OBSERVATION = the harness looking; everything else
   is an IMPLEMENTATION step - including the returns of the two external calls a Reload waits for (the configuration
   callback, http.Server.Shutdown: C14 bounds the latter). *)

(* every implementation step, from every reachable state - NO hypothesis on the environment: after callback errors,
   nil results, failed Shutdowns, foreign binders, unbindable addresses - strictly decreases the measure *)
Theorem C13_measure_decreases : forall sl validated mux_ok c0 ls s l s',
  run (step sl validated mux_ok) (init c0) ls = Some s ->
  step sl validated mux_ok s l = Some s' -> is_sys l = true -> mu s' < mu s.
Proof. exact measure_decreases. Qed.

(* an environment step raises it by at most env_cost (= 21, a new Reload caller), an observation leaves it unchanged *)
Theorem C13_measure_env : forall sl validated mux_ok s l s',
  step sl validated mux_ok s l = Some s' -> is_sys l = false ->
  mu s' <= mu s + (if is_env l then env_cost else 0).
Proof. exact mu_env_step. Qed.

(* TERMINATION: along ANY execution from a reachable state the number of implementation steps is at most the measure
   of the starting state plus env_cost per environment step - with finitely many calls every execution is finite; a
   Reload cannot go round in circles and Run()/Stop() cannot be kept busy forever *)
Theorem C13_terminates : forall sl validated mux_ok c0 ls0 s ls s',
  run (step sl validated mux_ok) (init c0) ls0 = Some s ->
  run (step sl validated mux_ok) s ls = Some s' ->
  nsys ls + mu s' <= mu s + env_cost * nenv ls.
Proof. exact measure_bounded. Qed.

(* ... and it ends where it should.  Whoever holds r.mutex - a Reload in particular - always has a next
   implementation step (hypotheses: reachable, not crashed, the mutex is held) ... *)
Theorem C13_section_progress : forall sl validated mux_ok c0 ls s,
  run (step sl validated mux_ok) (init c0) ls = Some s -> crashed s = false -> holder s <> None ->
  exists l, is_sys l = true /\ step sl validated mux_ok s l <> None.
Proof. exact section_progress. Qed.

(* ... so a state in which no implementation step is enabled (where every maximal execution with finitely many calls
   ends) has nobody inside or waiting for a critical section, every Reload call returned, Run not started / returned /
   waiting in its select with neither Stop nor cancel requested, and every Stop caller returned once Run has
   (hypotheses: reachable, not crashed, no implementation step enabled) *)
Theorem C13_system_stuck_is_idle : forall sl validated mux_ok c0 ls s,
  run (step sl validated mux_ok) (init c0) ls = Some s -> crashed s = false ->
  (forall l, is_sys l = true -> step sl validated mux_ok s l = None) ->
  holder s = None /\ rl_wait s = [] /\ rl_ret s = [] /\
  (rpc s = RNew \/ rpc s = RDone \/ (rpc s = RSelect /\ cancelled s || stop_req s = false /\ errs s = [])) /\
  (stoppers s <> [] -> rpc s <> RDone).
Proof. exact system_stuck_is_idle. Qed.

(* the older, weaker form (kept): once Stop or cancel has been requested, in EVERY reachable state either Run has
   returned or some step other than a new call or an observation is enabled (hypotheses: reachable, not crashed, Run
   has been called, Stop or cancel requested) *)
Theorem C13_no_stuck_after_stop : forall sl validated mux_ok c0 ls s,
  run (step sl validated mux_ok) (init c0) ls = Some s ->
  crashed s = false -> rpc s <> RNew ->
  (cancelled s || stop_req s = true) ->
  run_returned s = true \/ exists l, progress_label l = true /\ step sl validated mux_ok s l <> None.
Proof. exact no_stuck0. Qed.

Print Assumptions C13_equal_iff.
Print Assumptions C13_equal_iff_code.
Print Assumptions C13_equal_never_stale.
Print Assumptions C13_unchanged.
Print Assumptions C13_unchanged_enters.
Print Assumptions C13_changed.
Print Assumptions C13_changed_takes_new.
Print Assumptions C13_visible.
Print Assumptions C13_errold_is_unchanged.
Print Assumptions C13_terminates.
Print Assumptions C13_served_config_nodup.
Print Assumptions C13_equal_fields_covered.
Print Assumptions C13_equal_compares_every_model_field.
Print Assumptions C13_no_stale_server.
Print Assumptions C13_measure_decreases.
Print Assumptions C13_measure_env.
Print Assumptions C13_section_progress.
Print Assumptions C13_system_stuck_is_idle.
Print Assumptions C13_no_stuck_after_stop.

(* ---- non-vacuity ---- *)
Definition ex_r1 : route := {| rname := [97%N]; rpath := [47%N; 120%N] |}.
Definition ex_r2 : route := {| rname := [98%N]; rpath := [47%N; 121%N] |}.
Definition ex_cfg (rs : list route) : config :=
  {| addr := [65%N]; drain := 5%Z; read_to := 1%Z; write_to := 2%Z; idle_to := 3%Z; routes := rs |}.

Example C13_ex_perm_equal : go_config_equal (ex_cfg [ex_r1; ex_r2]) (ex_cfg [ex_r2; ex_r1]) = true.
Proof. vm_compute. reflexivity. Qed.
Example C13_ex_changed : go_config_equal (ex_cfg [ex_r1; ex_r2]) (ex_cfg [ex_r1]) = false.
Proof. vm_compute. reflexivity. Qed.
Example C13_ex_nodup : paths_nodup [ex_r1; ex_r2] = true.
Proof. vm_compute. reflexivity. Qed.
(* outside the hypothesis Equal really is wrong: the second argument has a duplicate path and the sets differ *)
Example C13_ex_dup_wrong :
  go_config_equal (ex_cfg [{| rname := [97%N]; rpath := [47%N; 122%N] |}; ex_r1]) (ex_cfg [ex_r1; ex_r1]) = true.
Proof. vm_compute. reflexivity. Qed.

(* the protocol theorems are not vacuous: a reload with a changed address reaches Running again *)
Definition ex_a : config := ex_cfg [ex_r1].
Definition ex_b : config :=
  {| addr := [66%N]; drain := 5%Z; read_to := 1%Z; write_to := 2%Z; idle_to := 3%Z; routes := [ex_r1; ex_r2] |}.
Definition ex_sched : list label :=
  [LRunCall; LRunStart; LRunLock; LBootCreate 0 ex_a; LBindOk 0; LProbeOk; LRunFinishBoot;
   LReloadCall 0; LReloadBegin 0; LFetch (CbCfg ex_b); LStopCallS 0; LShutdownRet 0 SOk;
   LBootCreate 1 ex_b; LBindOk 1; LProbeOk; LFinish; LReloadRet 0].
Example C13_ex_reload_changed :
  exists s, run (step true false (fun _ => true)) (init ex_a) ex_sched = Some s /\
            fsm_st s = FRunning /\ rpc s = RSelect /\ server s = Some 1 /\
            net_get (net s) (addr ex_b) = Some (Own 1) /\ net_get (net s) (addr ex_a) = None.
Proof. eexists. split; [vm_compute; reflexivity|]. repeat split. Qed.
Example C13_ex_no_foreign : no_foreign ex_sched.
Proof. repeat constructor. Qed.

(* the drift guard does reject: a Config with one more field (the flag of seeded change C19-3) is not covered *)
Example C13_ex_new_field_breaks :
  fields_covered config_field_policy (go_config_fields ++ [("routesChecked"%string, "bool"%string)]) model_config_fields = false.
Proof. vm_compute. reflexivity. Qed.
Example C13_ex_equal_true : config_equal go_names_key (ex_cfg [ex_r1; ex_r2]) (ex_cfg [ex_r2; ex_r1]) = true.
Proof. vm_compute. reflexivity. Qed.

(* C13_no_stale_server and C13_served_config_nodup: all hypotheses at once (a sound oracle, a foreign-binder-free schedule
   reaching a Reload about to receive its callback's result, a permuted - hence "unchanged" - configuration) *)
Definition ex_pre : list label :=
  [LRunCall; LRunStart; LRunLock; LBootCreate 0 (ex_cfg [ex_r1; ex_r2]); LBindOk 0; LProbeOk; LRunFinishBoot;
   LReloadCall 0; LReloadBegin 0].
Example C13_ex_no_stale_hyps :
  mux_sound nodup_oracle /\ no_foreign ex_pre /\
  exists s s', run (step true true nodup_oracle) (init (ex_cfg [ex_r1; ex_r2])) ex_pre = Some s /\
               kpc s = KFetch /\ holder s = Some (ByReload 0) /\
               step true true nodup_oracle s (LFetch (CbCfg (ex_cfg [ex_r2; ex_r1]))) = Some s' /\ kpc s' = KUnchanged.
Proof.
  split; [exact nodup_oracle_sound|]. split; [repeat constructor|].
  do 2 eexists. split; [vm_compute; reflexivity|]. split; [reflexivity|]. split; [reflexivity|]. split; reflexivity.
Qed.
Example C13_ex_served_nodup_hyps :
  exists s, run (step true true nodup_oracle) (init (ex_cfg [ex_r1; ex_r2]))
              [LRunCall; LRunStart; LRunLock; LBootCreate 0 (ex_cfg [ex_r1; ex_r2]); LBindOk 0; LProbeOk; LRunFinishBoot] = Some s /\
            fsm_st s = FRunning.
Proof. eexists. split; [vm_compute; reflexivity|reflexivity]. Qed.
(* a callback error wrapping ErrOldConfig (hypotheses of C13_errold_is_unchanged): the Reload ends Running *)
Example C13_ex_errold :
  exists s, run (step true true (fun _ => true)) (init ex_a)
              [LRunCall; LRunStart; LRunLock; LBootCreate 0 ex_a; LBindOk 0; LProbeOk; LRunFinishBoot;
               LReloadCall 0; LReloadBegin 0; LFetch CbErrOld; LUnchanged; LReloadRet 0] = Some s /\
            fsm_st s = FRunning /\ server s = Some 0 /\ length (servers s) = 1.
Proof. eexists. split; [vm_compute; reflexivity|]. repeat split. Qed.
(* the measure over a whole run - reload - stop cycle (24 implementation steps, 3 calls): from 43 down to its minimum
   1 (the constant of a state that has not crashed) *)
Example C13_ex_measure :
  mu (init ex_a) = 43 /\
  exists s, run (step true true (fun _ => true)) (init ex_a) (ex_sched ++ [LStopCall 0; LRunWake; LRunLockStop; LStopCallS 1;
              LShutdownRet 1 SOk; LRunFinishStop; LRunRet ROk; LStopRet 0; LLasClosed 0; LLasClosed 1]) = Some s /\ mu s = 1.
Proof. split; [reflexivity|]. eexists. split; [vm_compute; reflexivity|reflexivity]. Qed.

(* a reload that switches every server timeout off (0) and re-pairs names and paths: the server then running was
   created from exactly that configuration, zeros and pairing included *)
Definition ex_zero : config :=
  {| addr := [65%N]; drain := 5%Z; read_to := 0%Z; write_to := 0%Z; idle_to := 0%Z;
     routes := [{| rname := rname ex_r1; rpath := rpath ex_r2 |}; {| rname := rname ex_r2; rpath := rpath ex_r1 |}] |}.
Definition ex_two : config := ex_cfg [ex_r1; ex_r2].
Example C13_ex_zero_and_swap_is_a_change : go_config_equal ex_zero ex_two = false /\
  go_config_equal (ex_cfg (routes ex_zero)) ex_two = false.
Proof. split; vm_compute; reflexivity. Qed.
Example C13_ex_reload_to_zero :
  exists s sv, run (step true true (fun _ => true)) (init ex_two)
                 [LRunCall; LRunStart; LRunLock; LBootCreate 0 ex_two; LBindOk 0; LProbeOk; LRunFinishBoot;
                  LReloadCall 0; LReloadBegin 0; LFetch (CbCfg ex_zero); LStopCallS 0; LShutdownRet 0 SOk;
                  LBootCreate 1 ex_zero; LBindOk 1; LProbeOk; LFinish] = Some s /\
               fsm_st s = FRunning /\ nth_error (servers s) 1 = Some sv /\ s_cfg sv = ex_zero.
Proof. eexists. eexists. split; [vm_compute; reflexivity|]. repeat split. Qed.
