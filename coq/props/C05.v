(* C05 - Supervisor: each reload request yields exactly one serialized in-order pass.
   Statements only. *)
From Coq Require Import List Bool Arith.
From GS Require Import LTS Supervisor SupAccept SupProps SupInv SupReload SupCount.
Import ListNotations.

(* In every execution the Reload() calls and returns are a prefix of (one full pass)^k, where a
   full pass is ReloadCall i; ReloadRet i for every Reloadable i in registration order: passes
   never overlap, each calls Reload exactly once on every Reloadable, in order, and never on a
   runnable that is not Reloadable. *)
Theorem C05_shape : forall c ls s,
  run (step c) (init c) ls = Some s -> c05_shape c (obs_trace obs ls) = true.
Proof. exact sup_c05_shape. Qed.

(* No request is lost while the supervisor runs: in a quiescent state with an idle reload manager
   there is no pending SIGHUP sender, no trigger listener waiting to forward, and no ReloadAll()
   caller still blocked. *)
Theorem C05_no_loss : forall c s,
  quiescent c s = true -> rm s = RmIdle ->
  hup s = 0 /\
  (forall i, i < nrun c -> get LsAbsent (rls s) i <> LsFwd) /\
  (forall k cs, In (k, OpReloadAll, cs) (callers s) -> find_caller k (callers s) <> Some (OpReloadAll, CPending)).
Proof. exact sup_c05_no_loss. Qed.

(* A reload never stops a runnable and never makes Run() return. *)
Theorem C05_frame : forall c s l s',
  is_reload_label l = true -> step c s l = Some s' ->
  sd s' = sd s /\ main s' = main s /\ rn s' = rn s /\ stop_called s' = stop_called s /\
  own_cancel s' = own_cancel s.
Proof. exact sup_c05_frame. Qed.

Print Assumptions C05_shape.
Print Assumptions C05_no_loss.
Print Assumptions C05_frame.

Definition c05_spec (r : bool) : rspec :=
  {| stateable := false; reloadable := r; rsender := false; ssender := false;
     stop_style := StopNonBlocking; run_exit := ExitOnSignal; held_sub := false |}.
Definition c05_cfg : config :=
  {| specs := [c05_spec true; c05_spec false; c05_spec true];
     startup_may_fire := false; shutdown_may_fire := false |}.
Definition c05_sched : list label :=
  [LRunEnter; LRunEntered; LCall 1 OpReloadAll; LRmAccept (SndCaller 1); LRet 1 OpReloadAll;
   LReloadCall 0; LReloadRet 0; LReloadCall 2; LReloadRet 2].
Example C05_ex_schedule :
  exists s, run (step c05_cfg) (init c05_cfg) c05_sched = Some s /\
            reload_evs (obs_trace obs c05_sched) = one_pass c05_cfg /\ passes s = 1.
Proof. eexists. split; [vm_compute; reflexivity|]. split; vm_compute; reflexivity. Qed.
Example C05_ex_rejects_non_reloadable :
  c05_shape c05_cfg [EReloadCall 0; EReloadRet 0; EReloadCall 1] = false.
Proof. vm_compute. reflexivity. Qed.
Example C05_ex_rejects_overlap :
  c05_shape c05_cfg [EReloadCall 0; EReloadCall 0] = false.
Proof. vm_compute. reflexivity. Qed.

(* ---- counting ---- *)

(* No request is duplicated: in every execution the number of passes begun (first Reload() call of
   a pass) never exceeds the number of requests made so far (ReloadAll() calls, SIGHUP SendSignal
   calls, ReloadSender triggers). *)
Theorem C05_no_dup : forall c ls s,
  run (step c) (init c) ls = Some s -> c05_no_dup c (obs_trace obs ls) = true.
Proof. exact sup_c05_no_dup. Qed.

(* Exact accounting in every reachable state: the rendezvous completed on the reload channel
   (passes s) are exactly the passes begun plus the one accepted pass whose first Reload() call is
   still due; and rendezvous plus the requests still on their way (callers inside ReloadAll() or
   SendSignal(SIGHUP), queued SIGHUPs, `go ReloadAll()` goroutines, unreceived trigger offers,
   listeners about to forward) never exceed the requests made. *)
Theorem C05_count : forall c s,
  reachable_sup c s ->
  passes s = passes_begun c (rev (hist s)) + due c s /\
  passes s + pending_requests s <= requests_upper (rev (hist s)).
Proof. exact sup_c05_count. Qed.

(* Each rendezvous is accepted by an idle manager only, consumes exactly one request on its way
   and starts exactly one pass (at the first Reloadable), without any visible event of its own. *)
Theorem C05_accept_one : forall c s w s',
  step c s (LRmAccept w) = Some s' ->
  rm s = RmIdle /\ rm s' = rm_after c 0 /\ passes s' = S (passes s) /\
  pending_requests s = S (pending_requests s') /\ hist s' = hist s.
Proof. exact sup_c05_accept_one. Qed.

(* ---- no request is lost (the lower bound) ---- *)

(* While the supervisor's context is not cancelled (ctx_done s = false) and some runnable is Reloadable
   (any_spec reloadable c = true), the accounting is EXACT in every reachable state: every request made so far - a
   ReloadAll() call, a SIGHUP SendSignal call, a trigger offered on a reload-trigger channel - is either still on
   its way (pending_requests: a caller inside ReloadAll()/SendSignal(SIGHUP), a queued SIGHUP, a `go ReloadAll()`
   goroutine, an unreceived trigger offer, a listener about to forward) or has had a rendezvous of its own with the
   reload manager (passes).  Nothing is dropped.  (With a cancelled context callers and listeners give up; without
   any Reloadable a SIGHUP is ignored: the two hypotheses are exactly the two ways a request may vanish.) *)
Theorem C05_no_request_lost : forall c s,
  reachable_sup c s -> ctx_done s = false -> any_spec reloadable c = true ->
  passes s + pending_requests s = requests_upper (rev (hist s)).
Proof. exact sup_c05_no_request_lost. Qed.

(* ... so at a quiescent point with the supervisor running in reap() (main s = MReap) and an idle manager nothing
   is on its way any more except trigger offers nobody listens to (list_sum rtrig: offers on the channel of a
   runnable without a listener): every other request made so far has had its rendezvous *)
Theorem C05_all_served : forall c s,
  reachable_sup c s -> quiescent c s = true -> ctx_done s = false -> any_spec reloadable c = true ->
  rm s = RmIdle -> main s = MReap ->
  passes s + list_sum (rtrig (aux s)) = requests_upper (rev (hist s)).
Proof. exact sup_c05_all_served. Qed.

(* ... and a pass the manager has begun completes: it is never stuck before a Reload() call (that call is the
   manager's own, always enabled, next step; in a quiescent state the manager is never there), and inside a
   Reload() call the only thing it waits for is that call's return (owed by the runnable).  With C05_shape and
   C05_count: each rendezvous yields exactly one full in-order pass - also the trailing one. *)
Theorem C05_pass_completes : forall c s j,
  (rm s = RmNext j -> step c s (LReloadCall j) <> None) /\
  (rm s = RmIn j -> step c s (LReloadRet j) <> None) /\
  (quiescent c s = true -> j < nrun c -> rm s <> RmNext j).
Proof. exact sup_c05_pass_completes. Qed.

Print Assumptions C05_no_dup.
Print Assumptions C05_count.
Print Assumptions C05_accept_one.
Print Assumptions C05_no_request_lost.
Print Assumptions C05_all_served.
Print Assumptions C05_pass_completes.

(* non-vacuity: three requests from the three sources, two accepted so far; one still on its way *)
Definition c05_cfg3 : config :=
  {| specs := [ {| stateable := false; reloadable := true; rsender := true; ssender := false;
                   stop_style := StopNonBlocking; run_exit := ExitOnSignal; held_sub := false |} ];
     startup_may_fire := false; shutdown_may_fire := false |}.
Definition c05_sched3 : list label :=
  [LRunEnter; LRunEntered; LLaunch 0; LCall 1 OpReloadAll; LCall 2 (OpSignal SigHup); LTrigR 0; LSigPut 2; LReapSig;
   LRmAccept SndHup; LReloadCall 0; LReloadRet 0; LTrigRecvR 0; LRmAccept (SndListener 0)].
Example C05_ex_count :
  exists s, run (step c05_cfg3) (init c05_cfg3) c05_sched3 = Some s /\
            passes s = 2 /\ passes_begun c05_cfg3 (rev (hist s)) = 1 /\ due c05_cfg3 s = 1 /\
            pending_requests s = 1 /\ requests_upper (rev (hist s)) = 3.
Proof.
  eexists. split; [vm_compute; reflexivity|]. split; [vm_compute; reflexivity|].
  split; [vm_compute; reflexivity|]. split; [vm_compute; reflexivity|]. split; vm_compute; reflexivity.
Qed.
(* non-vacuity of C05_no_request_lost / C05_all_served, all hypotheses at once: a burst - two SIGHUPs and a
   ReloadAll() - while the first pass is inside Reload(); at the quiescent end all four requests have had a pass *)
Definition c05_burst : list label :=
  [LRunEnter; LRunEntered; LLaunch 0; LRunCall 0;
   LCall 1 (OpSignal SigHup); LSigPut 1; LRet 1 (OpSignal SigHup); LReapSig; LRmAccept SndHup; LReloadCall 0;
   LCall 2 (OpSignal SigHup); LSigPut 2; LRet 2 (OpSignal SigHup); LReapSig;
   LCall 3 (OpSignal SigHup); LSigPut 3; LRet 3 (OpSignal SigHup); LReapSig; LCall 4 OpReloadAll;
   LReloadRet 0; LRmAccept SndHup; LReloadCall 0; LReloadRet 0; LRmAccept (SndCaller 4); LRet 4 OpReloadAll;
   LReloadCall 0; LReloadRet 0; LRmAccept SndHup; LReloadCall 0; LReloadRet 0].
Example C05_ex_all_served :
  exists s, run (step c05_cfg3) (init c05_cfg3) c05_burst = Some s /\ quiescent c05_cfg3 s = true /\
            ctx_done s = false /\ any_spec reloadable c05_cfg3 = true /\ rm s = RmIdle /\ main s = MReap /\
            passes s = 4 /\ requests_upper (rev (hist s)) = 4 /\ pending_requests s = 0 /\
            c05_lower c05_cfg3 (obs_trace obs c05_burst ++ [EQuiet]) = true.
Proof. eexists. split; [vm_compute; reflexivity|]. repeat split; vm_compute; reflexivity. Qed.
(* the lower-bound monitor rejects a trace in which a SIGHUP that arrived during a pass got no pass of its own *)
Example C05_ex_lower_rejects :
  c05_lower c05_cfg3 [ERunEnter; ERunCall 0; ECall 1 (OpSignal SigHup); ERet 1 (OpSignal SigHup); EReloadCall 0;
                      ECall 2 (OpSignal SigHup); ERet 2 (OpSignal SigHup); EReloadRet 0; EQuiet] = false.
Proof. vm_compute. reflexivity. Qed.
Example C05_ex_rejects_unrequested_pass :
  c05_no_dup c05_cfg [ECall 1 OpReloadAll; EReloadCall 0; EReloadRet 0; EReloadCall 2; EReloadRet 2; EReloadCall 0] = false.
Proof. vm_compute. reflexivity. Qed.
